SPECIFICATION Spec
CONSTANTS
  Parts = {"lzw"}
  RLCounts = {1}
  RLMaxRuns = 1
  SmallLen = 7
  LzwLens = {3850, 250, 251, 252, 253, 254, 255, 256, 257, 258, 259, 260, 261, 262, 771, 772, 773, 774, 775, 776, 777, 778, 779, 780, 1793, 1800, 1810, 1815, 1820, 1821, 1822, 1823, 1824, 1825, 1830, 764, 765, 766, 767, 768, 769, 770, 1789, 1790, 1791, 1792, 3837, 3838, 3839, 3840, 4200, 4201, 4300}
  BREAK = "none"
INVARIANTS LZWOK
CHECK_DEADLOCK FALSE
