--------------------------- MODULE Gen_FilterPipe ---------------------------
(* The caller-visible chunking schedules of FilterPipe, written out for the  *)
(* harness: write-size sequences (in units, zero-length writes included) and *)
(* cyclic read-size patterns.                                                *)
EXTENDS FilterPipe, Json, IOUtils, SequencesExt
W == SetToSeq(WriteSchedules)
R == SetToSeq(ReadPatterns)
ASSUME ndJsonSerialize(IOEnv.OUT,
         [i \in 1..Len(W) |-> [kind |-> "w", sizes |-> W[i]]] \o [i \in 1..Len(R) |-> [kind |-> "r", sizes |-> R[i]]])
Init0 == nw = 0 /\ enc = <<>> /\ closed = 0 /\ file = <<>> /\ dec = <<>> /\ fpos = 0 /\ out = <<>>
         /\ phase = "done" /\ zw = 0 /\ zr = 0 /\ hist = <<>>
Next0 == UNCHANGED vars
=============================================================================
