---------------------------- MODULE Gen_Hostile ----------------------------
(* Hostile inputs for the stream decoders (property C08), generated from the *)
(* specifications:                                                           *)
(*  PART = "dicts":  type-confused parameter dictionaries.  For every pair   *)
(*     of parameter keys of FlateDecode, LZWDecode and CCITTFaxDecode, every *)
(*     pair of values from {absent, null, name, string, array, dict, real,   *)
(*     booleans, -1, 0, 1, 2, a typical value, 2^20, 2^20+1, 2^31, 2^63-1}   *)
(*     (the quick tier uses a subset), with the struct filter.go's parse*    *)
(*     must produce according to FilterParams.ImplParse.                     *)
(*  PART = "bodies": every sequence of up to MaxLen tokens over a small      *)
(*     token alphabet of each of the five specified formats (valid and       *)
(*     invalid tokens: truncated groups, codes beyond the LZW table, literal *)
(*     runs past the end, missing EOD, undefined PNG filter types), with     *)
(*     the outcome of the reference decoder.                                 *)
EXTENDS FilterParams, Json, IOUtils, SequencesExt
CONSTANTS PART, TIER, MaxLen

RL  == INSTANCE RunLength
AH  == INSTANCE AsciiHex
A85 == INSTANCE Ascii85
PR  == INSTANCE Predictor
LZ  == INSTANCE Lzw

Absent == [t |-> "none"]
Typical(k) == CASE k = "Predictor" -> 12 [] k = "Colors" -> 3 [] k = "BitsPerComponent" -> 4 [] k = "Columns" -> 5
                [] k = "EarlyChange" -> 1 [] k = "K" -> 4 [] k = "Rows" -> 7 [] k = "DamagedRowsBeforeError" -> 2 [] OTHER -> 10
Ints(k) == IF TIER = "t" THEN {-1, 0, 1, 2, Typical(k), 16, MaxDim, MaxDim + 1, Big31, Big63}
           ELSE {-1, 0, 1, Typical(k), MaxDim + 1, Big63}
Vals(k) == {Absent, Null, Nm("X"), Bo(TRUE), Bo(FALSE), [t |-> "real", v |-> "1.5"]}
           \cup (IF TIER = "t" THEN {[t |-> "string", v |-> "8"], [t |-> "array", v |-> <<>>], [t |-> "dict", v |-> <<>>]} ELSE {})
           \cup {I(n) : n \in Ints(k)}
Keys(name) == CASE name = "FlateDecode" -> <<"Predictor", "Colors", "BitsPerComponent", "Columns">>
                [] name = "LZWDecode" -> <<"Predictor", "Colors", "BitsPerComponent", "Columns", "EarlyChange">>
                [] name = "CCITTFaxDecode" -> <<"K", "EndOfLine", "EncodedByteAlign", "Columns", "Rows", "EndOfBlock", "BlackIs1",
                                                "DamagedRowsBeforeError">>
Mk(k, v) == IF v = Absent THEN Empty ELSE k :> v
DictsOf(name) ==
  LET ks == Keys(name) IN
  UNION {{ Mk(ks[i], a) @@ Mk(ks[j], b) : a \in Vals(ks[i]), b \in Vals(ks[j]) } :
           <<i, j>> \in {p \in (1..Len(ks)) \X (1..Len(ks)) : p[1] < p[2]}}
DictLines == UNION {{ [name |-> name, dict |-> d, clamp |-> ImplParse(name, d)] : d \in DictsOf(name) }
                    : name \in {"FlateDecode", "LZWDecode", "CCITTFaxDecode"}}

\* ---- bodies
Seqs(S, n) == UNION {[1..k -> S] : k \in 0..n}
RLTok  == {0, 1, 2, 127, 128, 129, 254, 255, 65}
AHTok  == {48, 97, 70, 103, 32, 62, 128}
A85Tok == {33, 117, 122, 126, 62, 32, 118, 115}
LzwTok == {0, 65, 255, 256, 257, 258, 259, 260, 300, 511}
PngTok == {0, 1, 2, 3, 4, 5, 255}
PngP == [pred |-> 12, colors |-> 1, bpc |-> 8, cols |-> 2]
NoP == [pred |-> 1, colors |-> 1, bpc |-> 8, cols |-> 1]
Line(fmt, early, p, body, d) == [fmt |-> fmt, early |-> early, p |-> p, body |-> body, st |-> d.st, data |-> d.data]
BodyLines ==
  {Line("rl", 0, NoP, b, RL!RefDecode(b)) : b \in Seqs(RLTok, MaxLen)}
  \cup {Line("ah", 0, NoP, b, AH!RefDecode(b)) : b \in Seqs(AHTok, MaxLen)}
  \cup {Line("a85", 0, NoP, b, A85!RefDecode(b)) : b \in Seqs(A85Tok, MaxLen)}
  \cup UNION {{ LET b == LZ!PackCodes([i \in 1..Len(c) |-> <<c[i], 9>>]) IN Line("lzw", e, NoP, b, LZ!RefDecode(b, e))
                : c \in Seqs(LzwTok, MaxLen - 1) } : e \in {0, 1}}
  \cup {Line("pr", 0, PngP, b, PR!RefDecode(PngP, b)) : b \in Seqs(PngTok, MaxLen)}

ASSUME ndJsonSerialize(IOEnv.OUT, SetToSeq(IF PART = "dicts" THEN DictLines ELSE BodyLines))
VARIABLE x
Init == x = 0
Next == UNCHANGED x
=============================================================================
