SPECIFICATION Spec
CONSTANTS
  MaxUnits = 3
  RowUnits = 1
  RowStage = 0
  Stages = 3
  MaxRead = 2
  MaxZero = 1
  BREAK = "none"
INVARIANTS ConservationW ConservationR FIFO EOFLast FileComplete NoStuck SchedOK
CHECK_DEADLOCK FALSE
