-------------------------- MODULE Trace_FilterPipe --------------------------
(* Judges one run of a real filter chain against the FIFO contract of        *)
(* FilterPipe.  One record per run:                                          *)
(*   [chain, via, rowBytes, inLen, inSum, writes, closeErr, reads, outLen,   *)
(*    outSum, in, out]                                                       *)
(* writes = <<len, n, err, repeat>>* as returned by Write; closeErr = 1 when *)
(* Close failed; reads = <<req, got, st, repeat>>* with st 0 = nil, 1 =      *)
(* io.EOF, 2 = other error (repeat: that many equal events in a row);        *)
(* inSum/outSum = SHA-256 of what was written / read (hex strings);   *)
(* in/out = the bytes themselves for short inputs (absent otherwise).        *)
(* The record is accepted when the caller-visible history is a behaviour of  *)
(* FilterPipe: every write taken whole, close succeeds, every read returns   *)
(* at most what was asked, end of file exactly once, at the end, after all   *)
(* data -- and out = in.                                                     *)
EXTENDS Naturals, Sequences, TraceLib

Cases == Records
MaxNoProgress == 64      \* (0, nil) answers in a row tolerated before "stuck"

\* entries carry a repeat count: <<a, b, c, repeat>> stands for repeat equal events
SumAt(s, j) == LET RECURSIVE S(_) S(i) == IF i = 0 THEN 0 ELSE S(i - 1) + s[i][j] * s[i][4] IN S(Len(s))
Has(c, f) == f \in DOMAIN c

WritesOK(c) == /\ \A i \in 1..Len(c.writes) : c.writes[i][2] = c.writes[i][1] /\ c.writes[i][3] = 0
               /\ SumAt(c.writes, 1) = c.inLen
               /\ c.closeErr = 0
\* longest run of reads that made no progress
RECURSIVE Stall(_, _, _, _)
Stall(r, i, run, best) ==
  IF i > Len(r) THEN best
  ELSE IF r[i][1] > 0 /\ r[i][2] = 0 /\ r[i][3] = 0
       THEN Stall(r, i + 1, run + r[i][4], IF run + r[i][4] > best THEN run + r[i][4] ELSE best)
       ELSE Stall(r, i + 1, 0, best)
ReadsOK(c) == LET r == c.reads n == Len(r) IN
  /\ n >= 1
  /\ \A i \in 1..n : r[i][2] <= r[i][1] /\ r[i][4] >= 1
  /\ \A i \in 1..(n - 1) : r[i][3] = 0            \* no error and no end of file before the end
  /\ r[n][3] = 1 /\ r[n][4] = 1                   \* the run ends with io.EOF, once
  /\ Stall(r, 1, 0, 0) <= MaxNoProgress
  /\ SumAt(r, 2) = c.outLen
DataOK(c) == /\ c.outLen = c.inLen
             /\ c.outSum = c.inSum
             /\ (Has(c, "in") => Has(c, "out") /\ c.out = c.in /\ Len(c.in) = c.inLen)
\* admissible shape (FilterPipe): whole rows
Admissible(c) == c.rowBytes >= 1 /\ c.inLen % c.rowBytes = 0
CaseOK(c) == Admissible(c) /\ WritesOK(c) /\ ReadsOK(c) /\ DataOK(c)

VARIABLES i, bad, done
vars == <<i, bad, done>>
Init == i = 1 /\ bad = <<>> /\ done = FALSE
Step == /\ i <= Len(Cases)
        /\ i' = i + 1
        /\ bad' = IF CaseOK(Cases[i]) THEN bad ELSE Append(bad, i)
        /\ UNCHANGED done
Finish == /\ i = Len(Cases) + 1 /\ ~done
          /\ done' = TRUE
          /\ WriteVerdict(bad)
          /\ UNCHANGED <<i, bad>>
Next == Step \/ Finish
Spec == Init /\ [][Next]_vars
=============================================================================
