------------------------------ MODULE FilterPipe ------------------------------
(* The contract of a stream filter chain (pdf.Filter.Encode / Decode, used    *)
(* through Writer.OpenStream and pdf.DecodeStream) as a FIFO queue of data    *)
(* units: what is written, in whatever chunks, is what is read back, in       *)
(* whatever chunks, in order, exactly once, and end-of-file is reported only  *)
(* after everything has been delivered.                                       *)
(*                                                                            *)
(* Mechanism modelled: a chain of Stages encoders (stage 1 is the writer the  *)
(* caller holds = the LAST filter given to OpenStream, stage Stages writes    *)
(* the file), each with an internal buffer; data moves down by Fwd (a stage   *)
(* may forward any amount at any time; a row based stage -- predictor,        *)
(* CCITTFax -- forwards whole rows only); Close propagates down, each stage   *)
(* flushing its buffer first.  When the file is complete the decoders         *)
(* (stage Stages reads the file, stage 1 is the reader the caller holds)      *)
(* pull data up; Read(n) hands out between 1 and n buffered units, or reports *)
(* end of file when the whole chain is drained.                               *)
(*                                                                            *)
(* ADMISSIBLE SHAPE (property C06: "every input of admissible shape (whole    *)
(* rows where the filter works on rows)"):                                    *)
(*  * the total length is a multiple of the row size of every row based       *)
(*    filter in the chain (CloseW is enabled on row boundaries only);         *)
(*  * CCITTFax: the unused low bits of the last byte of each row are zero     *)
(*    (the encoder refuses other rows); at most /Rows rows when /Rows > 0;    *)
(*    and the stream must be delimited by the format itself: the combination  *)
(*    EndOfBlock = false with /Rows = 0 is excluded, because then the zero    *)
(*    padding bits of the last byte cannot be told from further rows, and so  *)
(*    is EndOfBlock = false with fewer rows written than /Rows; at most 65536 *)
(*    rows (the decoder bounds its output by the library's image limits,      *)
(*    internal/limits.MaxImageHeight -- see property C08).                    *)
(* The generators honour these exclusions; the harness never reports a case   *)
(* outside the admissible shape.                                              *)
EXTENDS Naturals, Sequences, FiniteSets, TLC

CONSTANTS MaxUnits,    \* at most this many units are written
          RowUnits,    \* units per row of the row based stage (1: no row structure)
          RowStage,    \* which encoder stage is row based (0: none)
          Stages,      \* number of filters in the chain, 1..3
          MaxRead,     \* largest read request, in units
          MaxZero,     \* at most this many zero-length writes, and zero-length reads
          BREAK        \* negative controls: "none" | "dropflush" | "earlyeof"

VARIABLES nw,       \* number of units handed to Write so far (units are 1..nw)
          enc,      \* enc[i]: buffer of encoder stage i
          closed,   \* encoder stages 1..closed have been closed
          file,     \* the encoded stream as stored in the file
          dec,      \* dec[i]: buffer of decoder stage i
          fpos,     \* units of the file consumed by decoder stage Stages
          out,      \* units delivered to the caller
          phase,    \* "write" | "read" | "done"
          zw, zr,   \* zero-length writes / reads so far
          hist      \* caller-visible history
vars == <<nw, enc, closed, file, dec, fpos, out, phase, zw, zr, hist>>

Iota(a, b) == [i \in 1..(b + 1 - a) |-> a + i - 1]      \* <<a, ..., b>>
RECURSIVE Cat(_, _)
Cat(f, n) == IF n = 0 THEN <<>> ELSE Cat(f, n - 1) \o f[n]     \* f[1] \o ... \o f[n]
RECURSIVE CatRev(_, _)
CatRev(f, n) == IF n = 0 THEN <<>> ELSE f[n] \o CatRev(f, n - 1) \* f[n] \o ... \o f[1]
Drop(s, m) == SubSeq(s, m + 1, Len(s))
Take(s, m) == SubSeq(s, 1, m)

Init == /\ nw = 0 /\ enc = [i \in 1..Stages |-> <<>>] /\ closed = 0 /\ file = <<>>
        /\ dec = [i \in 1..Stages |-> <<>>] /\ fpos = 0 /\ out = <<>>
        /\ phase = "write" /\ zw = 0 /\ zr = 0 /\ hist = <<>>

(* ---- caller-visible actions of the writing side *)
Write(k) == /\ phase = "write" /\ closed = 0
            /\ nw + k <= MaxUnits
            /\ (k = 0 => zw < MaxZero)
            /\ nw' = nw + k
            /\ enc' = [enc EXCEPT ![1] = @ \o Iota(nw + 1, nw + k)]
            /\ zw' = IF k = 0 THEN zw + 1 ELSE zw
            /\ hist' = Append(hist, <<"W", k>>)
            /\ UNCHANGED <<closed, file, dec, fpos, out, phase, zr>>
CloseW == /\ phase = "write" /\ closed = 0
          /\ nw % RowUnits = 0                     \* admissible shape: whole rows
          /\ closed' = 1
          /\ hist' = Append(hist, <<"C">>)
          /\ UNCHANGED <<nw, enc, file, dec, fpos, out, phase, zw, zr>>

(* ---- internal actions of the writing side *)
Down(i, chunk, rest) ==
  IF i = Stages THEN /\ file' = file \o chunk
                     /\ enc' = [enc EXCEPT ![i] = rest]
  ELSE /\ enc' = [enc EXCEPT ![i] = rest, ![i + 1] = @ \o chunk]
       /\ UNCHANGED file
Fwd(i, m) == /\ phase = "write" /\ m >= 1 /\ m <= Len(enc[i])
             /\ (i = RowStage => m % RowUnits = 0)
             /\ Down(i, Take(enc[i], m), Drop(enc[i], m))
             /\ UNCHANGED <<nw, closed, dec, fpos, out, phase, zw, zr, hist>>
\* the innermost closed stage flushes what it holds, then closes the next stage
Flush(i) == /\ phase = "write" /\ closed = i /\ enc[i] # <<>>
            /\ IF BREAK = "dropflush" /\ i = Stages
               THEN Down(i, Take(enc[i], Len(enc[i]) - 1), <<>>)   \* last unit lost at Close
               ELSE Down(i, enc[i], <<>>)
            /\ UNCHANGED <<nw, closed, dec, fpos, out, phase, zw, zr, hist>>
CloseDown(i) == /\ phase = "write" /\ closed = i /\ enc[i] = <<>>
                /\ closed' = i + 1
                /\ phase' = IF i = Stages THEN "read" ELSE "write"
                /\ UNCHANGED <<nw, enc, file, dec, fpos, out, zw, zr, hist>>

(* ---- reading side *)
Upstream(i) == IF i = Stages THEN Drop(file, fpos) ELSE dec[i + 1]
Pull(i, m) == /\ phase = "read" /\ m >= 1 /\ m <= Len(Upstream(i))
              /\ IF i = Stages THEN /\ fpos' = fpos + m
                                    /\ dec' = [dec EXCEPT ![i] = @ \o Take(Drop(file, fpos), m)]
                 ELSE /\ dec' = [dec EXCEPT ![i] = @ \o Take(dec[i + 1], m), ![i + 1] = Drop(@, m)]
                      /\ UNCHANGED fpos
              /\ UNCHANGED <<nw, enc, closed, file, out, phase, zw, zr, hist>>
Drained == fpos = Len(file) /\ \A i \in 1..Stages : dec[i] = <<>>
\* Read(n) delivering k units
Read(n, k) == /\ phase = "read" /\ n <= MaxRead
              /\ IF n = 0 THEN k = 0 /\ zr < MaxZero
                 ELSE k >= 1 /\ k <= n /\ k <= Len(dec[1])
              /\ out' = out \o Take(dec[1], k)
              /\ dec' = [dec EXCEPT ![1] = Drop(@, k)]
              /\ zr' = IF n = 0 THEN zr + 1 ELSE zr
              /\ hist' = Append(hist, <<"R", n, k>>)
              /\ UNCHANGED <<nw, enc, closed, file, fpos, phase, zw>>
ReadEOF(n) == /\ phase = "read" /\ n >= 1 /\ n <= MaxRead
              /\ IF BREAK = "earlyeof" THEN dec[1] = <<>> ELSE Drained
              /\ phase' = "done"
              /\ hist' = Append(hist, <<"E", n>>)
              /\ UNCHANGED <<nw, enc, closed, file, dec, fpos, out, zw, zr>>

Next == \/ \E k \in 0..MaxUnits : Write(k)
        \/ CloseW
        \/ \E i \in 1..Stages : \/ \E m \in 1..MaxUnits : Fwd(i, m) \/ Pull(i, m)
                                \/ Flush(i) \/ CloseDown(i)
        \/ \E n \in 0..MaxRead : \/ \E k \in 0..MaxRead : Read(n, k)
                                 \/ ReadEOF(n)
Spec == Init /\ [][Next]_vars

-------------------------------------------------------------------------------
(* Properties *)
All == Iota(1, nw)
\* nothing is lost, duplicated or reordered on the way down ...
ConservationW == phase = "write" => file \o CatRev(enc, Stages) = All
\* ... or on the way up
ConservationR == phase # "write" => out \o Cat(dec, Stages) \o Drop(file, fpos) = All
\* the caller sees a prefix of what was written, in order, exactly once
FIFO == out = Take(All, Len(out))
\* end of file only after everything has been delivered
EOFLast == phase = "done" => out = All
\* the file is complete before reading starts, in whole rows for a row based stage
FileComplete == phase # "write" => closed = Stages + 1 /\ \A i \in 1..Stages : enc[i] = <<>>
\* every run ends with end-of-file (no schedule gets stuck)
NoStuck == (~ENABLED Next) => phase = "done"

-------------------------------------------------------------------------------
(* The caller-visible chunking schedules (what the harness replays):          *)
(* a sequence of write sizes with total <= MaxUnits and a multiple of         *)
(* RowUnits, containing at most MaxZero zeros, and a cyclic pattern of read   *)
(* request sizes with at least one positive entry.                            *)
RECURSIVE WriteSeqs(_, _)
WriteSeqs(left, zeros) ==
  {<<>>} \cup UNION { {<<k>> \o s : s \in WriteSeqs(left - k, IF k = 0 THEN zeros - 1 ELSE zeros)}
                      : k \in (IF zeros > 0 THEN {0} ELSE {}) \cup 1..left }
Sum(s) == LET RECURSIVE S(_) S(i) == IF i = 0 THEN 0 ELSE S(i - 1) + s[i] IN S(Len(s))
WriteSchedules == {s \in WriteSeqs(MaxUnits, MaxZero) : Sum(s) % RowUnits = 0}
ReadPatterns == {p \in UNION {[1..l -> 0..MaxRead] : l \in 1..2} :
                   /\ \E i \in 1..Len(p) : p[i] > 0
                   /\ Cardinality({i \in 1..Len(p) : p[i] = 0}) <= MaxZero}
\* projection of the history to what the caller did
WritesOf(h) == LET RECURSIVE W(_) W(i) == IF i = 0 THEN <<>>
                     ELSE IF h[i][1] = "W" THEN Append(W(i - 1), h[i][2]) ELSE W(i - 1)
               IN W(Len(h))
\* every behaviour of the model writes according to one of the schedules
SchedOK == closed > 0 => WritesOf(hist) \in WriteSchedules
=============================================================================
