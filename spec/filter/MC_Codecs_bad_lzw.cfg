SPECIFICATION Spec
CONSTANTS
  Parts = {"lzw"}
  RLCounts = {1}
  RLMaxRuns = 1
  SmallLen = 3
  LzwLens = {255, 256, 257, 258, 262}
  BREAK = "lzwwidth"
INVARIANTS LZWOK
CHECK_DEADLOCK FALSE
