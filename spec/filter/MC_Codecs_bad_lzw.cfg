SPECIFICATION Spec
CONSTANTS
  Parts = {"lzw"}
  RLCounts = {1}
  RLMaxRuns = 1
  SmallLen = 3
  LzwLens = {254, 255, 256, 257, 258}
  BREAK = "lzwwidth"
INVARIANTS LZWOK
CHECK_DEADLOCK FALSE
