------------------------------ MODULE RunLength ------------------------------
(* RunLengthDecode (ISO 32000-1 7.4.5).                                       *)
(*                                                                            *)
(* Ref: the format.  The encoded data is a sequence of runs; a run is a       *)
(* length byte followed by 1 to 128 bytes: length 0..127 -> copy the          *)
(* following length+1 bytes literally; 129..255 -> the following single byte  *)
(* is repeated 257-length times (2..128); 128 -> EOD.                         *)
(*                                                                            *)
(* Impl: internal/filter/runlength/writer.go as a state machine (buf/used,    *)
(* repeatCount, repeatVal; a repeat starts when the last three pending bytes  *)
(* are equal; literals are flushed at 128; repeats at 128 or on a different   *)
(* byte; Close flushes and writes EOD).                                       *)
EXTENDS Naturals, Sequences

(* ---- Ref: decoder.  Result [st, data]: st = "eod" (proper end), "noeod"    *)
(* (input ends between runs without EOD), "trunc" (input ends inside a run). *)
RECURSIVE RefDec(_, _, _)
RefDec(s, i, acc) ==
  IF i > Len(s) THEN [st |-> "noeod", data |-> acc]
  ELSE LET l == s[i] IN
    IF l = 128 THEN [st |-> "eod", data |-> acc]
    ELSE IF l < 128
      THEN (IF i + l + 1 > Len(s) THEN [st |-> "trunc", data |-> acc \o SubSeq(s, i + 1, Len(s))]
            ELSE RefDec(s, i + l + 2, acc \o SubSeq(s, i + 1, i + l + 1)))
      ELSE (IF i + 1 > Len(s) THEN [st |-> "trunc", data |-> acc]
            ELSE RefDec(s, i + 2, acc \o [k \in 1..(257 - l) |-> s[i + 1]]))
RefDecode(s) == RefDec(s, 1, <<>>)
\* "enc is an encoding of data": many encodings are legal
RefIsEncodingOf(enc, data) == RefDecode(enc) = [st |-> "eod", data |-> data]

(* ---- Impl: the writer.  FlushAt is 128 in the real code; the negative      *)
(* control of MC_RunLength sets it to 127 with the length byte still computed *)
(* as in the code.                                                            *)
St0 == [buf |-> <<>>, rc |-> 0, rv |-> 0, out |-> <<>>]
FlushLit(st, count) == [st EXCEPT !.out = @ \o <<count - 1>> \o SubSeq(st.buf, 1, count), !.buf = <<>>]
FlushRep(st) == [st EXCEPT !.out = @ \o <<257 - st.rc, st.rv>>, !.rc = 0]
ImplWriteByte(st0, b, maxRep) ==
  IF st0.rc > 0 /\ b = st0.rv /\ st0.rc < maxRep THEN [st0 EXCEPT !.rc = @ + 1]
  ELSE LET st1 == IF st0.rc > 0 THEN FlushRep(st0) ELSE st0
           st2 == [st1 EXCEPT !.buf = Append(@, b)]
           u == Len(st2.buf)
       IN IF u >= 3 /\ st2.buf[u - 2] = st2.buf[u - 1] /\ st2.buf[u - 1] = st2.buf[u]
          THEN LET st3 == IF u - 3 > 0 THEN FlushLit(st2, u - 3) ELSE st2
               IN [st3 EXCEPT !.rc = 3, !.rv = b, !.buf = <<>>]
          ELSE IF u = 128 THEN FlushLit(st2, 128) ELSE st2
ImplClose(st0) == LET st1 == IF st0.rc > 0 THEN FlushRep(st0) ELSE st0
                      st2 == IF Len(st1.buf) > 0 THEN FlushLit(st1, Len(st1.buf)) ELSE st1
                  IN st2.out \o <<128>>
RECURSIVE ImplFeed(_, _, _, _)
ImplFeed(st, xs, i, maxRep) == IF i > Len(xs) THEN st ELSE ImplFeed(ImplWriteByte(st, xs[i], maxRep), xs, i + 1, maxRep)
ImplEncode(xs) == ImplClose(ImplFeed(St0, xs, 1, 128))

(* ---- other legal encoders (used to generate foreign encodings)            *)
\* every byte as a literal run of length one
EncSingles(xs) == LET RECURSIVE E(_) E(i) == IF i > Len(xs) THEN <<128>> ELSE <<0, xs[i]>> \o E(i + 1) IN E(1)
\* literal runs of n bytes (n in 1..128)
EncLiterals(xs, n) ==
  LET RECURSIVE E(_)
      E(i) == IF i > Len(xs) THEN <<128>>
              ELSE LET m == IF Len(xs) - i + 1 < n THEN Len(xs) - i + 1 ELSE n
                   IN <<m - 1>> \o SubSeq(xs, i, i + m - 1) \o E(i + m)
  IN E(1)
\* every maximal run of equal bytes as repeat runs (also of length 2; a lone
\* byte as a literal of length one), runs longer than 128 split
RunEnd(xs, i) == LET RECURSIVE R(_) R(j) == IF j <= Len(xs) /\ xs[j] = xs[i] /\ j - i < 128 THEN R(j + 1) ELSE j IN R(i)
EncRepeats(xs) ==
  LET RECURSIVE E(_)
      E(i) == IF i > Len(xs) THEN <<128>>
              ELSE LET j == RunEnd(xs, i) IN
                   (IF j - i = 1 THEN <<0, xs[i]>> ELSE <<257 - (j - i), xs[i]>>) \o E(j)
  IN E(1)
=============================================================================
