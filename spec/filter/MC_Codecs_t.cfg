SPECIFICATION Spec
CONSTANTS
  Parts = {"rl", "ah", "a85", "pr", "lzw"}
  RLCounts = {1, 2, 3, 4, 127, 128, 129, 130, 131}
  RLMaxRuns = 3
  SmallLen = 7
  LzwLens = {250, 251, 252, 253, 254, 255, 256, 257, 258, 259, 260, 764, 765, 766, 767, 768, 769, 770, 1788, 1789, 1790, 1791, 1792, 3836, 3837, 3838, 3839, 3840, 3841}
  BREAK = "none"
INVARIANTS RLOK AHOK A85OK LZWOK PROK
CHECK_DEADLOCK FALSE
