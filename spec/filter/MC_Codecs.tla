------------------------------ MODULE MC_Codecs ------------------------------
(* Bounded exhaustive design model of the five stream formats specified in    *)
(* TLA+: for every input of the bounded space, the implementation-shaped      *)
(* encoder's output is an encoding of the input according to the reference    *)
(* decoder (RefDecode(ImplEncode(x)) = x, properly terminated), and so is the *)
(* output of the other legal encoders used to generate foreign encodings.     *)
(* The inputs are built by actions (one element per step) so that TLC's       *)
(* workers share the enumeration.                                             *)
EXTENDS Naturals, Sequences, FiniteSets, TLC

RL  == INSTANCE RunLength
AH  == INSTANCE AsciiHex
A85 == INSTANCE Ascii85
PR  == INSTANCE Predictor
LZ  == INSTANCE Lzw

CONSTANTS Parts,          \* which formats to explore: subset of {"rl", "ah", "a85", "pr", "lzw"}
          RLCounts, RLMaxRuns,
          SmallLen,        \* length bound of the small-alphabet inputs (ah, a85, lzw)
          LzwLens,         \* lengths of the pseudo-random inputs that cross code length switches
          BREAK            \* "none" | "rl129" | "paeth" | "lzwwidth" | "lzwclose"

VARIABLES st
vars == <<st>>

\* deterministic pseudo-random bytes (a linear congruential sequence)
Lcg(seed, n) == LET RECURSIVE G(_, _, _)
                    G(i, x, acc) == IF i > n THEN acc
                                    ELSE LET y == (x * 75 + 74) % 65537 IN G(i + 1, y, Append(acc, y % 256))
                IN G(1, seed + 1, <<>>)
RECURSIVE Expand(_)
Expand(rs) == IF rs = <<>> THEN <<>> ELSE [k \in 1..Head(rs)[2] |-> Head(rs)[1]] \o Expand(Tail(rs))

Init == st = [part |-> "start"]

(* ---- RunLength: inputs as runs <<byte, count>> *)
StartRL == /\ st.part = "start" /\ "rl" \in Parts /\ st' = [part |-> "rl", runs |-> <<>>]
AddRun == /\ st.part = "rl" /\ Len(st.runs) < RLMaxRuns
          /\ \E b \in {0, 1, 2}, c \in RLCounts :
               /\ st' = [st EXCEPT !.runs = Append(@, <<b, c>>)]
RLEncode(x) == IF BREAK = "rl129" THEN RL!ImplClose(RL!ImplFeed(RL!St0, x, 1, 129)) ELSE RL!ImplEncode(x)
RLOK == st.part = "rl" =>
          LET x == Expand(st.runs) IN
            /\ RL!RefIsEncodingOf(RLEncode(x), x)
            /\ RL!RefIsEncodingOf(RL!EncSingles(x), x)
            /\ RL!RefIsEncodingOf(RL!EncLiterals(x, 128), x)
            /\ RL!RefIsEncodingOf(RL!EncLiterals(x, 3), x)
            /\ RL!RefIsEncodingOf(RL!EncRepeats(x), x)

(* ---- small-alphabet inputs for ASCIIHex / ASCII85 / LZW, plus long ones *)
SmallAlpha(part) == IF part = "lzw" THEN {0, 1} ELSE {0, 16, 255}
StartSmall == /\ st.part = "start"
              /\ \E part \in Parts \cap {"ah", "a85", "lzw"} : st' = [part |-> part, x |-> <<>>, grow |-> TRUE]
Grow == /\ st.part \in {"ah", "a85", "lzw"} /\ st.grow /\ Len(st.x) < SmallLen + (IF st.part = "lzw" THEN 4 ELSE 0)
        /\ \E b \in SmallAlpha(st.part) : st' = [st EXCEPT !.x = Append(@, b)]
\* long inputs: line breaks of the ASCII encoders, code length switches of LZW
LongLens(part) == IF part = "lzw" THEN LzwLens ELSE {37, 38, 39, 40, 41, 72, 73, 75, 76, 77, 78, 79, 80, 81, 117, 118, 156, 157}
StartLong == /\ st.part = "start"
             /\ \E part \in Parts \cap {"ah", "a85", "lzw"} : \E n \in LongLens(part), seed \in {0, 1} :
                  /\ (n > 300 => seed = 0)
                  /\ st' = [part |-> part, grow |-> FALSE,
                         x |-> IF part = "a85" /\ seed = 1 THEN [i \in 1..n |-> IF (i \div 4) % 3 = 0 THEN 0 ELSE i % 256]
                               ELSE Lcg(seed * 1000 + n, n)]
\* LZW: runs (KwKwK) as well
StartLzwRuns == /\ st.part = "start" /\ "lzw" \in Parts /\ st' = [part |-> "lzwr", runs |-> <<>>]
AddLzwRun == /\ st.part = "lzwr" /\ Len(st.runs) < 3
             /\ \E b \in {0, 1}, c \in {1, 2, 3, 5, 17} : st' = [st EXCEPT !.runs = Append(@, <<b, c>>)]

AHOK == st.part = "ah" =>
          /\ AH!RefIsEncodingOf(AH!ImplEncode(st.x), st.x)
          /\ \A v \in AH!Variants : AH!RefIsEncodingOf(AH!EncVariant(st.x, v), st.x)
          /\ \A w \in {1, 3, 64, 75}, ws \in {<<10>>, <<13, 10>>}, m \in BOOLEAN :
                AH!RefIsEncodingOf(AH!EncWrapped(st.x, w, ws, m, m), st.x)
A85OK == st.part = "a85" =>
          /\ A85!RefIsEncodingOf(A85!ImplEncode(st.x), st.x)
          /\ \A v \in A85!Variants : A85!RefIsEncodingOf(A85!EncVariant(st.x, v), st.x)
LzwBug == IF BREAK = "lzwwidth" THEN 1 ELSE 0
LzwCheck(x) == \A early \in {0, 1} :
                 /\ LZ!RefIsEncodingOf(LZ!PackCodes(IF BREAK = "lzwclose" THEN LZ!ImplCodesNoIncHiAtClose(x, early)
                                                      ELSE LZ!ImplCodes(x, early, LzwBug)), early, x)
                 /\ (Len(x) <= 250 => LZ!RefIsEncodingOf(LZ!EncLiteralsClear(x, 7), early, x))
                 /\ (Len(x) <= 3000 => LZ!RefIsEncodingOf(LZ!EncLiteralsGrow(x, early), early, x))
\* the deferred-clear encoder's stream means DeferredData (for the long inputs only)
DeferredOK(x) == Len(x) >= 3845 =>
                   \A early \in {0, 1} : LZ!RefIsEncodingOf(LZ!EncDeferredClear(x, early, 3, <<1, 2, 3>>), early,
                                                             LZ!DeferredData(x, early, 3, <<1, 2, 3>>))
LZWOK == /\ st.part = "lzw" => LzwCheck(st.x) /\ DeferredOK(st.x)
         /\ st.part = "lzwr" => LzwCheck(Expand(st.runs))

(* ---- predictors: parameters chosen step by step, then the data *)
PrParams == {[pred |-> pd, colors |-> c, bpc |-> b, cols |-> w] :
               pd \in {2, 10, 11, 12, 13, 14}, c \in {1, 2, 3}, b \in {1, 2, 4, 8, 16}, w \in {1, 2, 3, 5}}
StartPR == /\ st.part = "start" /\ "pr" \in Parts
           /\ \E p \in PrParams : st' = [part |-> "pr", p |-> p, data |-> <<>>, mode |-> "pick"]
\* data: three rows of pseudo-random bytes (several seeds) ...
PickData == /\ st.part = "pr" /\ st.mode = "pick"
            /\ \E seed \in 0..5 : st' = [st EXCEPT !.mode = "done", !.data = Lcg(seed, 3 * PR!RowBytes(st.p))]
\* ... and, for one byte per pixel and two byte rows, every two-row image over a small alphabet
PickSmall == /\ st.part = "pr" /\ st.mode = "pick" /\ PR!RowBytes(st.p) = 2 /\ st.p.bpc = 8
             /\ \E a, b, c, d \in {0, 1, 2, 3, 128, 255} : st' = [st EXCEPT !.mode = "done", !.data = <<a, b, c, d>>]
PW(a, b, c) == PR!PaethWrong(a, b, c)
PrEncode(p, data) == IF BREAK = "paeth" /\ p.pred = 14
                     THEN LET T(r) == 4 IN PR!PngEncodeWith(p, data, T, PW)
                     ELSE PR!ImplEncode(p, data)
PROK == (st.part = "pr" /\ st.mode = "done") =>
          /\ PR!RefIsEncodingOf(st.p, PrEncode(st.p, st.data), st.data)
          /\ st.p.pred >= 10 =>                           \* a different filter type on every row
               LET T(r) == (r + st.p.pred) % 5 IN PR!RefIsEncodingOf(st.p, PR!PngEncode(st.p, st.data, T), st.data)

Next == StartRL \/ AddRun \/ StartSmall \/ Grow \/ StartLong \/ StartLzwRuns \/ AddLzwRun
        \/ StartPR \/ PickData \/ PickSmall
Spec == Init /\ [][Next]_vars
=============================================================================
