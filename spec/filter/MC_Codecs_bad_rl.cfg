SPECIFICATION Spec
CONSTANTS
  Parts = {"rl"}
  RLCounts = {1, 2, 127, 128, 129, 130}
  RLMaxRuns = 2
  SmallLen = 3
  LzwLens = {250}
  BREAK = "rl129"
INVARIANTS RLOK
CHECK_DEADLOCK FALSE
