-------------------------- MODULE Trace_Envelope --------------------------
(* Judges measured decoding runs against the resource envelope of property  *)
(* C08 (Envelope.EnvelopeOK).  One record per run:                          *)
(*   [outcome, rawLen, produced, wallUs, allocKB, capBytes, leaked, ...]    *)
(* outcome: "data" (read to the end, or closed early, without error),       *)
(* "malformed" (an error classified by pdf.IsMalformed), "readError" (any   *)
(* other error -- impossible for an in-memory source), "panic", "hang".     *)
EXTENDS Envelope, TraceLib

Cases == Records
CaseOK(c) == EnvelopeOK(c)

VARIABLES i, bad, done
tvars == <<i, bad, done>>
\* the variables of the budget protocol model are not used here: frozen
TInit == Init /\ i = 1 /\ bad = <<>> /\ done = FALSE
Step == /\ i <= Len(Cases)
        /\ i' = i + 1
        /\ bad' = IF CaseOK(Cases[i]) THEN bad ELSE Append(bad, i)
        /\ UNCHANGED <<done, vars>>
TFinish == /\ i = Len(Cases) + 1 /\ ~done
           /\ done' = TRUE
           /\ WriteVerdict(bad)
           /\ UNCHANGED <<i, bad, vars>>
TNext == Step \/ TFinish
TSpec == TInit /\ [][TNext]_<<tvars, vars>>
=============================================================================
