------------------------- MODULE Trace_FilterParams -------------------------
(* Judges records of the real filter.go against the reference meaning of     *)
(* filter parameters (FilterParams.Ref...).  Two kinds of record:            *)
(*                                                                           *)
(*  kind = "info":  [p, v, infoErr, name, dict, parsed, info2Err, name2,     *)
(*     dict2] -- p.Info(v) returned (name, dict) or an error; parsed is the  *)
(*     struct MakeFilter(name, dict) returned; (name2, dict2) its Info(v).   *)
(*  kind = "chain": [exp, F, P, got] -- a stream written by                  *)
(*     Writer.OpenStream(ref, seed, filters...): exp is the expected chain   *)
(*     (seed's chain followed by the Info of each filter), F and P are the   *)
(*     /Filter and /DecodeParms entries found in the file, got is the Info   *)
(*     of every filter returned by pdf.GetFilters on the reopened stream.    *)
(*                                                                           *)
(* Acceptance uses Ref... operators only.  A struct refused by Info claims   *)
(* nothing (the property quantifies over accepted parameter sets).           *)
EXTENDS FilterParams, TraceLib

Cases == Records

KeyTypes(name) ==
  CASE name \in {"FlateDecode", "LZWDecode"} ->
         [Predictor |-> "int", Colors |-> "int", BitsPerComponent |-> "int", Columns |-> "int", EarlyChange |-> "int"]
    [] name = "CCITTFaxDecode" ->
         [K |-> "int", EndOfLine |-> "bool", EncodedByteAlign |-> "bool", Columns |-> "int", Rows |-> "int",
          EndOfBlock |-> "bool", BlackIs1 |-> "bool", DamagedRowsBeforeError |-> "int"]
    [] OTHER -> <<>>
\* every entry is one the standard defines for this filter, with its type
WellTyped(name, d) ==
  /\ \A k \in DOMAIN d : k \in DOMAIN KeyTypes(name) /\ d[k].t = KeyTypes(name)[k]
  /\ (name = "FlateDecode" => ~("EarlyChange" \in DOMAIN d))

InfoOK(c) ==
  c.infoErr \/
  LET want == RefEffective(c.p, c.v) IN
    /\ WellTyped(c.name, c.dict)
    /\ RefMeaning(c.name, c.dict) = want            \* the dictionary means the struct
    /\ RefEffective(c.parsed, c.v) = want           \* MakeFilter rebuilds the effective parameters
    /\ ~c.info2Err                                  \* and the rebuilt struct is accepted again,
    /\ c.name2 = c.name /\ WellTyped(c.name2, c.dict2)
    /\ RefMeaning(c.name2, c.dict2) = want          \* emitting the same meaning

Mean(f) == RefMeaning(f[1], f[2])
SameChain(a, b) == Len(a) = Len(b) /\ \A i \in 1..Len(a) : a[i][1] = b[i][1] /\ Mean(a[i]) = Mean(b[i])
ChainOK(c) ==
  LET sd == [F |-> c.F, P |-> c.P] IN
    /\ RefWellFormed(sd)
    /\ SameChain(RefChain(sd), c.exp)               \* i-th /DecodeParms entry belongs to i-th filter
    /\ SameChain(c.got, c.exp)                      \* and GetFilters reads it that way

CaseOK(c) == IF c.kind = "info" THEN InfoOK(c) ELSE ChainOK(c)

VARIABLES i, bad, done
vars == <<i, bad, done>>
Init == i = 1 /\ bad = <<>> /\ done = FALSE
Step == /\ i <= Len(Cases)
        /\ i' = i + 1
        /\ bad' = IF CaseOK(Cases[i]) THEN bad ELSE Append(bad, i)
        /\ UNCHANGED done
Finish == /\ i = Len(Cases) + 1 /\ ~done
          /\ done' = TRUE
          /\ WriteVerdict(bad)
          /\ UNCHANGED <<i, bad>>
Next == Step \/ Finish
Spec == Init /\ [][Next]_vars
=============================================================================
