------------------------------ MODULE Predictor ------------------------------
(* The predictor functions of FlateDecode / LZWDecode (ISO 32000-1 7.4.4.4):  *)
(* Predictor 2 = TIFF 6.0 section 14 (horizontal differencing per component), *)
(* 10..15 = PNG filters (PNG specification, section "Filter Algorithms").     *)
(* The functions work on the data between the compressor and the caller;      *)
(* p = [pred, colors, bpc, cols].                                             *)
EXTENDS Naturals, Sequences

RowBytes(p) == (p.colors * p.bpc * p.cols + 7) \div 8
\* PNG: "bpp is the number of bytes per complete pixel, rounding up to one"
Bpp(p) == LET b == (p.colors * p.bpc + 7) \div 8 IN IF b < 1 THEN 1 ELSE b
Abs(x, y) == IF x >= y THEN x - y ELSE y - x
Pow2(n) == LET RECURSIVE P(_) P(k) == IF k = 0 THEN 1 ELSE 2 * P(k - 1) IN P(n)

\* PNG Paeth predictor: a = left, b = above, c = upper left; ties: a, then b
\* (p = a + b - c may be negative: compare |p - x| without leaving the naturals)
Paeth(a, b, c) ==
  LET pa == Abs(b, c)                   \* |p - a| = |b - c|
      pb == Abs(a, c)                   \* |p - b| = |a - c|
      pc == Abs(a + b, 2 * c)           \* |p - c| = |a + b - 2c|
  IN IF pa <= pb /\ pa <= pc THEN a ELSE IF pb <= pc THEN b ELSE c
\* negative control: ties resolved in the opposite order (c, then b, then a)
PaethWrong(a, b, c) ==
  LET pa == Abs(b, c) pb == Abs(a, c) pc == Abs(a + b, 2 * c)
  IN IF pc <= pa /\ pc <= pb THEN c ELSE IF pb <= pa THEN b ELSE a

PngPred(tag, a, b, c) ==
  CASE tag = 0 -> 0 [] tag = 1 -> a [] tag = 2 -> b [] tag = 3 -> (a + b) \div 2 [] tag = 4 -> Paeth(a, b, c)

(* ---- Ref: PNG decoding.  enc = rows of 1 + RowBytes bytes.                 *)
\* reconstruct one row from its filtered bytes f (without the tag) and the prior row
PngReconRow(p, tag, f, prior) ==
  LET bpp == Bpp(p)
      RECURSIVE R(_, _)
      R(i, acc) == IF i > Len(f) THEN acc
                   ELSE LET a == IF i > bpp THEN acc[i - bpp] ELSE 0
                            b == prior[i]
                            c == IF i > bpp THEN prior[i - bpp] ELSE 0
                        IN R(i + 1, Append(acc, (f[i] + PngPred(tag, a, b, c)) % 256))
  IN R(1, <<>>)
ZeroRow(n) == [i \in 1..n |-> 0]
RECURSIVE PngDec(_, _, _, _, _)
PngDec(p, s, i, prior, acc) ==
  LET n == RowBytes(p) IN
  IF i > Len(s) THEN [st |-> "ok", data |-> acc]
  ELSE IF i + n > Len(s) THEN [st |-> "trunc", data |-> acc]        \* incomplete last row
  ELSE IF s[i] > 4 THEN [st |-> "bad", data |-> acc]                \* undefined filter type
  ELSE LET row == PngReconRow(p, s[i], SubSeq(s, i + 1, i + n), prior)
       IN PngDec(p, s, i + n + 1, row, acc \o row)
RefPngDecode(p, s) == PngDec(p, s, 1, ZeroRow(RowBytes(p)), <<>>)

(* ---- Ref: TIFF predictor 2.  Samples of bpc bits, most significant first,  *)
(* colors * cols per row; each row padded to a byte boundary.                 *)
NSamples(p) == p.colors * p.cols
\* sample j (0-based) of a row of bytes
Sample(p, row, j) ==
  IF p.bpc = 16 THEN row[2 * j + 1] * 256 + row[2 * j + 2]
  ELSE IF p.bpc = 8 THEN row[j + 1]
  ELSE LET bit == j * p.bpc IN (row[bit \div 8 + 1] \div Pow2(8 - p.bpc - (bit % 8))) % Pow2(p.bpc)
\* pack samples v (sequence, 1-based: v[j+1]) back into bytes; padding bits are taken from raw
Pack(p, v, raw) ==
  IF p.bpc = 16 THEN [k \in 1..Len(raw) |-> IF k % 2 = 1 THEN v[(k + 1) \div 2] \div 256 ELSE v[k \div 2] % 256]
  ELSE IF p.bpc = 8 THEN v
  ELSE LET per == 8 \div p.bpc
           ByteOf(k) ==     \* k 0-based
             LET RECURSIVE B(_)
                 B(m) == IF m = per THEN 0
                         ELSE LET j == k * per + m
                                  sh == Pow2(8 - p.bpc * (m + 1))
                              IN (IF j < Len(v) THEN v[j + 1] * sh
                                  ELSE ((raw[k + 1] \div sh) % Pow2(p.bpc)) * sh) + B(m + 1)
             IN B(0)
       IN [k \in 1..Len(raw) |-> ByteOf(k - 1)]
\* undo / apply the differencing on one row
TiffRow(p, raw, undo) ==
  LET n == NSamples(p) mod == Pow2(p.bpc)
      RECURSIVE V(_, _)
      V(j, acc) == IF j = n THEN acc
                   ELSE LET x == Sample(p, raw, j)
                            y == IF j < p.colors THEN x
                                 ELSE IF undo THEN (x + acc[j - p.colors + 1]) % mod
                                 ELSE (x + mod - Sample(p, raw, j - p.colors)) % mod
                        IN V(j + 1, Append(acc, y))
  IN Pack(p, V(0, <<>>), raw)
RECURSIVE TiffDec(_, _, _, _)
TiffDec(p, s, i, acc) ==
  LET n == RowBytes(p) IN
  IF i > Len(s) THEN [st |-> "ok", data |-> acc]
  ELSE IF i + n - 1 > Len(s) THEN [st |-> "trunc", data |-> acc]
  ELSE TiffDec(p, s, i + n, acc \o TiffRow(p, SubSeq(s, i, i + n - 1), TRUE))
RefTiffDecode(p, s) == TiffDec(p, s, 1, <<>>)

RefDecode(p, s) == IF p.pred = 2 THEN RefTiffDecode(p, s)
                   ELSE IF p.pred >= 10 THEN RefPngDecode(p, s)
                   ELSE [st |-> "ok", data |-> s]
RefIsEncodingOf(p, enc, data) == RefDecode(p, enc) = [st |-> "ok", data |-> data]

(* ---- encoders.  PNG: any filter type may be chosen per row (TagOf(r), r =  *)
(* 0, 1, ...); data must be whole rows.                                       *)
PngFilterRow(p, tag, row, prior, paeth(_, _, _)) ==
  LET bpp == Bpp(p) IN
  [i \in 1..Len(row) |->
     LET a == IF i > bpp THEN row[i - bpp] ELSE 0
         b == prior[i]
         c == IF i > bpp THEN prior[i - bpp] ELSE 0
         pr == IF tag = 4 THEN paeth(a, b, c) ELSE PngPred(tag, a, b, c)
     IN (row[i] + 256 - pr) % 256]
PngEncodeWith(p, data, TagOf(_), paeth(_, _, _)) ==
  LET n == RowBytes(p)
      RECURSIVE E(_, _)
      E(r, prior) == IF r * n >= Len(data) THEN <<>>
                     ELSE LET row == SubSeq(data, r * n + 1, r * n + n)
                          IN <<TagOf(r)>> \o PngFilterRow(p, TagOf(r), row, prior, paeth) \o E(r + 1, row)
  IN E(0, ZeroRow(n))
PngEncode(p, data, TagOf(_)) == PngEncodeWith(p, data, TagOf, Paeth)
TiffEncode(p, data) ==
  LET n == RowBytes(p)
      RECURSIVE E(_)
      E(r) == IF r * n >= Len(data) THEN <<>> ELSE TiffRow(p, SubSeq(data, r * n + 1, r * n + n), FALSE) \o E(r + 1)
  IN E(0)

(* Impl: internal/filter/predict/write.go for the deterministic predictors:   *)
(* 2 -> TIFF; 10..14 -> the same PNG filter type (pred - 10) on every row.    *)
(* Predictor 15 picks a type per row by a heuristic; every choice is legal.   *)
ImplEncode(p, data) ==
  IF p.pred = 2 THEN TiffEncode(p, data)
  ELSE LET T(r) == p.pred - 10 IN PngEncode(p, data, T)
=============================================================================
