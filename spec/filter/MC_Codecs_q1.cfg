SPECIFICATION Spec
CONSTANTS
  Parts = {"rl", "ah", "a85", "pr"}
  RLCounts = {1, 2, 3, 4, 127, 128, 129, 130}
  RLMaxRuns = 2
  SmallLen = 5
  LzwLens = {250}
  BREAK = "none"
INVARIANTS RLOK AHOK A85OK PROK
CHECK_DEADLOCK FALSE
