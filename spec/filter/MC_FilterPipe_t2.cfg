SPECIFICATION Spec
CONSTANTS
  MaxUnits = 6
  RowUnits = 2
  RowStage = 2
  Stages = 2
  MaxRead = 2
  MaxZero = 1
  BREAK = "none"
INVARIANTS ConservationW ConservationR FIFO EOFLast FileComplete NoStuck SchedOK
CHECK_DEADLOCK FALSE
