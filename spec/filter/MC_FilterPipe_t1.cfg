SPECIFICATION Spec
CONSTANTS
  MaxUnits = 5
  RowUnits = 1
  RowStage = 0
  Stages = 1
  MaxRead = 3
  MaxZero = 1
  BREAK = "none"
INVARIANTS ConservationW ConservationR FIFO EOFLast FileComplete NoStuck SchedOK
CHECK_DEADLOCK FALSE
