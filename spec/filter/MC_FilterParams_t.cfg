\* thorough: every version, refused values in every field, four appends
SPECIFICATION Spec
CONSTANTS
  PredSet <- T_PredSet
  ColorSet <- T_ColorSet
  BpcSet <- T_BpcSet
  ColSet <- T_ColSet
  VerSet <- T_VerSet
  KSet <- T_KSet
  CColSet <- T_CColSet
  RowSet <- T_RowSet
  DmgSet <- T_DmgSet
  CVerSet = {10, 17}
  MaxAppends = 4
  BREAK = "none"
INVARIANTS ParamsOK AppendOK
CHECK_DEADLOCK FALSE
