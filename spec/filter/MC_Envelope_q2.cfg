SPECIFICATION Spec
CONSTANTS
  MaxChain = 2
  Budget = 4
  MaxAsk = 2
  NStages = 3
  BREAK = "none"
INVARIANTS WithinBudget Conserved ChainCap Released
CHECK_DEADLOCK FALSE
