SPECIFICATION Spec
CONSTANTS
  Parts = {"lzw"}
  RLCounts = {1}
  RLMaxRuns = 1
  SmallLen = 3
  LzwLens = {250, 251, 252, 253, 254, 255, 256, 257, 258, 259, 260, 261, 262}
  BREAK = "lzwclose"
INVARIANTS LZWOK
CHECK_DEADLOCK FALSE
