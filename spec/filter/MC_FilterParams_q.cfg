\* quick: the design's product sets plus one refused predictor
SPECIFICATION Spec
CONSTANTS
  PredSet <- Q_PredSet
  ColorSet <- Q_ColorSet
  BpcSet <- Q_BpcSet
  ColSet <- Q_ColSet
  VerSet <- Q_VerSet
  KSet <- Q_KSet
  CColSet <- Q_CColSet
  RowSet <- Q_RowSet
  DmgSet <- Q_DmgSet
  CVerSet = {10, 17}
  MaxAppends = 3
  BREAK = "none"
INVARIANTS ParamsOK AppendOK
CHECK_DEADLOCK FALSE
