\* quick: the design's product sets plus one refused predictor
SPECIFICATION Spec
CONSTANTS
  PredSet <- Q_PredSet
  ColorSet <- QM_ColorSet
  BpcSet <- Q_BpcSet
  ColSet <- QM_ColSet
  VerSet <- Q_VerSet
  KSet <- Q_KSet
  CColSet <- QM_CColSet
  RowSet <- QM_RowSet
  DmgSet <- QM_DmgSet
  CVerSet = {10, 17}
  MaxAppends = 3
  BREAK = "none"
INVARIANTS ParamsOK AppendOK
CHECK_DEADLOCK FALSE
