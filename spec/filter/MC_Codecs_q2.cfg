SPECIFICATION Spec
CONSTANTS
  Parts = {"lzw"}
  RLCounts = {1}
  RLMaxRuns = 1
  SmallLen = 5
  LzwLens = {3850, 250, 251, 252, 253, 254, 255, 256, 257, 258, 259, 260, 261, 262, 764, 765, 766, 767, 768, 769, 770, 771, 772, 773, 774, 775, 776, 777, 778, 779, 780}
  BREAK = "none"
INVARIANTS LZWOK
CHECK_DEADLOCK FALSE
