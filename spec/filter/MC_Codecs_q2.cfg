SPECIFICATION Spec
CONSTANTS
  Parts = {"lzw"}
  RLCounts = {1}
  RLMaxRuns = 1
  SmallLen = 5
  LzwLens = {254, 255, 256, 257, 260, 766, 767}
  BREAK = "none"
INVARIANTS LZWOK
CHECK_DEADLOCK FALSE
