SPECIFICATION Spec
CONSTANTS
  Parts = {"lzw"}
  RLCounts = {1}
  RLMaxRuns = 1
  SmallLen = 5
  LzwLens = {253, 254, 255, 256, 257, 260, 766, 767, 768}
  BREAK = "none"
INVARIANTS LZWOK
CHECK_DEADLOCK FALSE
