SPECIFICATION Spec
CONSTANTS
  MaxChain = 3
  Budget = 6
  MaxAsk = 3
  NStages = 3
  BREAK = "none"
INVARIANTS WithinBudget Conserved ChainCap Released
CHECK_DEADLOCK FALSE
