SPECIFICATION Spec
CONSTANTS
  Parts = {"rl", "ah", "a85", "pr"}
  RLCounts = {1, 2, 3, 4, 127, 128, 129, 130, 131}
  RLMaxRuns = 3
  SmallLen = 7
  LzwLens = {250}
  BREAK = "none"
INVARIANTS RLOK AHOK A85OK PROK
CHECK_DEADLOCK FALSE
