SPECIFICATION Spec
CONSTANTS
  MaxChain = 2
  Budget = 4
  MaxAsk = 2
  NStages = 2
  BREAK = "noshare"
INVARIANTS WithinBudget Conserved ChainCap Released
CHECK_DEADLOCK FALSE
