------------------------------ MODULE Envelope ------------------------------
(* The resource envelope of decoding one PDF stream (property C08).          *)
(*                                                                           *)
(* Part 1 -- the budget protocol as a state machine (container.go:           *)
(* DecodeStream, membudget.Budget, filter.go): one budget, sized from the    *)
(* raw length of the stream, is shared by all filters of the chain; a stage  *)
(* must Charge before it allocates working memory; a failed charge ends the  *)
(* decoding with a "malformed" outcome; a chain longer than MaxChain is      *)
(* refused before any stage is built; helper goroutines (DCTDecode) end when *)
(* the reader is closed.  Checked by MC_Envelope.                            *)
(*                                                                           *)
(* Part 2 -- acceptance of a measured run (used by Trace_Envelope).          *)
EXTENDS Naturals, Sequences, FiniteSets, TLC

CONSTANTS MaxChain,      \* cap on the /Filter array (8 in container.go)
          Budget,        \* units of working memory granted to the stream
          MaxAsk,        \* largest single request of a stage
          NStages,       \* stages in the modelled chain (may exceed MaxChain)
          BREAK          \* "none" | "allocfirst" | "noshare"

VARIABLES phase,         \* "build" | "run" | "done"
          remaining,     \* what is left of the budget
          granted,       \* granted[i]: units stage i was granted
          used,          \* used[i]: units stage i has allocated
          outcome,       \* "none" | "data" | "malformed"
          helpers,       \* helper goroutines alive
          closed
vars == <<phase, remaining, granted, used, outcome, helpers, closed>>

Stages == 1..NStages
Sum(f) == LET RECURSIVE S(_) S(i) == IF i = 0 THEN 0 ELSE S(i - 1) + f[i] IN S(NStages)

Init == /\ phase = "build" /\ remaining = Budget
        /\ granted = [i \in Stages |-> 0] /\ used = [i \in Stages |-> 0]
        /\ outcome = "none" /\ helpers = 0 /\ closed = FALSE

\* GetFilters: the chain length is checked before anything else
Build == /\ phase = "build"
         /\ IF NStages > MaxChain THEN phase' = "done" /\ outcome' = "malformed" /\ UNCHANGED helpers
            ELSE phase' = "run" /\ UNCHANGED outcome /\ helpers' \in {0, 1}   \* a DCT stage starts a producer
         /\ UNCHANGED <<remaining, granted, used, closed>>
\* budget.Charge(n) by stage i
Charge(i, n) == /\ phase = "run"
                /\ IF BREAK = "noshare"                 \* defect: every stage gets a budget of its own
                   THEN /\ granted[i] + n <= Budget
                        /\ granted' = [granted EXCEPT ![i] = @ + n] /\ UNCHANGED <<remaining, phase, outcome>>
                   ELSE IF n <= remaining
                        THEN /\ remaining' = remaining - n
                             /\ granted' = [granted EXCEPT ![i] = @ + n] /\ UNCHANGED <<phase, outcome>>
                        ELSE /\ phase' = "done" /\ outcome' = "malformed"      \* membudget.ErrExceeded
                             /\ UNCHANGED <<remaining, granted>>
                /\ UNCHANGED <<used, helpers, closed>>
\* a stage allocates working memory it was granted before
Alloc(i, n) == /\ phase = "run"
               /\ (BREAK # "allocfirst" => used[i] + n <= granted[i])
               /\ used[i] + n <= Budget + MaxAsk
               /\ used' = [used EXCEPT ![i] = @ + n]
               /\ UNCHANGED <<phase, remaining, granted, outcome, helpers, closed>>
Finish == /\ phase = "run" /\ phase' = "done" /\ outcome' \in {"data", "malformed"}
          /\ UNCHANGED <<remaining, granted, used, helpers, closed>>
\* the caller may close at any time after the chain was built (also early)
Close == /\ phase \in {"run", "done"}
         /\ ~closed
         /\ closed' = TRUE /\ helpers' = 0
         /\ phase' = "done"
         /\ outcome' = IF outcome = "none" THEN "data" ELSE outcome
         /\ UNCHANGED <<remaining, granted, used>>
Next == \/ Build \/ Finish \/ Close
        \/ \E i \in Stages, n \in 1..MaxAsk : Charge(i, n) \/ Alloc(i, n)
Spec == Init /\ [][Next]_vars

\* working memory never exceeds the budget of the stream, whatever the chain does
WithinBudget == Sum(used) <= Budget
\* the budget is conserved: what is left plus what was granted is the budget
Conserved == BREAK = "none" => remaining + Sum(granted) = Budget
\* no stage is built for an over-long chain
ChainCap == NStages > MaxChain => (Sum(granted) = 0 /\ Sum(used) = 0 /\ outcome \in {"none", "malformed"})
\* no helper goroutine survives Close
Released == closed => helpers = 0

-------------------------------------------------------------------------------
(* Part 2: a measured run r =                                                *)
(*  [outcome, rawLen, produced, wallUs, allocKB, allowKB, capBytes, leaked]  *)
(* (lengths in bytes; capBytes = 0 when the format has no intrinsic          *)
(* dimensions).  Constants of the envelope, calibrated on the unchanged tree *)
(* with a factor >= 20 and an absolute floor:                                *)
BudgetBaseKB == 8192            \* limits.StreamBudgetBase
BudgetMult   == 1024            \* limits.StreamBudgetMultiplier (bytes per raw byte = KB per raw KB)
BudgetCapKB  == 262144          \* limits.StreamBudgetHardCap
SlackKB      == 6144            \* runtime, bufio and compressor state outside the budget
TimeFloorUs  == 15000000        \* a
TimeNsPerByte == 1000           \* b (= microseconds per 1000 bytes; keeps the product inside 32 bit)

Min(a, b) == IF a < b THEN a ELSE b
\* KB of budget for rawLen bytes (rounded up)
StreamBudgetKB(rawLen) == BudgetBaseKB + Min(rawLen + 1, BudgetCapKB)    \* 1024 * rawLen bytes = rawLen KB
OutcomeOK(r)  == r.outcome \in {"data", "malformed"}
\* allowKB: documented working memory of a bounded consumer outside the budget
\* (the /JBIG2Globals stream is read into memory up to 8 MiB); 0 otherwise
AllocOK(r)    == r.allocKB <= StreamBudgetKB(r.rawLen) + SlackKB + (r.produced \div 256) + r.allowKB
BoundedOK(r)  == r.capBytes > 0 => r.produced <= r.capBytes
\* wall <= a + b * (in + out): in units of 1000 bytes to stay inside 32 bit
TimeOK(r)     == r.wallUs <= TimeFloorUs + (TimeNsPerByte * ((r.rawLen + r.produced) \div 1000 + 1))
ReleasedOK(r) == r.leaked = 0
EnvelopeOK(r) == OutcomeOK(r) /\ AllocOK(r) /\ BoundedOK(r) /\ TimeOK(r) /\ ReleasedOK(r)
=============================================================================
