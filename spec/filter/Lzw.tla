--------------------------------- MODULE Lzw ---------------------------------
(* LZWDecode (ISO 32000-1 7.4.4.2 and Table 8, EarlyChange; TIFF 6.0          *)
(* section 13).  Codes of 9 to 12 bits packed most significant bit first;     *)
(* 0..255 literals, 256 = clear table, 257 = EOD, 258.. table entries.  The   *)
(* code length grows when the table reaches 511, 1023, 2047 entries           *)
(* (EarlyChange = 1, "one code early") or 512, 1024, 2048 (EarlyChange = 0,   *)
(* "postponed as long as possible").                                          *)
(*                                                                            *)
(* Ref: the decoder, as the meaning of a code stream.                         *)
(* Impl: internal/filter/lzw/writer.go as a state machine: greedy matching    *)
(* against the table (the hash table is abstracted to a function), hi,        *)
(* overflow, width, savedCode, the initial clear code, the clear code when    *)
(* the table is full, Close.                                                  *)
EXTENDS Naturals, Sequences, TLC

Clear == 256
Eod == 257
Pow2(n) == LET RECURSIVE P(_) P(k) == IF k = 0 THEN 1 ELSE 2 * P(k - 1) IN P(n)
P9 == 512 P10 == 1024 P11 == 2048 P12 == 4096

\* code length in force when the encoder's last assigned code is hi (Impl:
\* "if hi + earlyChange == overflow { width++ }"), equivalently when the
\* decoder's next free code is hi: the smallest w in 9..12 with hi + early < 2^w
WidthFor(hi, early) ==
  IF hi + early < P9 THEN 9 ELSE IF hi + early < P10 THEN 10 ELSE IF hi + early < P11 THEN 11 ELSE 12

\* the w-bit code starting at bit offset pos (0-based) of the byte string s;
\* bits beyond the end read as 0
ByteAt(s, k) == IF k <= Len(s) THEN s[k] ELSE 0
CodeAt(s, pos, w) ==
  LET k == pos \div 8 + 1
      win == ByteAt(s, k) * 65536 + ByteAt(s, k + 1) * 256 + ByteAt(s, k + 2)     \* 24 bits
  IN (win \div Pow2(24 - (pos % 8) - w)) % Pow2(w)

(* ---- Ref: decoder.  tab[c - 257] is the string of code c >= 258 (tab is a  *)
(* sequence, so the next free code is 258 + Len(tab)); prev is the string of  *)
(* the previous code or <<>> right after a clear code.                        *)
(* Result [st, data]: "eod" | "noeod" (bits run out) | "bad" (undefined code) *)
Str(tab, c) == IF c < 256 THEN <<c>> ELSE tab[c - 257]
\* one code: q = [st, pos, tab, prev, acc] with st = "run" while decoding
RefStep(s, early, q) ==
  LET next == 258 + Len(q.tab)
      \* after a clear code nothing is added for the first code, so the last
      \* code the encoder has assigned is next - 1 (prev = <<>>) or next
      w == WidthFor(IF q.prev = <<>> THEN next - 1 ELSE next, early)
  IN IF q.pos + w > 8 * Len(s) THEN [q EXCEPT !.st = "noeod"]
     ELSE LET c == CodeAt(s, q.pos, w) IN
       IF c = Eod THEN [q EXCEPT !.st = "eod"]
       ELSE IF c = Clear THEN [q EXCEPT !.pos = @ + w, !.tab = <<>>, !.prev = <<>>]
       ELSE IF q.prev = <<>>
         THEN (IF c < 256 THEN [q EXCEPT !.pos = @ + w, !.prev = <<c>>, !.acc = Append(@, c)]
               ELSE [q EXCEPT !.st = "bad"])
       ELSE IF c < next
         THEN LET str == Str(q.tab, c)
              IN [q EXCEPT !.pos = @ + w, !.prev = str, !.acc = @ \o str,
                           !.tab = IF next < P12 THEN Append(@, Append(q.prev, str[1])) ELSE @]
       ELSE IF c = next /\ next < P12
         THEN LET str == Append(q.prev, q.prev[1])                \* the KwKwK case
              IN [q EXCEPT !.pos = @ + w, !.prev = str, !.acc = @ \o str, !.tab = Append(@, str)]
       ELSE [q EXCEPT !.st = "bad"]
\* iterate RefStep until the state leaves "run".  The recursion is split in
\* two levels (blocks of 64 steps) only to keep TLC's evaluation stack shallow.
RECURSIVE RefSteps(_, _, _, _)
RefSteps(s, early, q, n) == IF n = 0 \/ q.st # "run" THEN q ELSE RefSteps(s, early, RefStep(s, early, q), n - 1)
RECURSIVE RefLoop(_, _, _)
RefLoop(s, early, q) == IF q.st # "run" THEN q ELSE RefLoop(s, early, RefSteps(s, early, q, 64))
RefDecode(s, early) ==
  LET q == RefLoop(s, early, [st |-> "run", pos |-> 0, tab |-> <<>>, prev |-> <<>>, acc |-> <<>>])
  IN [st |-> q.st, data |-> q.acc]
RefIsEncodingOf(enc, early, data) == RefDecode(enc, early) = [st |-> "eod", data |-> data]

(* ---- packing a code list.  Each element is <<code, width>>.                *)
PackCodes(codes) ==
  LET \* q = [i, acc, cur, nb]: acc finished bytes; cur value of the nb pending bits
      Step(q) ==
        LET v == q.cur * Pow2(codes[q.i][2]) + codes[q.i][1]
            n == q.nb + codes[q.i][2]
            RECURSIVE Out(_, _, _)
            Out(a, val, m) == IF m >= 8 THEN Out(Append(a, val \div Pow2(m - 8)), val % Pow2(m - 8), m - 8)
                              ELSE <<a, val, m>>
            o == Out(q.acc, v, n)
        IN [i |-> q.i + 1, acc |-> o[1], cur |-> o[2], nb |-> o[3]]
      RECURSIVE Steps(_, _)          \* two levels of iteration: shallow evaluation stack
      Steps(q, n) == IF n = 0 \/ q.i > Len(codes) THEN q ELSE Steps(Step(q), n - 1)
      RECURSIVE Loop(_)
      Loop(q) == IF q.i > Len(codes) THEN q ELSE Loop(Steps(q, 64))
      f == Loop([i |-> 1, acc |-> <<>>, cur |-> 0, nb |-> 0])
  IN IF f.nb > 0 THEN Append(f.acc, f.cur * Pow2(8 - f.nb)) ELSE f.acc

(* ---- Impl: the writer (internal/filter/lzw/writer.go).  State:            *)
(*   dict   the table, a function from 256 * prefix code + byte to code (the  *)
(*          hash table of the code, abstracted);                              *)
(*   hi     the last code assigned (257 after a clear);                       *)
(*   saved  the code accumulated so far (NoCode before the first byte);       *)
(*   out    the codes emitted, each with the code length in force.            *)
(* Emitting a code is followed by incHi: hi grows, the code length follows    *)
(* (WidthFor), and when hi + early reaches 4095 a clear code is sent and the  *)
(* table is reset.  WidthBug = 0 in the real code; the negative control       *)
(* shifts the writer's switch of the code length by one code.                 *)
NoCode == 4096
\* the table: 64 buckets (by key modulo 64) of <<key, code>> pairs -- the
\* shape of a hash table, and cheap for TLC to update
NB == 64
EmptyDict == [b \in 0..(NB - 1) |-> <<>>]
Lookup(dict, key) ==      \* the code stored for key, or NoCode
  LET bucket == dict[key % NB]
      RECURSIVE F(_)
      F(k) == IF k > Len(bucket) THEN NoCode ELSE IF bucket[k][1] = key THEN bucket[k][2] ELSE F(k + 1)
  IN F(1)
Insert(dict, key, code) == [dict EXCEPT ![key % NB] = Append(@, <<key, code>>)]
ImplSt0 == [dict |-> EmptyDict, hi |-> 257, saved |-> NoCode, out |-> << <<Clear, 9>> >>]
\* the codes written when code c is emitted in a state with last code hi, and
\* whether the table was reset
EmitCodes(c, hi, early, bug) ==
  IF hi + 1 + early = 4095 THEN << <<c, WidthFor(hi + bug, early)>>, <<Clear, WidthFor(hi + 1 + bug, early)>> >>
  ELSE << <<c, WidthFor(hi + bug, early)>> >>
Resets(hi, early) == hi + 1 + early = 4095
\* one input byte: q = [i, dict, hi, saved, out]
ImplStep(xs, q, early, bug) ==
  LET b == xs[q.i] IN
  IF q.saved = NoCode THEN [q EXCEPT !.i = @ + 1, !.saved = b]                   \* first byte: a literal
  ELSE LET key == q.saved * 256 + b
           hit == Lookup(q.dict, key) IN
    IF hit # NoCode THEN [q EXCEPT !.i = @ + 1, !.saved = hit]                   \* table hit: go on
    ELSE IF Resets(q.hi, early)                                                 \* out of codes: no new entry
      THEN [i |-> q.i + 1, dict |-> EmptyDict, hi |-> 257, saved |-> b, out |-> q.out \o EmitCodes(q.saved, q.hi, early, bug)]
      ELSE [i |-> q.i + 1, dict |-> Insert(q.dict, key, q.hi + 1), hi |-> q.hi + 1, saved |-> b,
            out |-> q.out \o EmitCodes(q.saved, q.hi, early, bug)]
\* Close: the pending code, then incHi (which may switch the code length or
\* even send a clear code), then EOD with the code length then in force.
\* inc = FALSE is the negative control "Close forgets incHi after the last
\* code": EOD is written with the code length of the last data code.
ImplCloseWith(q, early, bug, inc) ==
  IF q.saved = NoCode THEN Append(q.out, <<Eod, WidthFor(q.hi + bug, early)>>)
  ELSE IF inc
    THEN q.out \o EmitCodes(q.saved, q.hi, early, bug)
               \o << <<Eod, WidthFor((IF Resets(q.hi, early) THEN 257 ELSE q.hi + 1) + bug, early)>> >>
    ELSE q.out \o << <<q.saved, WidthFor(q.hi + bug, early)>>, <<Eod, WidthFor(q.hi + bug, early)>> >>
ImplClose(q, early, bug) == ImplCloseWith(q, early, bug, TRUE)
RECURSIVE ImplSteps(_, _, _, _, _)   \* two levels of iteration: shallow evaluation stack
ImplSteps(xs, q, n, early, bug) == IF n = 0 \/ q.i > Len(xs) THEN q ELSE ImplSteps(xs, ImplStep(xs, q, early, bug), n - 1, early, bug)
RECURSIVE ImplLoop(_, _, _, _)
ImplLoop(xs, q, early, bug) == IF q.i > Len(xs) THEN q ELSE ImplLoop(xs, ImplSteps(xs, q, 64, early, bug), early, bug)
ImplFinal(xs, early, bug) ==
  ImplLoop(xs, [i |-> 1, dict |-> ImplSt0.dict, hi |-> ImplSt0.hi, saved |-> ImplSt0.saved, out |-> ImplSt0.out], early, bug)
ImplCodes(xs, early, bug) == ImplClose(ImplFinal(xs, early, bug), early, bug)
ImplCodesNoIncHiAtClose(xs, early) == ImplCloseWith(ImplFinal(xs, early, 0), early, 0, FALSE)
ImplEncode(xs, early) == PackCodes(ImplCodes(xs, early, 0))

(* ---- another legal encoder: literals only, a clear code every n codes (so  *)
(* the decoder's table never matters) -- n < 253 keeps the code length at 9   *)
EncLiteralsClear(xs, n) ==
  LET RECURSIVE C(_)
      C(i) == IF i > Len(xs) THEN << <<Eod, 9>> >>
              ELSE (IF (i - 1) % n = 0 THEN << <<Clear, 9>> >> ELSE <<>>) \o << <<xs[i], 9>> >> \o C(i + 1)
  IN PackCodes(C(1))
\* literals only without any clear code after the first: the code length
\* follows the growing table although no table entry is ever used
EncLiteralsGrow(xs, early) ==
  LET RECURSIVE C(_)
      C(i) == IF i > Len(xs) THEN << <<Eod, WidthFor(257 + Len(xs), early)>> >>
              ELSE << <<xs[i], WidthFor(256 + i, early)>> >> \o C(i + 1)
  IN PackCodes(<< <<Clear, 9>> >> \o C(1))
\* an encoder that defers the clear code: literals only until the decoder's
\* table is full (Len(xs) >= 3845), then reps times the last table entry the
\* encoder allows itself (4095, or 4094 with EarlyChange = 1: a full table stays
\* frozen and every code keeps its meaning), then the clear code and a tail of
\* literals.  DeferredData is the data that stream stands for.
TopCode(early) == 4095 - early
EncDeferredClear(xs, early, reps, tail) ==
  PackCodes(<< <<Clear, 9>> >>
            \o [i \in 1..Len(xs) |-> <<xs[i], WidthFor(256 + i, early)>>]
            \o [i \in 1..reps |-> <<TopCode(early), 12>>]
            \o << <<Clear, 12>> >>
            \o [i \in 1..Len(tail) |-> <<tail[i], WidthFor(256 + i, early)>>]
            \o << <<Eod, WidthFor(257 + Len(tail), early)>> >>)
DeferredData(xs, early, reps, tail) ==
  LET top == <<xs[TopCode(early) - 257], xs[TopCode(early) - 256]>>
      RECURSIVE Rep(_) Rep(k) == IF k = 0 THEN <<>> ELSE top \o Rep(k - 1)
  IN xs \o Rep(reps) \o tail
=============================================================================
