---------------------------- MODULE Trace_Codec ----------------------------
(* Judges what the library's codecs did against the format specifications    *)
(* (RunLength, AsciiHex, Ascii85, Predictor, Lzw: Ref... operators only).    *)
(* One record per (encoded, data) pair, in either direction:                 *)
(*   dir = "enc": data was written through the library's Filter.Encode and   *)
(*                enc is what came out;                                      *)
(*   dir = "dec": enc was produced by an independent encoder (Gen_Foreign or *)
(*                indep/codecs) and data is what the library's Filter.Decode *)
(*                returned, err = 1 when it reported an error.               *)
(* In both directions the record is accepted iff enc is an encoding of data  *)
(* according to the format: RefDecode(enc) = data, properly terminated.      *)
(* fmt: "rl" | "ah" | "a85" | "lzw" (early) | "pr" (p) | "lzwpr" (early, p:  *)
(* LZW around a predictor) | "agree" (two digests a, b of implementations    *)
(* outside the TLA+ models -- Flate, CCITTFax: accepted iff equal).          *)
EXTENDS Naturals, Sequences, TraceLib

RL  == INSTANCE RunLength
AH  == INSTANCE AsciiHex
A85 == INSTANCE Ascii85
PR  == INSTANCE Predictor
LZ  == INSTANCE Lzw

Cases == Records

IsEnc(c) ==
  CASE c.fmt = "rl"  -> RL!RefIsEncodingOf(c.enc, c.data)
    [] c.fmt = "ah"  -> AH!RefIsEncodingOf(c.enc, c.data)
    [] c.fmt = "a85" -> A85!RefIsEncodingOf(c.enc, c.data)
    [] c.fmt = "lzw" -> LZ!RefIsEncodingOf(c.enc, c.early, c.data)
    [] c.fmt = "pr"  -> PR!RefIsEncodingOf(c.p, c.enc, c.data)
    [] c.fmt = "lzwpr" -> LET d == LZ!RefDecode(c.enc, c.early)
                          IN d.st = "eod" /\ PR!RefIsEncodingOf(c.p, d.data, c.data)
    [] c.fmt = "agree" -> c.a = c.b /\ c.lenA = c.lenB
    [] OTHER -> FALSE
CaseOK(c) == c.err = 0 /\ IsEnc(c)

VARIABLES i, bad, done
vars == <<i, bad, done>>
Init == i = 1 /\ bad = <<>> /\ done = FALSE
Step == /\ i <= Len(Cases)
        /\ i' = i + 1
        /\ bad' = IF CaseOK(Cases[i]) THEN bad ELSE Append(bad, i)
        /\ UNCHANGED done
Finish == /\ i = Len(Cases) + 1 /\ ~done
          /\ done' = TRUE
          /\ WriteVerdict(bad)
          /\ UNCHANGED <<i, bad>>
Next == Step \/ Finish
Spec == Init /\ [][Next]_vars
=============================================================================
