--------------------------- MODULE MC_FilterParams ---------------------------
(* Bounded exhaustive model of the parameter algebra.  The enumeration is a   *)
(* state machine (one field chosen per step) so that TLC's workers share it.  *)
(* Two independent parts run in the same model:                               *)
(*   part "fl"/"cc"/"sf": a parameter struct is assembled field by field; on  *)
(*        the complete struct the invariant ParamOK must hold;                *)
(*   part "app": a stream dictionary receives up to MaxAppends insertFilter   *)
(*        calls (as OpenStream makes them: the i-th filter at position i, in  *)
(*        front of the caller's chain); RefChain of the dictionary must equal *)
(*        the chain so built.                                                 *)
EXTENDS FilterParams

CONSTANTS PredSet, ColorSet, BpcSet, ColSet, VerSet,       \* Flate / LZW / Compress
          KSet, CColSet, RowSet, DmgSet, CVerSet,           \* CCITTFax
          MaxAppends,
          BREAK                                             \* negative controls: "none" | "parse" | "append"

\* ---- constant sets of the two tiers (cfg files cannot contain negative numbers)
Q_PredSet == {0, 1, 2, 3, 10, 11, 12, 13, 14, 15}
Q_ColorSet == {0, 1, 3, 4, 5}
Q_BpcSet == {0, 1, 2, 4, 8, 16}
Q_ColSet == {0, 1, 2, 7, 8, 9}
Q_VerSet == {11, 12, 13, 15, 20}
Q_KSet == {-2, -1, 0, 2}
Q_CColSet == {0, 1, 8, 9, 1728}
Q_RowSet == {0, 3}
Q_DmgSet == {0, 2}
\* the quick model also covers the exact limits (the quick case table takes
\* them from Gen_FilterParams.FLLimit / CCLimit instead of the full product)
QM_ColSet == Q_ColSet \cup {1048575, 1048576, 1048577}
QM_CColSet == Q_CColSet \cup {1048575, 1048576, 1048577}
QM_RowSet == Q_RowSet \cup {1048576, 1048577}
QM_DmgSet == Q_DmgSet \cup {1048576, 1048577}
QM_ColorSet == Q_ColorSet \cup {60, 61, 256, 257}
T_PredSet == {-1, 0, 1, 2, 3, 9, 10, 11, 12, 13, 14, 15, 16}
T_ColorSet == {-1, 0, 1, 2, 3, 4, 5, 60, 61}
T_BpcSet == {-8, 0, 1, 2, 3, 4, 8, 16, 32}
T_ColSet == {-1, 0, 1, 2, 7, 8, 9, 1048576, 1048577}
T_VerSet == Versions
T_KSet == {-7, -2, -1, 0, 1, 2, 5}
T_CColSet == {-1, 0, 1, 8, 9, 1728, 1048576, 1048577}
T_RowSet == {-1, 0, 3, 1048576, 1048577}
T_DmgSet == {-1, 0, 2, 1048577}

VARIABLES st
vars == <<st>>

\* ---- the filters that can be appended (name, parms) and the seed dictionaries
AppFilters == { <<"ASCII85Decode", Empty>>, <<"FlateDecode", Empty>>,
                <<"LZWDecode", "EarlyChange" :> I(0)>>,
                <<"FlateDecode", ("Predictor" :> I(12)) @@ ("Columns" :> I(4))>> }
\* dictionaries the caller may pass to OpenStream (nil, or an existing
\* well-formed chain, also with an empty /DecodeParms dictionary)
Seeds == { [F |-> None, P |-> None],
           [F |-> Nm("ASCIIHexDecode"), P |-> None],
           [F |-> Nm("ASCIIHexDecode"), P |-> Dv(Empty)],
           [F |-> Nm("LZWDecode"), P |-> Dv("EarlyChange" :> I(0))],
           [F |-> Av(<<Nm("ASCIIHexDecode"), Nm("LZWDecode")>>), P |-> None],
           [F |-> Av(<<Nm("ASCIIHexDecode"), Nm("LZWDecode")>>), P |-> Av(<<Null, Dv("EarlyChange" :> I(0))>>)] }

BrokenInsert(sd, pos, name, parms) ==
  \* the defect "the name goes in front, its parameters to the end"
  LET good == ImplInsert(sd, pos, name, parms) IN
  IF good.P.t = "array" /\ Len(good.P.v) >= 2 /\ parms # Empty
  THEN [good EXCEPT !.P = Av(Append(SubSeq(good.P.v, 2, Len(good.P.v)), good.P.v[1]))]
  ELSE good
DoInsert(sd, pos, name, parms) == IF BREAK = "append" THEN BrokenInsert(sd, pos, name, parms) ELSE ImplInsert(sd, pos, name, parms)

Init == st = [part |-> "start"]

StartFL == /\ st.part = "start"
           /\ \E kind \in FlateLike, obo \in BOOLEAN, v \in VerSet :
                /\ (kind # "LZW" => ~obo)
                /\ st' = [part |-> "fl", step |-> 1, v |-> v, p |-> FL(kind, 0, 0, 0, 0, obo)]
SetPred  == /\ st.part = "fl" /\ st.step = 1
            /\ \E x \in PredSet : st' = [st EXCEPT !.step = 2, !.p.pred = x]
SetColors == /\ st.part = "fl" /\ st.step = 2
             /\ \E x \in ColorSet : st' = [st EXCEPT !.step = 3, !.p.colors = x]
SetBpc   == /\ st.part = "fl" /\ st.step = 3
            /\ \E x \in BpcSet : st' = [st EXCEPT !.step = 4, !.p.bpc = x]
SetCols  == /\ st.part = "fl" /\ st.step = 4
            /\ \E x \in ColSet : st' = [st EXCEPT !.step = 9, !.p.cols = x]

StartCC == /\ st.part = "start"
           /\ \E k \in KSet, v \in CVerSet :
                st' = [part |-> "cc", step |-> 1, v |-> v, p |-> CC(k, FALSE, FALSE, 0, 0, FALSE, FALSE, 0)]
SetBools == /\ st.part = "cc" /\ st.step = 1
            /\ \E a, b, c, d \in BOOLEAN :
                 st' = [st EXCEPT !.step = 2, !.p.eol = a, !.p.align = b, !.p.ieob = c, !.p.black = d]
SetCCols == /\ st.part = "cc" /\ st.step = 2
            /\ \E x \in CColSet : st' = [st EXCEPT !.step = 3, !.p.cols = x]
SetRows  == /\ st.part = "cc" /\ st.step = 3
            /\ \E x \in RowSet : st' = [st EXCEPT !.step = 4, !.p.rows = x]
SetDmg   == /\ st.part = "cc" /\ st.step = 4
            /\ \E x \in DmgSet : st' = [st EXCEPT !.step = 9, !.p.dmg = x]

StartSF == /\ st.part = "start"
           /\ \E kind \in Simple, v \in CVerSet : st' = [part |-> "sf", step |-> 9, v |-> v, p |-> SF(kind)]

StartApp == /\ st.part = "start"
            /\ \E sd \in Seeds : st' = [part |-> "app", n |-> 0, sd |-> sd, chain |-> RefChain(sd)]
\* OpenStream's next filter (the st.n-th, counted from 0) goes to position st.n
AppendOne == /\ st.part = "app" /\ st.n < MaxAppends
             /\ \E f \in AppFilters :
                  st' = [st EXCEPT !.n = @ + 1, !.sd = DoInsert(st.sd, st.n, f[1], f[2]),
                                   !.chain = InsertAt(@, st.n + 1, f)]

Next == \/ StartFL \/ SetPred \/ SetColors \/ SetBpc \/ SetCols
        \/ StartCC \/ SetBools \/ SetCCols \/ SetRows \/ SetDmg
        \/ StartSF \/ StartApp \/ AppendOne
Spec == Init /\ [][Next]_vars

Complete == st.part \in {"fl", "cc", "sf"} /\ st.step = 9

\* negative control "parse": parseLZW forgetting that EarlyChange defaults to 1
BrokenParamOK(p, v) ==
  LET nd == ImplInfo(p, v) IN
  IF nd.name = "LZWDecode" /\ ~("EarlyChange" \in DOMAIN nd.dict)
  THEN RefEffective([ImplParse(nd.name, nd.dict) EXCEPT !.obo = FALSE], v) = RefEffective(p, v)
  ELSE TRUE

ParamsOK == Complete => (ParamOK(st.p, st.v) /\ (BREAK = "parse" /\ ImplValid(st.p, st.v) => BrokenParamOK(st.p, st.v)))
AppendOK == st.part = "app" => /\ RefWellFormed(st.sd)
                               /\ RefChain(st.sd) = st.chain
\* anti-vacuity: some complete struct is accepted and some is refused
SomeValid   == ~(Complete /\ ImplValid(st.p, st.v))
SomeInvalid == ~(Complete /\ ~ImplValid(st.p, st.v))
=============================================================================
