SPECIFICATION Spec
CONSTANTS
  Parts = {"pr"}
  RLCounts = {1}
  RLMaxRuns = 1
  SmallLen = 3
  LzwLens = {250}
  BREAK = "paeth"
INVARIANTS PROK
CHECK_DEADLOCK FALSE
