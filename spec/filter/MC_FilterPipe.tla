---------------------------- MODULE MC_FilterPipe ----------------------------
(* Bounded exhaustive model of the filter pipe contract. *)
EXTENDS FilterPipe
=============================================================================
