----------------------------- MODULE FilterParams -----------------------------
(* The parameter algebra of go-pdf's stream filters (filter.go).              *)
(*                                                                            *)
(* Two layers are kept apart:                                                 *)
(*                                                                            *)
(*  Ref...  what ISO 32000-1 7.4 (Tables 5, 8, 11) says a filter name plus a  *)
(*          /DecodeParms dictionary MEANS (defaults for absent keys), what    *)
(*          the fields of the Go parameter structs mean according to their    *)
(*          documentation (zero-value shorthands), and what a /Filter +       *)
(*          /DecodeParms pair of a stream dictionary means (7.3.8.2).         *)
(*  Impl... transcriptions of filter.go: validate*, toDict/Info, parse*,      *)
(*          FilterCompress resolution, insertFilter.                          *)
(*                                                                            *)
(* Properties (checked exhaustively by MC_FilterParams, bound to the real     *)
(* code by Gen_FilterParams / Trace_FilterParams):                            *)
(*   the dictionary emitted by Info means the struct's effective parameters;  *)
(*   MakeFilter of that dictionary yields a struct with the same meaning,     *)
(*   equal to ImplNormalize; Info o MakeFilter is idempotent; after any       *)
(*   sequence of insertions (OpenStream's filters, in front of the caller's   *)
(*   chain) the i-th /DecodeParms entry belongs to the i-th /Filter entry.    *)
(*                                                                            *)
(* PDF values are typed records [t |-> "int"|"bool"|"name"|"real"|"string"|   *)
(* "array"|"dict"|"null", v |-> ...] so that type-confused dictionaries       *)
(* (property C08) are expressible.  TLC integers are 32 bit: the two          *)
(* stand-ins Big31 and Big63 represent 2^31 and 2^63-1; the harness maps      *)
(* them to the real values.  Every threshold in filter.go lies below both,    *)
(* and the map is monotone, so every comparison has the same outcome.         *)
EXTENDS Integers, Sequences, FiniteSets, TLC, SequencesExt

MaxDim == 1048576                      \* 1 << 20
Big31  == 2000000001                   \* stands for 2^31
Big63  == 2000000002                   \* stands for 2^63-1 (= maxInt on 64 bit)
PredVals == {1, 2, 10, 11, 12, 13, 14, 15}      \* ISO 32000-1 Table 10
Versions == {10, 11, 12, 13, 14, 15, 16, 17, 20} \* 10*major + minor

I(n)  == [t |-> "int",  v |-> n]
Bo(b) == [t |-> "bool", v |-> b]
Nm(s) == [t |-> "name", v |-> s]
Null  == [t |-> "null"]
Empty == <<>>                           \* the empty dictionary
Opt(c, k, val) == IF c THEN k :> val ELSE Empty
Has(d, k, ty) == k \in DOMAIN d /\ d[k].t = ty
IntAt(d, k, def)  == IF Has(d, k, "int")  THEN d[k].v ELSE def
BoolAt(d, k, def) == IF Has(d, k, "bool") THEN d[k].v ELSE def

-------------------------------------------------------------------------------
(* Parameter structs (the Go types), one record shape per family.            *)
FlateLike == {"Flate", "LZW", "Compress"}
Simple    == {"ASCII85", "ASCIIHex", "RunLength"}
FL(kind, pred, colors, bpc, cols, obo) ==
  [kind |-> kind, pred |-> pred, colors |-> colors, bpc |-> bpc, cols |-> cols, obo |-> obo]
CC(k, eol, align, cols, rows, ieob, black, dmg) ==
  [kind |-> "CCITT", k |-> k, eol |-> eol, align |-> align, cols |-> cols, rows |-> rows,
   ieob |-> ieob, black |-> black, dmg |-> dmg]
SF(kind) == [kind |-> kind]

NameOf(kind) == CASE kind = "Flate" -> "FlateDecode" [] kind = "LZW" -> "LZWDecode"
                  [] kind = "CCITT" -> "CCITTFaxDecode" [] kind = "ASCII85" -> "ASCII85Decode"
                  [] kind = "ASCIIHex" -> "ASCIIHexDecode" [] kind = "RunLength" -> "RunLengthDecode"

-------------------------------------------------------------------------------
(* Ref: effective parameters.                                                 *)
(* Shape: Flate/LZW  [filter, pred, colors, bpc, cols, early]                 *)
(*        CCITT      [filter, k, eol, align, cols, rows, eob, black, dmg]     *)
(*        others     [filter]                                                 *)
KNorm(k) == IF k < 0 THEN -1 ELSE k     \* every negative K selects Group 4

RefPred(pred, colors, bpc, cols) ==
  \* Table 8: Colors, BitsPerComponent, Columns are "used only if Predictor > 1"
  IF pred = 1 THEN <<1, 1, 8, 1>> ELSE <<pred, colors, bpc, cols>>

EffFL(filter, q, early) ==
  [filter |-> filter, pred |-> q[1], colors |-> q[2], bpc |-> q[3], cols |-> q[4], early |-> early]

\* meaning of a filter name + well-typed parameter dictionary (ISO 32000-1)
RefMeaning(name, d) ==
  CASE name = "FlateDecode" ->
         EffFL("Flate", RefPred(IntAt(d, "Predictor", 1), IntAt(d, "Colors", 1),
                                IntAt(d, "BitsPerComponent", 8), IntAt(d, "Columns", 1)), 1)
    [] name = "LZWDecode" ->
         EffFL("LZW", RefPred(IntAt(d, "Predictor", 1), IntAt(d, "Colors", 1),
                              IntAt(d, "BitsPerComponent", 8), IntAt(d, "Columns", 1)),
               IntAt(d, "EarlyChange", 1))
    [] name = "CCITTFaxDecode" ->
         [filter |-> "CCITT", k |-> KNorm(IntAt(d, "K", 0)),
          eol |-> BoolAt(d, "EndOfLine", FALSE), align |-> BoolAt(d, "EncodedByteAlign", FALSE),
          cols |-> IntAt(d, "Columns", 1728), rows |-> IntAt(d, "Rows", 0),
          eob |-> BoolAt(d, "EndOfBlock", TRUE), black |-> BoolAt(d, "BlackIs1", FALSE),
          dmg |-> IntAt(d, "DamagedRowsBeforeError", 0)]
    [] name = "ASCII85Decode"   -> [filter |-> "ASCII85"]
    [] name = "ASCIIHexDecode"  -> [filter |-> "ASCIIHex"]
    [] name = "RunLengthDecode" -> [filter |-> "RunLength"]
    [] OTHER -> [filter |-> "?"]

\* meaning of a Go parameter struct at PDF version v (documentation of the
\* struct fields: "on write, 0 can be used as a shorthand for ...")
Z(x, def) == IF x = 0 THEN def ELSE x
RefEffective(p, v) ==
  CASE p.kind \in FlateLike ->
         LET q == RefPred(Z(p.pred, 1), Z(p.colors, 1), Z(p.bpc, 8), Z(p.cols, 1))
         IN (CASE p.kind = "Flate" -> EffFL("Flate", q, 1)
               [] p.kind = "LZW" -> EffFL("LZW", q, IF p.obo THEN 1 ELSE 0)
               [] p.kind = "Compress" -> IF v >= 12 THEN EffFL("Flate", q, 1) ELSE EffFL("LZW", q, 1))
    [] p.kind = "CCITT" ->
         [filter |-> "CCITT", k |-> KNorm(p.k), eol |-> p.eol, align |-> p.align,
          cols |-> Z(p.cols, 1728), rows |-> p.rows, eob |-> ~p.ieob, black |-> p.black, dmg |-> p.dmg]
    [] OTHER -> [filter |-> p.kind]

\* what the standard admits (used to show that validation is not vacuous)
RefAdmissible(p, v) ==
  CASE p.kind \in FlateLike ->
         /\ p.kind = "Flate" => v >= 12
         /\ Z(p.pred, 1) \in PredVals
         /\ Z(p.pred, 1) = 1 => (p.colors = 0 /\ p.bpc = 0 /\ p.cols = 0)
         /\ Z(p.pred, 1) # 1 =>
              /\ Z(p.colors, 1) >= 1 /\ (v < 13 => Z(p.colors, 1) <= 4)
              /\ Z(p.bpc, 8) \in {1, 2, 4, 8} \cup (IF v >= 15 THEN {16} ELSE {})
              /\ Z(p.cols, 1) >= 1
    [] p.kind = "CCITT" -> p.cols >= 0 /\ p.rows >= 0 /\ p.dmg >= 0
    [] OTHER -> TRUE

-------------------------------------------------------------------------------
(* Impl: filter.go.                                                           *)
ImplUsingPred(p) == p.pred # 0 /\ p.pred # 1

\* validateFlateLZW, FilterFlate.validate, FilterCCITTFax.validate
ImplValidFL(p, v) ==
  /\ p.pred \in PredVals \cup {0}
  /\ ~ImplUsingPred(p) => (p.colors = 0 /\ p.bpc = 0 /\ p.cols = 0)
  /\ ImplUsingPred(p) =>
       /\ p.colors # 0 => (p.colors >= 1 /\ ~(v < 13 /\ p.colors > 4))
       /\ p.bpc # 0 => (p.bpc \in {1, 2, 4, 8} \/ (p.bpc = 16 /\ v >= 15))
       /\ p.cols # 0 => (p.cols >= 1 /\ p.cols <= MaxDim)
ImplValid(p, v) ==
  CASE p.kind = "Flate" -> v >= 12 /\ ImplValidFL(p, v)
    [] p.kind = "LZW" -> ImplValidFL(p, v)
    [] p.kind = "Compress" -> ImplValidFL(p, v)      \* toFlate().Info / toLZW().Info
    [] p.kind = "CCITT" -> /\ p.cols >= 0 /\ p.cols <= MaxDim
                           /\ p.rows >= 0 /\ p.rows <= MaxDim
                           /\ p.dmg >= 0 /\ p.dmg <= MaxDim
    [] OTHER -> TRUE

\* FilterCompress.toFlate / toLZW
ImplResolve(p, v) ==
  IF p.kind = "Compress"
  THEN (IF v >= 12 THEN FL("Flate", p.pred, p.colors, p.bpc, p.cols, FALSE)
                   ELSE FL("LZW", p.pred, p.colors, p.bpc, p.cols, TRUE))
  ELSE p

\* FilterFlate.toDict
ImplPredDict(p) ==
  IF ImplUsingPred(p)
  THEN ("Predictor" :> I(p.pred))
         @@ Opt(p.colors # 0 /\ p.colors # 1, "Colors", I(p.colors))
         @@ Opt(p.bpc # 0 /\ p.bpc # 8, "BitsPerComponent", I(p.bpc))
         @@ Opt(p.cols # 0 /\ p.cols # 1, "Columns", I(p.cols))
  ELSE Empty

\* Info: [name, dict]  (only for ImplValid(p, v))
ImplInfo(p, v) ==
  LET q == ImplResolve(p, v) IN
  CASE q.kind = "Flate" -> [name |-> "FlateDecode", dict |-> ImplPredDict(q)]
    [] q.kind = "LZW" -> [name |-> "LZWDecode",
                          dict |-> ImplPredDict(q) @@ Opt(~q.obo, "EarlyChange", I(0))]
    [] q.kind = "CCITT" ->
         [name |-> "CCITTFaxDecode",
          dict |-> Opt(q.k # 0, "K", I(q.k)) @@ Opt(q.eol, "EndOfLine", Bo(TRUE))
                   @@ Opt(q.align, "EncodedByteAlign", Bo(TRUE))
                   @@ Opt(q.cols # 0 /\ q.cols # 1728, "Columns", I(q.cols))
                   @@ Opt(q.rows > 0, "Rows", I(q.rows))
                   @@ Opt(q.ieob, "EndOfBlock", Bo(FALSE))
                   @@ Opt(q.black, "BlackIs1", Bo(TRUE))
                   @@ Opt(q.dmg > 0, "DamagedRowsBeforeError", I(q.dmg))]
    [] OTHER -> [name |-> NameOf(q.kind), dict |-> Empty]

\* parseFlate / parseLZW / parseCCITTFax / MakeFilter: total on every dictionary
ImplParseFL(kind, d) ==
  LET pv == IF Has(d, "Predictor", "int") /\ d["Predictor"].v \in PredVals THEN d["Predictor"].v ELSE 1
      obo == IF kind = "LZW" THEN ~(Has(d, "EarlyChange", "int") /\ d["EarlyChange"].v = 0) ELSE FALSE
  IN IF pv = 1 THEN FL(kind, 1, 0, 0, 0, obo)
     ELSE FL(kind, pv,
             IF Has(d, "Colors", "int") /\ d["Colors"].v >= 1 THEN d["Colors"].v ELSE 1,
             IF Has(d, "BitsPerComponent", "int") /\ d["BitsPerComponent"].v \in {1, 2, 4, 8, 16}
               THEN d["BitsPerComponent"].v ELSE 8,
             IF Has(d, "Columns", "int") /\ d["Columns"].v >= 1 /\ d["Columns"].v <= MaxDim
               THEN d["Columns"].v ELSE 1,
             obo)
InDim(d, k) == Has(d, k, "int") /\ d[k].v > 0 /\ d[k].v <= MaxDim
ImplParse(name, d) ==
  CASE name = "FlateDecode" -> ImplParseFL("Flate", d)
    [] name = "LZWDecode" -> ImplParseFL("LZW", d)
    [] name = "CCITTFaxDecode" ->
         CC(IF Has(d, "K", "int") THEN KNorm(d["K"].v) ELSE 0,
            BoolAt(d, "EndOfLine", FALSE), BoolAt(d, "EncodedByteAlign", FALSE),
            IF InDim(d, "Columns") THEN d["Columns"].v ELSE 1728,
            IF InDim(d, "Rows") THEN d["Rows"].v ELSE 0,
            Has(d, "EndOfBlock", "bool") /\ ~d["EndOfBlock"].v,
            BoolAt(d, "BlackIs1", FALSE),
            IF InDim(d, "DamagedRowsBeforeError") THEN d["DamagedRowsBeforeError"].v ELSE 0)
    [] name = "ASCII85Decode" -> SF("ASCII85")
    [] name = "ASCIIHexDecode" -> SF("ASCIIHex")
    [] name = "RunLengthDecode" -> SF("RunLength")
    [] OTHER -> SF("?")

\* the struct MakeFilter(Info(p)) is expected to return
ImplNormalize(p, v) ==
  LET q == ImplResolve(p, v) IN
  CASE q.kind \in {"Flate", "LZW"} ->
         IF ImplUsingPred(q)
         THEN FL(q.kind, q.pred, Z(q.colors, 1), Z(q.bpc, 8), Z(q.cols, 1), q.obo)
         ELSE FL(q.kind, 1, 0, 0, 0, q.obo)
    [] q.kind = "CCITT" -> CC(KNorm(q.k), q.eol, q.align, Z(q.cols, 1728), q.rows, q.ieob, q.black, q.dmg)
    [] OTHER -> q

-------------------------------------------------------------------------------
(* Properties of one parameter set.                                          *)
MeaningOK(p, v) == LET nd == ImplInfo(p, v) IN RefMeaning(nd.name, nd.dict) = RefEffective(p, v)
ParseOK(p, v)   == LET nd == ImplInfo(p, v) q == ImplParse(nd.name, nd.dict)
                   IN /\ q = ImplNormalize(p, v)
                      /\ RefEffective(q, v) = RefEffective(p, v)
\* Info o MakeFilter is idempotent: the struct obtained from the emitted
\* dictionary is a fixed point (the first dictionary may still carry a
\* non-canonical value such as K = -2, which means the same as K = -1)
IdemOK(p, v)    == LET nd == ImplInfo(p, v) q == ImplParse(nd.name, nd.dict) nd2 == ImplInfo(q, v)
                   IN /\ ImplValid(q, v)
                      /\ nd2.name = nd.name
                      /\ RefMeaning(nd2.name, nd2.dict) = RefMeaning(nd.name, nd.dict)
                      /\ ImplParse(nd2.name, nd2.dict) = q
                      /\ ImplInfo(ImplParse(nd2.name, nd2.dict), v) = nd2
ValidOK(p, v)   == ImplValid(p, v) => RefAdmissible(p, v)
ParamOK(p, v)   == ValidOK(p, v) /\ (ImplValid(p, v) => MeaningOK(p, v) /\ ParseOK(p, v) /\ IdemOK(p, v))

-------------------------------------------------------------------------------
(* /Filter and /DecodeParms of a stream dictionary (ISO 32000-1 7.3.8.2,     *)
(* Table 5).  sd = [F |-> value, P |-> value] with value.t = "none" for an   *)
(* absent key.  A chain is a sequence of <<name, dict>>; an absent, null or  *)
(* empty parameter dictionary means "all defaults" = Empty.                  *)
None == [t |-> "none"]
Dv(d) == [t |-> "dict", v |-> d]
Av(s) == [t |-> "array", v |-> s]
PDict(x) == IF x.t = "dict" THEN x.v ELSE Empty
RefWellFormed(sd) ==
  CASE sd.F.t = "none"  -> sd.P.t = "none"
    [] sd.F.t = "name"  -> sd.P.t \in {"none", "null", "dict"}
    [] sd.F.t = "array" -> /\ \A i \in 1..Len(sd.F.v) : sd.F.v[i].t = "name"
                           /\ \/ sd.P.t \in {"none", "null"}
                              \/ /\ sd.P.t = "array" /\ Len(sd.P.v) = Len(sd.F.v)
                                 /\ \A i \in 1..Len(sd.P.v) : sd.P.v[i].t \in {"null", "dict"}
    [] OTHER -> FALSE
RefChain(sd) ==
  CASE sd.F.t = "none"  -> <<>>
    [] sd.F.t = "name"  -> << <<sd.F.v, PDict(sd.P)>> >>
    [] sd.F.t = "array" -> [i \in 1..Len(sd.F.v) |->
                              <<sd.F.v[i].v, IF sd.P.t = "array" THEN PDict(sd.P.v[i]) ELSE Empty>>]

\* insertFilter (filter.go); parms is a dictionary (Empty for nil), pos is the
\* 0-based position in the chain.  Writer.OpenStream inserts its i-th filter
\* at position base + i (base = 1 behind a leading /Crypt entry of the
\* caller's dictionary, else 0): the filters given to OpenStream come IN FRONT
\* of a chain the caller's dictionary already names, because they encode the
\* bytes the caller writes (which the caller's own chain describes).
DLen(x) == IF x.t = "dict" THEN Cardinality(DOMAIN x.v) ELSE 0
AsParm(parms) == IF parms = Empty THEN Null ELSE Dv(parms)
ImplInsert(sd, pos, name, parms) ==
  LET names == CASE sd.F.t = "name" -> <<sd.F>> [] sd.F.t = "array" -> sd.F.v [] OTHER -> <<>>
      n == Len(names)
      pp == [i \in 1..n |->
               IF sd.P.t = "dict" THEN (IF i = 1 THEN sd.P ELSE Null)
               ELSE IF sd.P.t = "array" /\ i <= Len(sd.P.v) THEN sd.P.v[i] ELSE Null]
      at == (IF pos < n THEN pos ELSE n) + 1
      names2 == InsertAt(names, at, Nm(name))
      pp2 == InsertAt(pp, at, AsParm(parms))
      needs == \E i \in 1..Len(pp2) : DLen(pp2[i]) > 0
  IN IF Len(names2) = 1
     THEN [F |-> names2[1], P |-> IF needs THEN Dv(parms) ELSE None]
     ELSE [F |-> Av(names2), P |-> IF needs THEN Av(pp2) ELSE None]
=============================================================================
