-------------------------- MODULE Gen_FilterParams --------------------------
(* Case table from the parameter algebra: every parameter struct of the      *)
(* bounded model at one PDF version (the shard), with the model's verdict on *)
(* validation, the name and dictionary Info must emit, and the struct        *)
(* MakeFilter must rebuild.  The harness executes each line on the real      *)
(* filter.go.  TIER selects the constant sets of MC_FilterParams.            *)
EXTENDS MC_FilterParams, Json, IOUtils, SequencesExt
CONSTANTS TIER, Ver

PS == IF TIER = "t" THEN T_PredSet ELSE Q_PredSet
CS == IF TIER = "t" THEN T_ColorSet ELSE Q_ColorSet
BS == IF TIER = "t" THEN T_BpcSet ELSE Q_BpcSet
WS == IF TIER = "t" THEN T_ColSet ELSE Q_ColSet
KS == IF TIER = "t" THEN T_KSet ELSE Q_KSet
CWS == IF TIER = "t" THEN T_CColSet ELSE Q_CColSet
RS == IF TIER = "t" THEN T_RowSet ELSE Q_RowSet
DS == IF TIER = "t" THEN T_DmgSet ELSE Q_DmgSet

KindObo == {<<"Flate", FALSE>>, <<"LZW", FALSE>>, <<"LZW", TRUE>>, <<"Compress", FALSE>>}
FLParams == {FL(ko[1], a, b, c, d, ko[2]) : ko \in KindObo, a \in PS, b \in CS, c \in BS, d \in WS}
\* CCITTFax validation does not look at the version: emitted in two shards only
CCParams == IF Ver \in {10, 17}
            THEN {CC(k, e[1], e[2], w, r, e[3], e[4], dm) : k \in KS, e \in BOOLEAN \X BOOLEAN \X BOOLEAN \X BOOLEAN,
                                                            w \in CWS, r \in RS, dm \in DS}
            ELSE {}
SFParams == IF Ver \in {10, 17} THEN {SF(k) : k \in Simple} ELSE {}

Line(p) ==
  IF ImplValid(p, Ver)
  THEN LET nd == ImplInfo(p, Ver)
       IN [p |-> p, v |-> Ver, valid |-> TRUE, name |-> nd.name, dict |-> nd.dict,
           norm |-> ImplNormalize(p, Ver), eff |-> RefEffective(p, Ver)]
  ELSE [p |-> p, v |-> Ver, valid |-> FALSE]

Lines(S) == LET q == SetToSeq(S) IN [i \in 1..Len(q) |-> Line(q[i])]
ASSUME ndJsonSerialize(IOEnv.OUT, Lines(FLParams) \o Lines(CCParams) \o Lines(SFParams))
GInit == st = [part |-> "gen"]
GNext == UNCHANGED st
=============================================================================
