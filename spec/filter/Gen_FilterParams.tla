-------------------------- MODULE Gen_FilterParams --------------------------
(* Case table from the parameter algebra: every parameter struct of the      *)
(* bounded model at one PDF version (the shard), with the model's verdict on *)
(* validation, the name and dictionary Info must emit, and the struct        *)
(* MakeFilter must rebuild.  The harness executes each line on the real      *)
(* filter.go.  TIER selects the constant sets of MC_FilterParams.            *)
EXTENDS MC_FilterParams, Json, IOUtils, SequencesExt
CONSTANTS TIER, Ver

PS == IF TIER = "t" THEN T_PredSet ELSE Q_PredSet
CS == IF TIER = "t" THEN T_ColorSet ELSE Q_ColorSet
BS == IF TIER = "t" THEN T_BpcSet ELSE Q_BpcSet
WS == IF TIER = "t" THEN T_ColSet ELSE Q_ColSet
KS == IF TIER = "t" THEN T_KSet ELSE Q_KSet
CWS == IF TIER = "t" THEN T_CColSet ELSE Q_CColSet
RS == IF TIER = "t" THEN T_RowSet ELSE Q_RowSet
DS == IF TIER = "t" THEN T_DmgSet ELSE Q_DmgSet

KindObo == {<<"Flate", FALSE>>, <<"LZW", FALSE>>, <<"LZW", TRUE>>, <<"Compress", FALSE>>}
FLParams == {FL(ko[1], a, b, c, d, ko[2]) : ko \in KindObo, a \in PS, b \in CS, c \in BS, d \in WS}
\* CCITTFax validation does not look at the version: emitted in two shards only
CCParams == IF Ver \in {10, 17}
            THEN {CC(k, e[1], e[2], w, r, e[3], e[4], dm) : k \in KS, e \in BOOLEAN \X BOOLEAN \X BOOLEAN \X BOOLEAN,
                                                            w \in CWS, r \in RS, dm \in DS}
            ELSE {}
SFParams == IF Ver \in {10, 17} THEN {SF(k) : k \in Simple} ELSE {}

\* the exact limits of every bounded parameter (all tiers): 2^20 and its
\* neighbours for Columns / Rows / DamagedRowsBeforeError, the component
\* limits of the predictors (60, 256), 16 bits, and rows as large as allowed
LimitVals == {MaxDim - 1, MaxDim, MaxDim + 1}
FLLimitTriples == ({1} \X {8} \X LimitVals) \cup ({60, 61, 256, 257, MaxDim} \X {8} \X {1})
                  \cup ({1} \X {16} \X {1, MaxDim}) \cup ({4} \X {16} \X {MaxDim}) \cup ({1} \X {1} \X LimitVals)
FLLimit == {FL(ko[1], pd, t[1], t[2], t[3], ko[2]) : ko \in KindObo, pd \in {2, 12, 15}, t \in FLLimitTriples}
CCLimitTriples == (LimitVals \X {0} \X {0}) \cup ({8} \X LimitVals \X {0}) \cup ({8} \X {0} \X LimitVals)
                  \cup ({MaxDim} \X {MaxDim} \X {MaxDim}) \cup ({MaxDim} \X {1, 2} \X {0})
CCLimit == IF Ver \in {10, 17}
           THEN {CC(k, FALSE, al, t[1], t[2], ie, FALSE, t[3]) : k \in {-1, 0, 3}, al \in BOOLEAN, ie \in BOOLEAN, t \in CCLimitTriples}
           ELSE {}

Line(p) ==
  IF ImplValid(p, Ver)
  THEN LET nd == ImplInfo(p, Ver)
       IN [p |-> p, v |-> Ver, valid |-> TRUE, name |-> nd.name, dict |-> nd.dict,
           norm |-> ImplNormalize(p, Ver), eff |-> RefEffective(p, Ver)]
  ELSE [p |-> p, v |-> Ver, valid |-> FALSE]

Lines(S) == LET q == SetToSeq(S) IN [i \in 1..Len(q) |-> Line(q[i])]
ASSUME ndJsonSerialize(IOEnv.OUT, Lines(FLParams \cup FLLimit) \o Lines(CCParams \cup CCLimit) \o Lines(SFParams))
GInit == st = [part |-> "gen"]
GNext == UNCHANGED st
=============================================================================
