------------------------------- MODULE AsciiHex -------------------------------
(* ASCIIHexDecode (ISO 32000-1 7.4.2): two hexadecimal digits (either case)   *)
(* per byte, white space ignored, '>' is EOD; an odd number of digits behaves *)
(* as if a 0 followed the last digit; any other character is an error.        *)
(* Bytes are numbers 0..255.                                                  *)
EXTENDS Naturals, Sequences

WhiteSpace == {0, 9, 10, 12, 13, 32}            \* ISO 32000-1 Table 1
EOD == 62                                       \* '>'
IsDigit(c) == (c >= 48 /\ c <= 57) \/ (c >= 65 /\ c <= 70) \/ (c >= 97 /\ c <= 102)
DigitVal(c) == IF c <= 57 THEN c - 48 ELSE IF c <= 70 THEN c - 55 ELSE c - 87

(* Ref: decoder.  st = "eod" | "noeod" (input ends without '>') | "bad"       *)
(* (illegal character); data = the bytes decoded up to that point; a pending  *)
(* odd digit is only completed by EOD.                                        *)
\* one character: q = [st, i, hi, acc]; hi = 16 when no digit is pending,
\* else the pending digit's value; st = "run" while decoding
RefStep(s, q) ==
  IF q.i > Len(s) THEN [q EXCEPT !.st = "noeod"]
  ELSE LET c == s[q.i] IN
    IF c \in WhiteSpace THEN [q EXCEPT !.i = @ + 1]
    ELSE IF c = EOD THEN [q EXCEPT !.st = "eod", !.acc = IF q.hi < 16 THEN Append(@, q.hi * 16) ELSE @]
    ELSE IF IsDigit(c)
      THEN (IF q.hi = 16 THEN [q EXCEPT !.i = @ + 1, !.hi = DigitVal(c)]
            ELSE [q EXCEPT !.i = @ + 1, !.hi = 16, !.acc = Append(@, q.hi * 16 + DigitVal(c))])
      ELSE [q EXCEPT !.st = "bad"]
\* iterate until the state leaves "run" (two levels: shallow evaluation stack in TLC)
RECURSIVE RefSteps(_, _, _)
RefSteps(s, q, n) == IF n = 0 \/ q.st # "run" THEN q ELSE RefSteps(s, RefStep(s, q), n - 1)
RECURSIVE RefLoop(_, _)
RefLoop(s, q) == IF q.st # "run" THEN q ELSE RefLoop(s, RefSteps(s, q, 64))
RefDecode(s) == LET q == RefLoop(s, [st |-> "run", i |-> 1, hi |-> 16, acc |-> <<>>]) IN [st |-> q.st, data |-> q.acc]
RefIsEncodingOf(enc, data) == RefDecode(enc) = [st |-> "eod", data |-> data]

(* Impl: internal/filter/asciihex/write.go -- lower case digits, a line feed  *)
(* after every 39 bytes when more data follows, then '>'.                     *)
Lower(v) == IF v < 10 THEN 48 + v ELSE 87 + v
Upper(v) == IF v < 10 THEN 48 + v ELSE 55 + v
ImplEncode(xs) ==
  LET RECURSIVE E(_)
      E(i) == IF i > Len(xs) THEN <<EOD>>
              ELSE (IF i > 1 /\ (i - 1) % 39 = 0 THEN <<10>> ELSE <<>>)
                   \o <<Lower(xs[i] \div 16), Lower(xs[i] % 16)>> \o E(i + 1)
  IN E(1)

(* other legal encoders: upper case / mixed case, white space between and     *)
(* inside pairs, odd digit count for a last byte whose low nibble is 0        *)
EncVariant(xs, variant) ==
  LET D(v, i) == CASE variant = "upper" -> Upper(v)
                   [] variant = "mixed" -> IF i % 2 = 0 THEN Upper(v) ELSE Lower(v)
                   [] OTHER -> Lower(v)
      WsAt(i) == <<32, 10, 13, 9, 12, 0>>[(i % 6) + 1]
      Sp(i) == CASE variant = "spaced" -> <<WsAt(i)>> [] OTHER -> <<>>
      RECURSIVE E(_)
      E(i) == IF i > Len(xs) THEN Sp(i) \o <<EOD>>
              ELSE IF i = Len(xs) /\ variant = "odd" /\ xs[i] % 16 = 0 THEN <<D(xs[i] \div 16, i), EOD>>
              ELSE Sp(i) \o <<D(xs[i] \div 16, i)>> \o Sp(i + 1) \o <<D(xs[i] % 16, i + 1)>> \o E(i + 1)
  IN E(1)
Variants == {"lower", "upper", "mixed", "spaced", "odd"}

(* line wrapped encodings: the digits (case by position, optionally an odd    *)
(* final digit) with the white space sequence ws inserted after every width   *)
(* characters -- at an odd width the white space falls BETWEEN the two digits *)
(* of a byte at every second line, and the low digit is directly followed by  *)
(* the next byte's digits.                                                    *)
EncWrapped(xs, width, ws, mixed, odd) ==
  LET D(v, i) == IF mixed /\ i % 3 = 0 THEN Upper(v) ELSE Lower(v)
      dropLast == odd /\ Len(xs) > 0 /\ xs[Len(xs)] % 16 = 0
      nd == 2 * Len(xs) - (IF dropLast THEN 1 ELSE 0)
      Digit(j) == LET x == xs[(j + 1) \div 2] IN IF j % 2 = 1 THEN D(x \div 16, j) ELSE D(x % 16, j)
      RECURSIVE E(_)
      E(j) == IF j > nd THEN <<EOD>>
              ELSE <<Digit(j)>> \o (IF j % width = 0 /\ j < nd THEN ws ELSE <<>>) \o E(j + 1)
  IN E(1)
WrapWidths == {1, 2, 3, 63, 64, 75, 255}
WrapSpaces == {<<32>>, <<10>>, <<13, 10>>, <<9>>, <<12>>, <<0>>}
=============================================================================
