------------------------------- MODULE Ascii85 -------------------------------
(* ASCII85Decode (ISO 32000-1 7.4.3): groups of five characters '!'..'u'      *)
(* (base 85, most significant first) stand for four bytes; 'z' alone stands   *)
(* for four zero bytes and may not occur inside a group; white space is       *)
(* ignored; "~>" is EOD; a final partial group of n+1 characters (n = 1..3)   *)
(* stands for n bytes (the group is completed with 'u's, the first n bytes of *)
(* the result count); a final group of one character, a group value above     *)
(* 2^32-1 and any other character are errors.                                 *)
(* TLC integers are 32 bit signed, so a group value is kept as four base-256  *)
(* digits and all arithmetic is done digit by digit.                          *)
EXTENDS Naturals, Sequences

WhiteSpace == {0, 9, 10, 12, 13, 32}
Tilde == 126
Gt == 62
Zed == 122
IsDigit(c) == c >= 33 /\ c <= 117

\* b = <<b1, b2, b3, b4>> big endian; result <<carry, b'>> of b * 85 + c
MulAdd(b, c) ==
  LET t4 == b[4] * 85 + c
      t3 == b[3] * 85 + t4 \div 256
      t2 == b[2] * 85 + t3 \div 256
      t1 == b[1] * 85 + t2 \div 256
  IN <<t1 \div 256, <<t1 % 256, t2 % 256, t3 % 256, t4 % 256>> >>
\* b \div 85 and b % 85
DivMod(b) ==
  LET c1 == b[1]                    q1 == c1 \div 85
      c2 == (c1 % 85) * 256 + b[2]  q2 == c2 \div 85
      c3 == (c2 % 85) * 256 + b[3]  q3 == c3 \div 85
      c4 == (c3 % 85) * 256 + b[4]  q4 == c4 \div 85
  IN << <<q1, q2, q3, q4>>, c4 % 85 >>
Zero4 == <<0, 0, 0, 0>>

(* Ref: decoder.  st = "eod" | "noeod" | "bad"; data = bytes of the complete  *)
(* groups decoded before the point of failure.                                *)
\* one character: q = [st, i, k, v, acc] -- k digits of the current group
\* collected in v; st = "run" while decoding
RefStep(s, q) ==
  IF q.i > Len(s) THEN [q EXCEPT !.st = "noeod"]
  ELSE LET c == s[q.i] IN
    IF c \in WhiteSpace THEN [q EXCEPT !.i = @ + 1]
    ELSE IF IsDigit(c) THEN
      LET m == MulAdd(q.v, c - 33) IN
      IF m[1] # 0 THEN [q EXCEPT !.st = "bad"]                         \* above 2^32 - 1
      ELSE IF q.k = 4 THEN [q EXCEPT !.i = @ + 1, !.k = 0, !.v = Zero4, !.acc = @ \o m[2]]
      ELSE [q EXCEPT !.i = @ + 1, !.k = @ + 1, !.v = m[2]]
    ELSE IF c = Zed /\ q.k = 0 THEN [q EXCEPT !.i = @ + 1, !.acc = @ \o Zero4]
    ELSE IF c = Tilde THEN
      \* EOD: '>' must follow at once ("~>" is one marker)
      (IF q.i + 1 > Len(s) \/ s[q.i + 1] # Gt THEN [q EXCEPT !.st = "bad"]
       ELSE IF q.k = 0 THEN [q EXCEPT !.st = "eod"]
       ELSE IF q.k = 1 THEN [q EXCEPT !.st = "bad"]
       ELSE LET RECURSIVE Pad(_, _)
                Pad(j, w) == IF j = 5 THEN <<0, w>> ELSE
                             LET mm == MulAdd(w, 84) IN IF mm[1] # 0 THEN <<1, w>> ELSE Pad(j + 1, mm[2])
                p == Pad(q.k, q.v)
            IN IF p[1] # 0 THEN [q EXCEPT !.st = "bad"]
               ELSE [q EXCEPT !.st = "eod", !.acc = @ \o SubSeq(p[2], 1, q.k - 1)])
    ELSE [q EXCEPT !.st = "bad"]
\* iterate until the state leaves "run" (two levels: shallow evaluation stack in TLC)
RECURSIVE RefSteps(_, _, _)
RefSteps(s, q, n) == IF n = 0 \/ q.st # "run" THEN q ELSE RefSteps(s, RefStep(s, q), n - 1)
RECURSIVE RefLoop(_, _)
RefLoop(s, q) == IF q.st # "run" THEN q ELSE RefLoop(s, RefSteps(s, q, 64))
RefDecode(s) == LET q == RefLoop(s, [st |-> "run", i |-> 1, k |-> 0, v |-> Zero4, acc |-> <<>>]) IN [st |-> q.st, data |-> q.acc]
RefIsEncodingOf(enc, data) == RefDecode(enc) = [st |-> "eod", data |-> data]

\* the five digits of a four byte group, most significant first
Digits(b) ==
  LET d5 == DivMod(b) d4 == DivMod(d5[1]) d3 == DivMod(d4[1]) d2 == DivMod(d3[1]) d1 == DivMod(d2[1])
  IN <<33 + d1[2], 33 + d2[2], 33 + d3[2], 33 + d4[2], 33 + d5[2]>>
Group(xs, i) == [j \in 1..4 |-> IF i + j - 1 <= Len(xs) THEN xs[i + j - 1] ELSE 0]

(* Impl: internal/filter/ascii85/ascii85.go writer -- 'z' for a zero group,   *)
(* a line feed before a group when the line holds 73 characters or more,      *)
(* partial group of n bytes as n+1 characters, then "~>".                     *)
ImplEncode(xs) ==
  LET RECURSIVE E(_, _)
      E(i, col) ==
        IF i > Len(xs) THEN <<Tilde, Gt>>
        ELSE IF i + 3 <= Len(xs)
          THEN LET g == Group(xs, i)
                   nl == col >= 73
                   txt == IF g = Zero4 THEN <<Zed>> ELSE Digits(g)
               IN (IF nl THEN <<10>> ELSE <<>>) \o txt \o E(i + 4, (IF nl THEN 0 ELSE col) + Len(txt))
          ELSE LET n == Len(xs) - i + 1 IN SubSeq(Digits(Group(xs, i)), 1, n + 1) \o <<Tilde, Gt>>
  IN E(1, 0)

(* other legal encoders: no 'z' shortcut; white space inside groups           *)
EncVariant(xs, variant) ==
  LET WsAt(i) == <<32, 10, 13, 9, 12, 0>>[(i % 6) + 1]
      Spread(txt, i) == IF variant = "spaced" /\ Len(txt) >= 3
                        THEN SubSeq(txt, 1, 2) \o <<WsAt(i)>> \o SubSeq(txt, 3, Len(txt)) \o <<WsAt(i + 1)>>
                        ELSE txt
      RECURSIVE E(_)
      E(i) ==
        IF i > Len(xs) THEN <<Tilde, Gt>>
        ELSE IF i + 3 <= Len(xs)
          THEN LET g == Group(xs, i)
                   txt == IF g = Zero4 /\ variant = "z" THEN <<Zed>> ELSE Digits(g)
               IN Spread(txt, i) \o E(i + 4)
          ELSE LET n == Len(xs) - i + 1 IN Spread(SubSeq(Digits(Group(xs, i)), 1, n + 1), i) \o <<Tilde, Gt>>
  IN E(1)
Variants == {"z", "noz", "spaced"}
=============================================================================
