SPECIFICATION Spec
CONSTANTS
  MaxUnits = 4
  RowUnits = 2
  RowStage = 1
  Stages = 2
  MaxRead = 2
  MaxZero = 1
  BREAK = "none"
INVARIANTS ConservationW ConservationR FIFO EOFLast FileComplete NoStuck SchedOK
CHECK_DEADLOCK FALSE
