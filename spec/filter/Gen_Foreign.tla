---------------------------- MODULE Gen_Foreign ----------------------------
(* Foreign encodings: legal encodings of the five specified formats that the *)
(* library's own encoders never produce, generated from the format modules.  *)
(* The library's Filter.Decode must return the data.                         *)
(*   RunLength: every byte as a literal run of one; literal runs of 3 and of *)
(*              128; every run of equal bytes (also of length 2) as a repeat *)
(*   ASCIIHex:  upper / mixed case, white space between and inside pairs,    *)
(*              odd digit count; lines wrapped at odd and even widths (1, 2, *)
(*              3, 63, 64, 75, 255) with SP, LF, CR LF, TAB, FF or NUL, so   *)
(*              that white space splits the two digits of a byte at every    *)
(*              position parity, mixed with case and an odd final digit      *)
(*   ASCII85:   no 'z' shortcut, white space inside groups                   *)
(*   LZW:       literals only with a clear code every 7 codes; literals only *)
(*              with a growing code length (both EarlyChange settings); a    *)
(*              deferred clear code (table filled, the last entry used       *)
(*              repeatedly with the frozen table, then clear)                *)
(*   PNG:       a different filter type on every row; TIFF predictor 2       *)
EXTENDS Naturals, Sequences, FiniteSets, TLC, Json, IOUtils, SequencesExt
CONSTANTS TIER

RL  == INSTANCE RunLength
AH  == INSTANCE AsciiHex
A85 == INSTANCE Ascii85
PR  == INSTANCE Predictor
LZ  == INSTANCE Lzw

Lcg(seed, n) == LET RECURSIVE G(_, _, _)
                    G(i, x, acc) == IF i > n THEN acc
                                    ELSE LET y == (x * 75 + 74) % 65537 IN G(i + 1, y, Append(acc, y % 256))
                IN G(1, seed + 1, <<>>)
RECURSIVE Expand(_)
Expand(rs) == IF rs = <<>> THEN <<>> ELSE [k \in 1..Head(rs)[2] |-> Head(rs)[1]] \o Expand(Tail(rs))
Big == TIER = "t"

\* ---- RunLength
RLCounts == IF Big THEN {1, 2, 3, 127, 128, 129, 130, 257} ELSE {1, 2, 3, 127, 128, 129}
RLRuns == UNION {[1..k -> ({7, 200} \X RLCounts)] : k \in 0..2}
RLInputs == {Expand(r) : r \in RLRuns} \cup {Lcg(s, n) : s \in {1, 2}, n \in {1, 5, 128, 129, 300}}
RLCases == UNION {{ [fmt |-> "rl", variant |-> "singles", data |-> x, enc |-> RL!EncSingles(x)],
                    [fmt |-> "rl", variant |-> "literals3", data |-> x, enc |-> RL!EncLiterals(x, 3)],
                    [fmt |-> "rl", variant |-> "literals128", data |-> x, enc |-> RL!EncLiterals(x, 128)],
                    [fmt |-> "rl", variant |-> "repeats", data |-> x, enc |-> RL!EncRepeats(x)] } : x \in RLInputs}

\* ---- ASCIIHex / ASCII85
Small == UNION {[1..n -> {0, 16, 255}] : n \in 0..(IF Big THEN 5 ELSE 4)}
         \cup {Lcg(s, n) : s \in {1, 2}, n \in {7, 8, 9, 39, 40, 79, 80, 81}}
         \cup {[i \in 1..n |-> IF (i \div 4) % 2 = 0 THEN 0 ELSE i] : n \in {8, 11, 12, 13, 84}}
AHCases == {[fmt |-> "ah", variant |-> v, data |-> x, enc |-> AH!EncVariant(x, v)] : x \in Small, v \in AH!Variants \ {"lower"}}
AHWrapInputs == IF Big THEN {Lcg(s, n) : s \in {3, 4}, n \in {2, 5, 40, 130}} \cup {[i \in 1..131 |-> (i * 16) % 256]}
                ELSE {Lcg(3, 5), Lcg(3, 40), Lcg(4, 130)}
AHWrapCases == {[fmt |-> "ah", variant |-> "wrapped", data |-> x, enc |-> AH!EncWrapped(x, w, ws, mo[1], mo[2])]
                  : x \in AHWrapInputs, w \in AH!WrapWidths, ws \in AH!WrapSpaces,
                    mo \in (IF Big THEN BOOLEAN \X BOOLEAN ELSE {<<TRUE, TRUE>>, <<FALSE, FALSE>>})}
A85Cases == {[fmt |-> "a85", variant |-> v, data |-> x, enc |-> A85!EncVariant(x, v)] : x \in Small, v \in {"noz", "spaced"}}

\* ---- LZW
LzwInputs == {Lcg(s, n) : s \in {1, 2}, n \in {0, 1, 2, 9, 253, 254, 255, 256, 257, 300} \cup (IF Big THEN {765, 766, 767, 768, 1791} ELSE {})}
             \cup {[i \in 1..n |-> 65] : n \in {1, 2, 3, 600}}
LzwCases == UNION {{ [fmt |-> "lzw", variant |-> "clear7", early |-> e, data |-> x, enc |-> LZ!EncLiteralsClear(x, 7)],
                     [fmt |-> "lzw", variant |-> "grow", early |-> e, data |-> x, enc |-> LZ!EncLiteralsGrow(x, e)] }
                   : x \in LzwInputs, e \in {0, 1}}
            \cup {[fmt |-> "lzw", variant |-> "deferred-clear-tlc", early |-> e,
                   data |-> LZ!DeferredData(Lcg(7, 3845), e, r, Lcg(8, 5)),
                   enc |-> LZ!EncDeferredClear(Lcg(7, 3845), e, r, Lcg(8, 5))] : e \in {0, 1}, r \in (IF Big THEN {1, 2, 3} ELSE {3})}

\* ---- predictors
PrParams == {[pred |-> pd, colors |-> c, bpc |-> b, cols |-> w] :
               pd \in {2, 12}, c \in {1, 3}, b \in {1, 2, 4, 8, 16}, w \in (IF Big THEN {1, 2, 5, 9} ELSE {1, 5})}
PrCases == UNION {{ IF p.pred = 2
                    THEN [fmt |-> "pr", variant |-> "tiff", p |-> p, data |-> Lcg(s, 3 * PR!RowBytes(p)),
                          enc |-> PR!TiffEncode(p, Lcg(s, 3 * PR!RowBytes(p)))]
                    ELSE LET T(r) == (r + s) % 5 IN
                         [fmt |-> "pr", variant |-> "png-rotating", p |-> p, data |-> Lcg(s, 5 * PR!RowBytes(p)),
                          enc |-> PR!PngEncode(p, Lcg(s, 5 * PR!RowBytes(p)), T)] } : p \in PrParams, s \in {0, 1, 2}}

All == SetToSeq(RLCases) \o SetToSeq(AHCases) \o SetToSeq(AHWrapCases) \o SetToSeq(A85Cases) \o SetToSeq(LzwCases) \o SetToSeq(PrCases)
ASSUME ndJsonSerialize(IOEnv.OUT, All)
VARIABLE x
Init == x = 0
Next == UNCHANGED x
=============================================================================
