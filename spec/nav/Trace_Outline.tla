---------------------------- MODULE Trace_Outline ----------------------------
(* Judges what the real outline writer and reader did, with OutlineRef only  *)
(* (no Impl-shaped operator).  One record per real execution:                *)
(*  kind "written": tree  the outline handed to outline.Outline.Encode       *)
(*                        (pre-order, [p, o]; the title of item i is i),     *)
(*                  file  the outline dictionaries found in the closed file  *)
(*                        by the independent strict parser (OutlineRef),     *)
(*                  dec   what outline.Decode returned for that file         *)
(*                        (pre-order, [t, p, o]), decok its success          *)
(*  kind "foreign": file  a conforming outline as handed to the independent  *)
(*                        serialiser, dec/decok the real reader's answer     *)
(* "clause" selects one clause ("all": every clause of the kind).            *)
EXTENDS OutlineRef, TraceLib
Cases == Records

WClauses == <<"tree", "counts", "means", "decoded">>
WClauseOK(c, name) ==
  CASE name = "tree"    -> TreeOK(c.file)
    [] name = "counts"  -> TreeOK(c.file) => CountsOK(c.file)
    [] name = "means"   -> TreeOK(c.file) => SameTree(RefTree(c.file), Norm(c.tree))
    [] name = "decoded" -> c.decok /\ SameTree(c.dec, Norm(c.tree))
    [] OTHER -> TRUE
FClauses == <<"premise", "r_decoded">>
FClauseOK(c, name) ==
  CASE name = "premise"   -> Valid(c.file)
    [] name = "r_decoded" -> Valid(c.file) => c.decok /\ SameTree(c.dec, RefTree(c.file))
    [] OTHER -> TRUE
CaseOK(c) ==
  IF c.kind = "written"
  THEN IF c.clause = "all" THEN \A j \in 1..Len(WClauses) : WClauseOK(c, WClauses[j]) ELSE WClauseOK(c, c.clause)
  ELSE IF c.clause = "all" THEN \A j \in 1..Len(FClauses) : FClauseOK(c, FClauses[j]) ELSE FClauseOK(c, c.clause)

VARIABLES i, bad, done
vars == <<i, bad, done>>
Init == i = 1 /\ bad = <<>> /\ done = FALSE
Step == /\ i <= Len(Cases)
        /\ i' = i + 1
        /\ bad' = IF CaseOK(Cases[i]) THEN bad ELSE Append(bad, i)
        /\ UNCHANGED done
Finish == /\ i = Len(Cases) + 1 /\ ~done
          /\ done' = TRUE
          /\ WriteVerdict(bad)
          /\ UNCHANGED <<i, bad>>
Next == Step \/ Finish
Spec == Init /\ [][Next]_vars
=============================================================================
