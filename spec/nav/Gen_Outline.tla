----------------------------- MODULE Gen_Outline -----------------------------
(* Case generator: every outline within the bounds of the configuration is   *)
(* one state of Outline!Spec; each is written once to IOEnv.OUT together     *)
(* with the file the model's writer produces for it.  The harness builds the *)
(* outline with outline.Outline.AddItem / Item.AddChild, writes it with the  *)
(* real Writer and hands what it finds in the file to Trace_Outline; it also *)
(* renders the same outlines as foreign files (independent serialiser) for   *)
(* the real reader.                                                          *)
EXTENDS Outline, Json, IOUtils, CSV
GenNext == \E par \in 0..MaxItems, o \in BOOLEAN :
             /\ Add(par, o)
             /\ CSVWrite("%1$s", <<ToJson([tree |-> tree', file |-> ImplEncode(tree')])>>, IOEnv.OUT)
GenSpec == Init /\ [][GenNext]_vars
=============================================================================
