SPECIFICATION GenSpec
CONSTANTS MaxN = 1
  MaxPage = 7
  Bug = "none"
CHECK_DEADLOCK FALSE
