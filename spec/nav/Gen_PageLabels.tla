--------------------------- MODULE Gen_PageLabels ---------------------------
(* Case generator: every labelling of PageLabels!Spec (one to three ranges)  *)
(* is written once to IOEnv.OUT with the label of every page 0..MaxPage the  *)
(* reference gives.  The harness builds the labelling with pagelabel.New,    *)
(* embeds it into a real file, extracts it again and asks Labels.Format.     *)
EXTENDS PageLabels, Json, IOUtils, CSV
Out(rs) == [ranges |-> rs, labels |-> [p \in 1..(MaxPage + 1) |-> RefLabel(rs, p - 1)]]
GenInit == Init /\ CSVWrite("%1$s", <<ToJson(Out(ranges))>>, IOEnv.OUT)
GenNext == /\ AddRange
           /\ CSVWrite("%1$s", <<ToJson(Out(ranges'))>>, IOEnv.OUT)
GenSpec == GenInit /\ [][GenNext]_vars
=============================================================================
