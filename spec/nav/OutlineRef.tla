----------------------------- MODULE OutlineRef -----------------------------
(* Reference semantics of the document outline, written from ISO 32000-2    *)
(* 12.3.3 (Tables 150 and 151) and from nothing in go-pdf.                  *)
(*                                                                          *)
(* An abstract outline is a sequence of items in pre-order,                 *)
(*     [p |-> index of the parent item (0: top level), o |-> open?]         *)
(* (the title of item i is i).  A file is                                   *)
(*     [root  |-> [first, last, hc, c],                                     *)
(*      nodes |-> << [t, parent, prev, next, first, last, hc, c], ... >>]   *)
(* with links given as node indices: 0 = entry absent, -1 = a reference to  *)
(* something that is not an outline item of this record; parent = 0 names   *)
(* the outline root; hc = the entry /Count is present, c its value.         *)
EXTENDS Integers, Sequences, FiniteSets

N(f) == Len(f.nodes)
FirstOf(f, p) == IF p = 0 THEN f.root.first ELSE f.nodes[p].first
LastOf(f, p) == IF p = 0 THEN f.root.last ELSE f.nodes[p].last

\* the sibling list that starts at node i, following /Next; cut after fuel items
RECURSIVE Chain(_, _, _)
Chain(f, i, fuel) ==
  IF i <= 0 \/ i > N(f) \/ fuel = 0 THEN <<>>
  ELSE <<i>> \o Chain(f, f.nodes[i].next, fuel - 1)
Kids(f, p) == Chain(f, FirstOf(f, p), N(f) + 1)

Distinct(q) == \A a, b \in 1..Len(q) : a # b => q[a] # q[b]
RECURSIVE Up(_, _, _)
Up(f, i, fuel) == IF i = 0 THEN TRUE ELSE IF fuel = 0 \/ i < 0 \/ i > N(f) THEN FALSE
                  ELSE Up(f, f.nodes[i].parent, fuel - 1)

\* 12.3.3: First/Last/Next/Prev/Parent describe one doubly linked list of
\* children per item, and the items form a tree below the root
LinksOK(f, p) ==
  LET ch == Kids(f, p) IN
  /\ Len(ch) <= N(f) /\ Distinct(ch)
  /\ (FirstOf(f, p) = 0) = (LastOf(f, p) = 0)
  /\ FirstOf(f, p) # 0 => /\ ch # <<>>
                          /\ FirstOf(f, p) = ch[1] /\ LastOf(f, p) = ch[Len(ch)]
                          /\ f.nodes[ch[1]].prev = 0
                          /\ f.nodes[ch[Len(ch)]].next = 0
  /\ \A j \in 1..Len(ch) : f.nodes[ch[j]].parent = p
  /\ \A j \in 2..Len(ch) : f.nodes[ch[j]].prev = ch[j - 1]
IsIn(q, x) == \E j \in 1..Len(q) : q[j] = x
TreeOK(f) ==
  /\ \A p \in 0..N(f) : LinksOK(f, p)
  /\ \A i \in 1..N(f) : /\ f.nodes[i].parent \in 0..N(f)
                        /\ Up(f, i, N(f) + 1)
                        /\ IsIn(Kids(f, f.nodes[i].parent), i)

\* Table 151, /Count: an item is open iff its /Count is positive
IsOpen(f, i) == f.nodes[i].hc /\ f.nodes[i].c > 0
\* descendants that are visible when item p (0: the root) is open; only
\* evaluated on files that passed TreeOK
RECURSIVE Vis(_, _)
Vis(f, p) ==
  LET ch == Kids(f, p)
      RECURSIVE Sum(_)
      Sum(n) == IF n = 0 THEN 0
                ELSE 1 + (IF IsOpen(f, ch[n]) THEN Vis(f, ch[n]) ELSE 0) + Sum(n - 1)
  IN Sum(Len(ch))
ItemCountOK(f, i) ==
  IF Kids(f, i) = <<>> THEN ~f.nodes[i].hc \/ f.nodes[i].c = 0
  ELSE f.nodes[i].hc /\ (f.nodes[i].c = Vis(f, i) \/ f.nodes[i].c = 0 - Vis(f, i))
AnyOpen(f) == \E i \in 1..N(f) : IsOpen(f, i)
\* Table 150, /Count: required if any item is open, omitted otherwise
RootCountOK(f) ==
  /\ AnyOpen(f) => f.root.hc
  /\ f.root.hc => AnyOpen(f) /\ f.root.c = Vis(f, 0)
CountsOK(f) == RootCountOK(f) /\ \A i \in 1..N(f) : ItemCountOK(f, i)

Valid(f) == TreeOK(f) /\ CountsOK(f)

\* what a file means: its items in pre-order (only on files that passed TreeOK)
\* flat pre-order with parent positions: a work list of (node, position of its parent)
RECURSIVE Walk(_, _, _)
Walk(f, todo, acc) ==
  IF todo = <<>> THEN acc
  ELSE LET h == Head(todo)
           me == Len(acc) + 1
           ch == Kids(f, h.n)
           sub == [j \in 1..Len(ch) |-> [n |-> ch[j], p |-> me]]
       IN Walk(f, sub \o Tail(todo), Append(acc, [t |-> f.nodes[h.n].t, p |-> h.p, o |-> IsOpen(f, h.n)]))
RefTree(f) == LET ch == Kids(f, 0) IN Walk(f, [j \in 1..Len(ch) |-> [n |-> ch[j], p |-> 0]], <<>>)

\* an abstract outline as a file would describe it: titles 1..n in
\* pre-order, "open" only means something for an item with children
HasKids(tr, i) == \E j \in 1..Len(tr) : tr[j].p = i
Norm(tr) == [i \in 1..Len(tr) |-> [t |-> i, p |-> tr[i].p, o |-> tr[i].o /\ HasKids(tr, i)]]
SameTree(a, b) == Len(a) = Len(b) /\ \A i \in 1..Len(a) : a[i].t = b[i].t /\ a[i].p = b[i].p /\ a[i].o = b[i].o
=============================================================================
