----------------------------- MODULE PageLabels -----------------------------
(* Page labels (ISO 32000-2 12.4.2, Table 161) and go-pdf's pagelabel         *)
(* package.  A labelling is a sequence of ranges                              *)
(*     [first |-> page index of the first page, style, prefix, start]         *)
(* sorted by first, the first range starting at page 0; style is one of       *)
(* "D" (decimal), "R" / "r" (upper / lower-case Roman), "A" / "a" (letters:   *)
(* A..Z, AA..ZZ, ...), "-" (no numeric portion).  Texts are sequences of      *)
(* character codes.                                                           *)
(*   Ref...   the standard's wording: Roman numerals digit by digit           *)
(*            (thousands, hundreds, tens, units), letters as (n-1) mod 26     *)
(*            repeated (n-1) div 26 + 1 times, the range of a page found by   *)
(*            a linear scan                                                   *)
(*   Impl...  pagelabel/format.go and Labels.RangeAt as written: the greedy   *)
(*            table of thirteen numerals, the binary search                   *)
(* Bug is a mutation switch for the negative controls.                        *)
EXTENDS Integers, Sequences
CONSTANTS MaxN, MaxPage, Bug

RECURSIVE DecText(_)
DecText(n) == IF n < 10 THEN <<48 + n>> ELSE DecText(n \div 10) \o <<48 + (n % 10)>>

\* ---- Roman numerals -----------------------------------------------------
I == 105  V == 118  X == 120  L == 108  C == 99  D == 100  M == 109
RECURSIVE Rep(_, _)
Rep(ch, k) == IF k = 0 THEN <<>> ELSE <<ch>> \o Rep(ch, k - 1)
\* one decimal digit d written with the symbols for 1, 5 and 10 of its place
Digit(d, one, five, ten) ==
  CASE d <= 3 -> Rep(one, d)
    [] d = 4  -> <<one, five>>
    [] d <= 8 -> <<five>> \o Rep(one, d - 5)
    [] OTHER  -> <<one, ten>>
RefRoman(n) == Rep(M, n \div 1000) \o Digit((n \div 100) % 10, C, D, M)
               \o Digit((n \div 10) % 10, X, L, C) \o Digit(n % 10, I, V, X)

RomanTable == << <<1000, <<M>>>>, <<900, <<C, M>>>>, <<500, <<D>>>>, <<400, <<C, D>>>>, <<100, <<C>>>>, <<90, <<X, C>>>>,
                 <<50, <<L>>>>, <<40, <<X, L>>>>, <<10, <<X>>>>, <<9, <<I, X>>>>, <<5, <<V>>>>, <<4, <<I, V>>>>, <<1, <<I>>>> >>
RECURSIVE Greedy(_, _)
Greedy(n, k) ==
  IF k > Len(RomanTable) THEN <<>>
  ELSE IF n >= RomanTable[k][1] /\ ~(Bug = "noNine" /\ RomanTable[k][1] = 9)
       THEN RomanTable[k][2] \o Greedy(n - RomanTable[k][1], k)
       ELSE Greedy(n, k + 1)
ImplRoman(n) == IF n < 1 \/ n > 3999 THEN DecText(n) ELSE Greedy(n, 1)

\* ---- letters ------------------------------------------------------------
RefAlpha(n) == Rep(97 + ((n - 1) % 26), ((n - 1) \div 26) + 1)
ImplAlpha(n) == IF n < 1 THEN DecText(n)
                ELSE LET repeat == (IF Bug = "alphaOffByOne" THEN n ELSE n - 1) \div 26 + 1
                     IN Rep(97 + ((n - 1) % 26), repeat)

Upper(t) == [k \in 1..Len(t) |-> IF t[k] >= 97 /\ t[k] <= 122 THEN t[k] - 32 ELSE t[k]]
Numeric(style, n, roman(_), alpha(_)) ==
  CASE style = "D" -> DecText(n)
    [] style = "R" -> Upper(roman(n))
    [] style = "r" -> roman(n)
    [] style = "A" -> Upper(alpha(n))
    [] style = "a" -> alpha(n)
    [] OTHER -> <<>>

\* ---- the range of a page ------------------------------------------------
RECURSIVE RefRangeFrom(_, _, _)
RefRangeFrom(rs, page, k) ==       \* the last range whose first page is <= page
  IF k = 0 THEN 0 ELSE IF rs[k].first <= page THEN k ELSE RefRangeFrom(rs, page, k - 1)
RefRange(rs, page) == RefRangeFrom(rs, page, Len(rs))
\* slices.BinarySearchFunc: the smallest index whose first page is >= page
RECURSIVE Bsearch(_, _, _, _)
Bsearch(rs, page, lo, hi) ==
  IF lo >= hi THEN lo
  ELSE LET mid == (lo + hi) \div 2
       IN IF rs[mid + 1].first < page THEN Bsearch(rs, page, mid + 1, hi) ELSE Bsearch(rs, page, lo, mid)
ImplRange(rs, page) ==
  LET i == Bsearch(rs, page, 0, Len(rs))          \* 0-based insertion point
  IN IF i < Len(rs) /\ rs[i + 1].first = page /\ Bug # "exactHitOff" THEN i + 1 ELSE i

RefLabel(rs, page) ==
  LET k == RefRange(rs, page) IN
  IF k = 0 THEN DecText(page + 1)
  ELSE rs[k].prefix \o Numeric(rs[k].style, rs[k].start + (page - rs[k].first), RefRoman, RefAlpha)
ImplLabel(rs, page) ==
  LET k == ImplRange(rs, page) IN
  IF k = 0 THEN DecText(page + 1)
  ELSE rs[k].prefix \o Numeric(rs[k].style, rs[k].start + (page - rs[k].first), ImplRoman, ImplAlpha)

\* ---- what TLC checks: a state machine that grows a labelling range by
\* range and walks the numbers
VARIABLES ranges, n
vars == <<ranges, n>>
Styles == {"D", "R", "r", "A", "a", "-"}
Prefixes == {<<>>, <<65, 45>>}
Starts == {1, 2, 26, 27, 52, 53}
Init == /\ \E st \in Styles, pf \in Prefixes, s \in Starts : ranges = <<[first |-> 0, style |-> st, prefix |-> pf, start |-> s]>>
        /\ n = 1
AddRange == /\ Len(ranges) < 3 /\ n = 1
            /\ \E f \in (ranges[Len(ranges)].first + 1)..MaxPage, st \in {"D", "r", "A"}, s \in {1, 27} :
                 ranges' = Append(ranges, [first |-> f, style |-> st, prefix |-> <<>>, start |-> s])
            /\ UNCHANGED n
\* (the numbers are walked from one labelling only: what is checked about n does not depend on the ranges)
Count == /\ n < MaxN /\ n' = n + 1 /\ UNCHANGED ranges
         /\ ranges = <<[first |-> 0, style |-> "r", prefix |-> <<>>, start |-> 1]>>
Next == AddRange \/ Count
Spec == Init /\ [][Next]_vars

RomanAgrees == ImplRoman(n) = RefRoman(n)
AlphaAgrees == n <= 400 => ImplAlpha(n) = RefAlpha(n)
RangeAgrees == \A p \in 0..MaxPage : ImplRange(ranges, p) = RefRange(ranges, p)
LabelAgrees == \A p \in 0..MaxPage : ImplLabel(ranges, p) = RefLabel(ranges, p)
=============================================================================
