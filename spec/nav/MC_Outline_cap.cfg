SPECIFICATION Spec
CONSTANTS MaxItems = 6
  MaxDepth = 4
  Chunk = 3
  DepthCap = 2
  Bug = "none"
INVARIANTS WrittenValid WrittenMeans EveryItemOnce ReaderCapped
CHECK_DEADLOCK FALSE
