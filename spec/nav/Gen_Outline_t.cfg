SPECIFICATION GenSpec
CONSTANTS MaxItems = 7
  MaxDepth = 5
  Chunk = 3
  DepthCap = 5
  Bug = "none"
CHECK_DEADLOCK FALSE
