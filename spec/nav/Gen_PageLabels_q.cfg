SPECIFICATION GenSpec
CONSTANTS MaxN = 1
  MaxPage = 5
  Bug = "none"
CHECK_DEADLOCK FALSE
