SPECIFICATION Spec
CONSTANTS MaxN = 3999
  MaxPage = 7
  Bug = "none"
INVARIANTS RomanAgrees AlphaAgrees RangeAgrees LabelAgrees
CHECK_DEADLOCK FALSE
