SPECIFICATION Spec
CONSTANTS MaxN = 3999
  MaxPage = 5
  Bug = "noNine"
INVARIANTS RomanAgrees AlphaAgrees RangeAgrees LabelAgrees
CHECK_DEADLOCK FALSE
