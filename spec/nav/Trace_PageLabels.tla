-------------------------- MODULE Trace_PageLabels --------------------------
(* Judges what the real pagelabel package answered, with the reference       *)
(* operators of PageLabels only (RefLabel: Roman numerals digit by digit,    *)
(* letters, the range found by a linear scan).  One record per labelling and *)
(* stage ("built": pagelabel.New; "extracted": embedded into a real file,    *)
(* read back with the strict parser and with pagelabel.Extract):             *)
(*   ranges  the labelling, labels  [page, text] as Labels.Format answered,  *)
(*   tree    the ranges found in the file's /PageLabels number tree by the   *)
(*           strict parser (stage "extracted"; otherwise empty)              *)
EXTENDS PageLabels, TraceLib
Cases == Records
SameRanges(a, b) == Len(a) = Len(b) /\ \A k \in 1..Len(a) :
   a[k].first = b[k].first /\ a[k].style = b[k].style /\ a[k].prefix = b[k].prefix /\ a[k].start = b[k].start
CaseOK(c) ==
  /\ c.err = ""
  /\ \A k \in 1..Len(c.labels) : c.labels[k].text = RefLabel(c.ranges, c.labels[k].page)
  /\ c.stage = "extracted" => SameRanges(c.tree, c.ranges)

VARIABLES i, bad, done
tvars == <<i, bad, done, ranges, n>>
TInit == i = 1 /\ bad = <<>> /\ done = FALSE /\ ranges = <<>> /\ n = 0
Step == /\ i <= Len(Cases)
        /\ i' = i + 1
        /\ bad' = IF CaseOK(Cases[i]) THEN bad ELSE Append(bad, i)
        /\ UNCHANGED <<done, ranges, n>>
Finish == /\ i = Len(Cases) + 1 /\ ~done
          /\ done' = TRUE
          /\ WriteVerdict(bad)
          /\ UNCHANGED <<i, bad, ranges, n>>
TNext == Step \/ Finish
TSpec == TInit /\ [][TNext]_tvars
=============================================================================
