------------------------------- MODULE Outline -------------------------------
(* The outline writer and reader of go-pdf (outline/outline.go) as they are  *)
(* written, next to the reference semantics of OutlineRef:                   *)
(*   ImplCount   getCount: the value handed to the parent and the /Count     *)
(*               stored for the item (the map ww.count), hasOpen             *)
(*   ImplEncode  Encode / writeChildren / writeItem: the dictionaries, in    *)
(*               the order they are buffered (pre-order), with the links     *)
(*   Batches     the buffer protocol: a dictionary is appended to ww.objs,   *)
(*               the buffer is flushed by WriteCompressed when it holds      *)
(*               Chunk entries (32 in the code) and once more at the end     *)
(*   ImplDecode  Decode / readChildren / readItem: document-wide visited     *)
(*               set, depth cap, Open = Count > 0                            *)
(* The state machine grows an outline the way a caller does (AddItem /       *)
(* AddChild append behind the last item of a list; Open is set at will);     *)
(* every outline within the bounds is one state.  Mutation switches (Bug)    *)
(* are negative controls: each must make TLC report a violation.            *)
EXTENDS OutlineRef
CONSTANTS MaxItems, MaxDepth, Chunk, DepthCap, Bug

VARIABLE tree
vars == <<tree>>

RECURSIVE DepthOf(_, _)
DepthOf(tr, i) == IF i = 0 THEN 0 ELSE 1 + DepthOf(tr, tr[i].p)
RECURSIVE PathUp(_, _)
PathUp(tr, i) == IF i = 0 THEN {0} ELSE {i} \cup PathUp(tr, tr[i].p)
RightPath(tr) == IF tr = <<>> THEN {0} ELSE PathUp(tr, Len(tr))
ChildrenOf(tr, p) == SelectSeq([j \in 1..Len(tr) |-> j], LAMBDA j : tr[j].p = p)

Init == tree = <<>>
Add(par, o) ==
  /\ Len(tree) < MaxItems
  /\ par \in RightPath(tree)
  /\ DepthOf(tree, par) + 1 <= MaxDepth
  /\ tree' = Append(tree, [p |-> par, o |-> o])
Next == \E par \in 0..MaxItems, o \in BOOLEAN : Add(par, o)
Spec == Init /\ [][Next]_vars

---------------------------------------------------------------------------
\* getCount
RECURSIVE ImplCount(_, _)
ImplCount(tr, i) ==
  LET ch == ChildrenOf(tr, i) IN
  IF ch = <<>> THEN [ret |-> 1, has |-> FALSE, val |-> 0, open |-> FALSE]
  ELSE LET sub == [j \in 1..Len(ch) |-> ImplCount(tr, ch[j])]
           RECURSIVE Sum(_)
           Sum(n) == IF n = 0 THEN 0
                     ELSE (IF Bug = "closedChildCountsAll" /\ ~tr[ch[n]].o /\ sub[n].has
                             THEN 1 - sub[n].val
                           ELSE IF sub[n].ret > 0 THEN sub[n].ret ELSE 1) + Sum(n - 1)
           desc == Sum(Len(ch))
           below == \E j \in 1..Len(ch) : sub[j].open
       IN IF tr[i].o THEN [ret |-> 1 + desc, has |-> TRUE, val |-> desc, open |-> TRUE]
          ELSE [ret |-> 1, has |-> desc > 0, val |-> 0 - desc, open |-> below]

\* Encode: the root dictionary and the item dictionaries in pre-order (item i
\* of the outline becomes node i)
ImplEncode(tr) ==
  LET top == ChildrenOf(tr, 0)
      cnt == [i \in 1..Len(tr) |-> ImplCount(tr, i)]
      RECURSIVE RootSum(_)
      RootSum(n) == IF n = 0 THEN 0 ELSE cnt[top[n]].ret + RootSum(n - 1)
      hasOpen == \E i \in 1..Len(tr) : cnt[i].has /\ tr[i].o
      Pos(q, x) == CHOOSE j \in 1..Len(q) : q[j] = x
      node(i) ==
        LET sibs == ChildrenOf(tr, tr[i].p)
            k == Pos(sibs, i)
            ch == ChildrenOf(tr, i)
        IN [t |-> i, parent |-> tr[i].p,
            prev |-> IF k > 1 THEN sibs[k - 1] ELSE 0,
            next |-> IF k < Len(sibs) THEN sibs[k + 1] ELSE 0,
            first |-> IF ch = <<>> THEN 0 ELSE ch[1],
            last |-> IF ch = <<>> THEN 0
                     ELSE IF Bug = "lastIsSecond" /\ Len(ch) > 2 THEN ch[2] ELSE ch[Len(ch)],
            hc |-> ch # <<>> /\ cnt[i].has, c |-> IF ch # <<>> /\ cnt[i].has THEN cnt[i].val ELSE 0]
  IN [root |-> [first |-> IF top = <<>> THEN 0 ELSE top[1],
                last |-> IF top = <<>> THEN 0 ELSE top[Len(top)],
                hc |-> IF Bug = "rootCountAlways" THEN TRUE ELSE hasOpen,
                c |-> IF hasOpen \/ Bug = "rootCountAlways" THEN RootSum(Len(top)) ELSE 0],
      nodes |-> [i \in 1..Len(tr) |-> node(i)]]

\* the buffer protocol of writeItem/flush: which WriteCompressed call carries
\* which dictionaries
RECURSIVE Flushes(_, _, _, _)
Flushes(n, i, buf, out) ==
  IF i > n THEN (IF buf = <<>> \/ Bug = "noFinalFlush" THEN out ELSE Append(out, buf))
  ELSE LET b == Append(buf, i)
       IN IF Len(b) >= Chunk THEN Flushes(n, i + 1, <<>>, Append(out, b))
          ELSE Flushes(n, i + 1, b, out)
Batches(tr) == Flushes(Len(tr), 1, <<>>, <<>>)
RECURSIVE Flat(_)
Flat(qq) == IF qq = <<>> THEN <<>> ELSE Head(qq) \o Flat(Tail(qq))

\* Decode: readChildren / readItem with the document-wide visited set and the
\* depth cap (what lies deeper is dropped)
RECURSIVE ImplRead(_, _, _, _, _)
\* returns [items, visited]; items in pre-order with parent positions
ImplRead(f, ref, depth, par, st) ==
  IF depth >= DepthCap \/ ref <= 0 \/ ref > N(f) \/ ref \in st.visited THEN st
  ELSE LET me == Len(st.items) + 1
           nd == f.nodes[ref]
           st1 == [items |-> Append(st.items, [t |-> nd.t, p |-> par, o |-> nd.hc /\ nd.c > 0]),
                   visited |-> st.visited \cup {ref}]
           st2 == ImplRead(f, nd.first, depth + 1, me, st1)
       IN ImplRead(f, nd.next, depth, par, st2)
ImplDecode(f) == ImplRead(f, f.root.first, 0, 0, [items |-> <<>>, visited |-> {}]).items

---------------------------------------------------------------------------
\* what TLC checks in every state (= for every outline within the bounds)
WrittenValid == tree # <<>> => Valid(ImplEncode(tree))
WrittenMeans == tree # <<>> => SameTree(RefTree(ImplEncode(tree)), Norm(tree))
EveryItemOnce == LET w == Flat(Batches(tree)) IN
                 /\ Len(w) = Len(tree) /\ \A i \in 1..Len(tree) : w[i] = i
                 /\ \A b \in 1..Len(Batches(tree)) : Len(Batches(tree)[b]) <= Chunk
ReaderAgrees == (tree # <<>> /\ MaxDepth <= DepthCap) =>
                  SameTree(ImplDecode(ImplEncode(tree)), RefTree(ImplEncode(tree)))
\* with a cap below the depth of the outline the reader returns a pre-order
\* prefix-closed part of it: exactly the items of depth <= DepthCap
ReaderCapped == tree # <<>> =>
   LET got == ImplDecode(ImplEncode(tree))
       keep == SelectSeq([j \in 1..Len(tree) |-> j], LAMBDA j : DepthOf(tree, j) <= DepthCap)
   IN Len(got) = Len(keep) /\ \A j \in 1..Len(keep) : got[j].t = keep[j]
=============================================================================
