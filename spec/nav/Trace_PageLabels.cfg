SPECIFICATION TSpec
CONSTANTS MaxN = 1
  MaxPage = 1
  Bug = "none"
CHECK_DEADLOCK FALSE
