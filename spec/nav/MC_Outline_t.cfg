SPECIFICATION Spec
CONSTANTS MaxItems = 8
  MaxDepth = 5
  Chunk = 3
  DepthCap = 5
  Bug = "none"
INVARIANTS WrittenValid WrittenMeans EveryItemOnce ReaderAgrees ReaderCapped
CHECK_DEADLOCK FALSE
