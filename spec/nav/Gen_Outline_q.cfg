SPECIFICATION GenSpec
CONSTANTS MaxItems = 5
  MaxDepth = 4
  Chunk = 3
  DepthCap = 4
  Bug = "none"
CHECK_DEADLOCK FALSE
