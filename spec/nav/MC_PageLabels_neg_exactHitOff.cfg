SPECIFICATION Spec
CONSTANTS MaxN = 3999
  MaxPage = 6
  Bug = "exactHitOff"
INVARIANTS RomanAgrees AlphaAgrees RangeAgrees LabelAgrees
CHECK_DEADLOCK FALSE
