SPECIFICATION Spec
CONSTANTS MaxItems = 6
  MaxDepth = 4
  Chunk = 3
  DepthCap = 4
  Bug = "closedChildCountsAll"
INVARIANTS WrittenValid WrittenMeans EveryItemOnce ReaderAgrees ReaderCapped
CHECK_DEADLOCK FALSE
