------------------------------ MODULE Gen_Pipe ------------------------------
(* Scenario table for the producer/pipe/consumer protocol: every stop point  *)
(* of the consumer (after k of n chunks), every reason, with and without a   *)
(* failing source.  The harness realises each row on type1glyphs.FromStream  *)
(* (synthetic producer writing n chunks) and on pdf.DecodeStream of a        *)
(* DCTDecode stream (consumer reading k chunks) and checks, through          *)
(* Trace_Envelope, that the producer goroutine is gone afterwards.           *)
(* stuck = what Pipe says happens when the Close does not reach the pipe.    *)
EXTENDS Naturals, Sequences, FiniteSets, Json, IOUtils, SequencesExt
CONSTANTS N
Reasons == {"close", "early", "error"}
Rows ==
  {[n |-> N, k |-> k, reason |-> r, srcErr |-> e,
    stuck |-> (k < N /\ (e = N + 1 \/ e > k))] :
      k \in 0..N, r \in Reasons, e \in (0..N) \cup {N + 1}}           \* N+1: the source does not fail
  \cup {[n |-> N, k |-> N, reason |-> "eof", srcErr |-> N + 1, stuck |-> FALSE]}
  \cup {[n |-> N, k |-> e, reason |-> "eof", srcErr |-> e, stuck |-> FALSE] : e \in 0..N}
ASSUME ndJsonSerialize(IOEnv.OUT, SetToSeq(Rows))
VARIABLE x
Init == x = 0
Next == UNCHANGED x
=============================================================================
