------------------------------ MODULE Envelope ------------------------------
(* The resource envelope of property C05 (and C08): what a single call of    *)
(* the public reading API may do on ANY input.  For arbitrary bytes the      *)
(* specification has nothing to enumerate; this relation between the input   *)
(* size and what the call consumed is all it can say.                        *)
(*                                                                           *)
(*   - the call returns: a value or an error.  A panic, a fatal runtime      *)
(*     error (stack exhaustion, out of memory, deadlock) or a call that does *)
(*     not come back are not outcomes the property admits;                   *)
(*   - CPU time is at most affine in the input length;                       *)
(*   - the heap allocated during the call stays within the documented        *)
(*     budgets (internal/limits: StreamBudget = 8 MiB + min(1024 * rawLen,   *)
(*     256 MiB) per stream decode, MaxXRefEntries = 8192 + 32 * rawLen, the   *)
(*     scanner's caps) plus slack;                                           *)
(*   - once the call has returned and its readers are closed no goroutine it *)
(*     started is still alive (after a grace period);                        *)
(*   - a pipe-backed producer (Pipe.tla) has returned.                       *)
(*                                                                           *)
(* Units: microseconds, KiB, bytes.  TLC integers are 32 bit: every product  *)
(* below stays under 2^31: MaxLenKiB caps the input size used.                            *)
EXTENDS Naturals, Sequences

CONSTANTS CpuFloorUs,    \* CPU time every call may use regardless of the input
          CpuPerKiBUs,   \* ... plus this much per KiB of input
          AllocFloorKiB, \* heap every call may allocate regardless of the input
          OpenAllocFloorKiB, \* the same for the calls that open a file (NewReader, MakeReader):
                         \* what they build is bounded by limits.MaxXRefEntries = 8192 + 32 per raw byte
          AllocPerKiB,   \* ... plus this many KiB per KiB of input
          MaxLenKiB      \* inputs above this size are outside the calibrated range

\* outcome classes of a call that came back properly
Returned == {"ok", "malformed", "readError", "auth", "error"}
\* outcome classes the property excludes
Excluded == {"panic", "fatal", "hang", "noresult"}   \* noresult: neither a value nor an error

\* documented budgets (internal/limits/limits.go), in KiB
StreamBudgetBaseKiB == 8 * 1024
StreamBudgetMultiplier == 1024
StreamBudgetHardCapKiB == 256 * 1024
Min(x, y) == IF x < y THEN x ELSE y
StreamBudgetKiB(rawKiB) == StreamBudgetBaseKiB + Min(StreamBudgetMultiplier * rawKiB, StreamBudgetHardCapKiB)

LenKiB(len) == (len \div 1024) + 1

OutcomeOK(c) == c.outcome \in Returned
CpuOK(c)     == c.cpu_us <= CpuFloorUs + CpuPerKiBUs * Min(LenKiB(c.len), MaxLenKiB)
Opening      == {"open", "makereader"}
AllocFloor(c) == IF c.call \in Opening THEN OpenAllocFloorKiB ELSE AllocFloorKiB
AllocOK(c)   == c.alloc_kb <= AllocFloor(c) + AllocPerKiB * Min(LenKiB(c.len), MaxLenKiB)
GoroutinesOK(c) == c.g1 <= c.g0
ProducerOK(c)   == c.prod # 0          \* -1: no producer involved, 1: it returned

CallOK(c) == OutcomeOK(c) /\ CpuOK(c) /\ AllocOK(c) /\ GoroutinesOK(c) /\ ProducerOK(c)

\* which clause a record breaks (for the report)
Clause(c) == IF ~OutcomeOK(c) THEN "outcome"
             ELSE IF ~GoroutinesOK(c) \/ ~ProducerOK(c) THEN "goroutines"
             ELSE IF ~AllocOK(c) THEN "alloc"      \* (before "cpu": allocation does not depend on the machine's load)
             ELSE IF ~CpuOK(c) THEN "cpu"
             ELSE "none"
=============================================================================
