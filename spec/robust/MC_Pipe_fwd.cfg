SPECIFICATION Spec
CONSTANTS N = 3
  CLOSE_ON_STOP = TRUE
  LAYERS = 1
  FORWARD = TRUE
  SrcErrAt = {2}
INVARIANTS TypeOK StuckExplained NeverStuck
PROPERTY NoLeakAfterReturn
CHECK_DEADLOCK FALSE
