SPECIFICATION Spec
CONSTANTS N = 3
  CLOSE_ON_STOP = FALSE
  LAYERS = 0
  FORWARD = FALSE
  SrcErrAt = {}
INVARIANTS TypeOK StuckExplained 
PROPERTY NoLeakAfterReturn
CHECK_DEADLOCK FALSE
