------------------------------ MODULE MC_Pipe ------------------------------
(* Exhaustive check of Pipe for a few chunk counts.  The configurations     *)
(*   MC_Pipe_close    consumer closes the read end            -> holds      *)
(*   MC_Pipe_f2       consumer never closes (FromStream as coded, F2)       *)
(*                                                            -> violated   *)
(*   MC_Pipe_stacked  a decoder stacked on the pipe does not forward Close  *)
(*                    ([/DCTDecode /FlateDecode])             -> violated   *)
(*   MC_Pipe_fwd      ... forwards Close                      -> holds      *)
EXTENDS Pipe
\* whenever the producer is stuck, the reference predicate explains it
StuckExplained == Stuck => (RefMayLeak(Reaches) /\ sent < N /\ ~(sent \in SrcErrAt /\ ppc = "run"))
=============================================================================
