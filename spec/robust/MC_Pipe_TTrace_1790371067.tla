---- MODULE MC_Pipe_TTrace_1790371067 ----
EXTENDS Sequences, MC_Pipe, TLCExt, Toolbox, Naturals, TLC

_expression ==
    LET MC_Pipe_TEExpression == INSTANCE MC_Pipe_TEExpression
    IN MC_Pipe_TEExpression!expression
----

_trace ==
    LET MC_Pipe_TETrace == INSTANCE MC_Pipe_TETrace
    IN MC_Pipe_TETrace!trace
----

_prop ==
    ~<>[](
        ppc = ("blocked")
        /\
        rclosed = (FALSE)
        /\
        cpc = ("done")
        /\
        wclosed = (FALSE)
        /\
        why = ("early")
        /\
        sent = (0)
    )
----

_init ==
    /\ ppc = _TETrace[1].ppc
    /\ why = _TETrace[1].why
    /\ sent = _TETrace[1].sent
    /\ wclosed = _TETrace[1].wclosed
    /\ cpc = _TETrace[1].cpc
    /\ rclosed = _TETrace[1].rclosed
----

_next ==
    /\ \E i,j \in DOMAIN _TETrace:
        /\ \/ /\ j = i + 1
              /\ i = TLCGet("level")
        /\ ppc  = _TETrace[i].ppc
        /\ ppc' = _TETrace[j].ppc
        /\ why  = _TETrace[i].why
        /\ why' = _TETrace[j].why
        /\ sent  = _TETrace[i].sent
        /\ sent' = _TETrace[j].sent
        /\ wclosed  = _TETrace[i].wclosed
        /\ wclosed' = _TETrace[j].wclosed
        /\ cpc  = _TETrace[i].cpc
        /\ cpc' = _TETrace[j].cpc
        /\ rclosed  = _TETrace[i].rclosed
        /\ rclosed' = _TETrace[j].rclosed

\* Uncomment the ASSUME below to write the states of the error trace
\* to the given file in Json format. Note that you can pass any tuple
\* to `JsonSerialize`. For example, a sub-sequence of _TETrace.
    \* ASSUME
    \*     LET J == INSTANCE Json
    \*         IN J!JsonSerialize("MC_Pipe_TTrace_1790371067.json", _TETrace)

=============================================================================

 Note that you can extract this module `MC_Pipe_TEExpression`
  to a dedicated file to reuse `expression` (the module in the 
  dedicated `MC_Pipe_TEExpression.tla` file takes precedence 
  over the module `MC_Pipe_TEExpression` below).

---- MODULE MC_Pipe_TEExpression ----
EXTENDS Sequences, MC_Pipe, TLCExt, Toolbox, Naturals, TLC

expression == 
    [
        \* To hide variables of the `MC_Pipe` spec from the error trace,
        \* remove the variables below.  The trace will be written in the order
        \* of the fields of this record.
        ppc |-> ppc
        ,why |-> why
        ,sent |-> sent
        ,wclosed |-> wclosed
        ,cpc |-> cpc
        ,rclosed |-> rclosed
        
        \* Put additional constant-, state-, and action-level expressions here:
        \* ,_stateNumber |-> _TEPosition
        \* ,_ppcUnchanged |-> ppc = ppc'
        
        \* Format the `ppc` variable as Json value.
        \* ,_ppcJson |->
        \*     LET J == INSTANCE Json
        \*     IN J!ToJson(ppc)
        
        \* Lastly, you may build expressions over arbitrary sets of states by
        \* leveraging the _TETrace operator.  For example, this is how to
        \* count the number of times a spec variable changed up to the current
        \* state in the trace.
        \* ,_ppcModCount |->
        \*     LET F[s \in DOMAIN _TETrace] ==
        \*         IF s = 1 THEN 0
        \*         ELSE IF _TETrace[s].ppc # _TETrace[s-1].ppc
        \*             THEN 1 + F[s-1] ELSE F[s-1]
        \*     IN F[_TEPosition - 1]
    ]

=============================================================================



Parsing and semantic processing can take forever if the trace below is long.
 In this case, it is advised to uncomment the module below to deserialize the
 trace from a generated binary file.

\*
\*---- MODULE MC_Pipe_TETrace ----
\*EXTENDS IOUtils, MC_Pipe, TLC
\*
\*trace == IODeserialize("MC_Pipe_TTrace_1790371067.bin", TRUE)
\*
\*=============================================================================
\*

---- MODULE MC_Pipe_TETrace ----
EXTENDS MC_Pipe, TLC

trace == 
    <<
    ([ppc |-> "run",rclosed |-> FALSE,cpc |-> "run",wclosed |-> FALSE,why |-> "-",sent |-> 0]),
    ([ppc |-> "run",rclosed |-> FALSE,cpc |-> "done",wclosed |-> FALSE,why |-> "early",sent |-> 0]),
    ([ppc |-> "blocked",rclosed |-> FALSE,cpc |-> "done",wclosed |-> FALSE,why |-> "early",sent |-> 0])
    >>
----


=============================================================================

---- CONFIG MC_Pipe_TTrace_1790371067 ----
CONSTANTS
    N = 3
    CLOSE_ON_STOP = TRUE
    LAYERS = 1
    FORWARD = FALSE
    SrcErrAt = { }

PROPERTY
    _prop

CHECK_DEADLOCK
    \* CHECK_DEADLOCK off because of PROPERTY or INVARIANT above.
    FALSE

INIT
    _init

NEXT
    _next

CONSTANT
    _TETrace <- _trace

ALIAS
    _expression
=============================================================================
\* Generated on Fri Sep 25 21:17:49 UTC 2026