SPECIFICATION Spec
CONSTANTS N = 3
  Walkers = {"objwalk"}
  MaxDepth = 2
  MaxChain = 3
  StackCap = 2
  G_SEEN = TRUE
  G_DEPTH = TRUE
  G_SCALAR = TRUE
  G_STMFIRST = TRUE
  G_CHAIN = TRUE
  G_GLOBDEPTH = TRUE
  G_WALKDEPTH = TRUE
  G_FILTERTOP = TRUE
  FSTREAM = FALSE
  G_NAVACC = TRUE
INVARIANTS NoOverflow WorkBounded ChainBounded
PROPERTY Termination
CHECK_DEADLOCK FALSE
