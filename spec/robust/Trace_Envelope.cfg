\* constants: calibrated on the unchanged tree, see harness/drive/c05/judge.go
\* (the driver writes the configuration it uses; this file documents the defaults)
SPECIFICATION Spec
CONSTANTS CpuFloorUs = 3000000
  CpuPerKiBUs = 100000
  AllocFloorKiB = 98304
  AllocPerKiB = 8192
  MaxLenKiB = 65536
CHECK_DEADLOCK FALSE
