\* The driver writes the configuration it uses (harness/drive/c05/judge.go,
\* envelopeCfg: constants calibrated on the unchanged tree); this file holds the
\* same values for manual runs:  CASES=records.ndjson OUT=verdict.ndjson tlc -config Trace_Envelope.cfg Trace_Envelope.tla
SPECIFICATION Spec
CONSTANTS CpuFloorUs = 15000000
  CpuPerKiBUs = 100000
  AllocFloorKiB = 163840
  OpenAllocFloorKiB = 16384
  AllocPerKiB = 4096
  MaxLenKiB = 16384
CHECK_DEADLOCK FALSE
