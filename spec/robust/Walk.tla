-------------------------------- MODULE Walk --------------------------------
(* An adversarial reference graph walked by go-pdf's guard mechanisms.      *)
(*                                                                          *)
(* Property C05 asks that opening and walking ARBITRARY bytes terminates in *)
(* time proportional to the input.  What stands between a hostile file and  *)
(* an endless walk are a handful of guards; this module models each of them *)
(* as the code has it (one action per code path) on a graph in which every  *)
(* structural slot may point to any object, to its own object, to a number  *)
(* without an object, or to an object of the wrong type.                    *)
(*                                                                          *)
(*   Walker      code                                    guard(s)           *)
(*   "resolve"   resolve.go resolvePath / CycleCheck.step,                  *)
(*               cursor.go Decode                        G_SEEN, G_DEPTH    *)
(*   "length"    reader.go get / getFromObjStm,                             *)
(*               scanner.go ReadObject / ReadStreamData  G_SCALAR (the      *)
(*               scalarOnly rule for an indirect /Length), G_STMFIRST       *)
(*               (a stream found INSIDE an object stream is refused before  *)
(*               its /Length is looked at), G_FILTERTOP (the filter         *)
(*               description of an object stream is never taken from an     *)
(*               object stream: without it opening a container whose own    *)
(*               /Filter is one of its members never ends), G_SEEN, G_DEPTH *)
(*   "xref"      xref.go readXRef                        G_SEEN (seen[start])*)
(*   "pages"     pagetree/read.go Iterator.All           G_SEEN             *)
(*   "outline"   outline/outline.go readChildren/readItem G_SEEN, G_DEPTH   *)
(*   "nametree"  internal/pdftree/streaming.go           G_SEEN, G_DEPTH    *)
(*   "filters"   container.go GetFilters /                                  *)
(*               resolveJBIG2Globals                     G_SEEN, G_CHAIN,   *)
(*               (every level of a chain of globals is a level of Go        *)
(*               recursion; as coded no depth cap applies)   G_GLOBDEPTH    *)
(*                                                                          *)
(*   "decode"    cursor.go Decode: nested decoders (form XObjects through    *)
(*               /Resources, Type 3 functions, colour space alternates,      *)
(*               patterns, Type 3 fonts, action /Next, UseCMap ...) thread   *)
(*               one CycleCheck path and share the Extractor's cache; a      *)
(*               decoder either gives up at the first failing child          *)
(*               ("strict") or skips it ("perm")      G_SEEN, G_DEPTH, cache *)
(*   "fields"    annotation/decode/field.go fieldTreeDecoder: /Kids of the   *)
(*               interactive form, partitioned into sub-fields and widgets,  *)
(*               one global seen-set on top of Decode          G_SEEN        *)
(*   "parents"   field.go inheritedFromChain: the /Parent chain of a merged  *)
(*               field/widget reached from a page            G_SEEN (visited)*)
(*   "objwalk"   walker/walker.go walkObject: every object once (visited);   *)
(*               a chain of references is as deep a Go recursion as it is    *)
(*               long - as coded no depth cap applies     G_SEEN, G_WALKDEPTH*)
(*                                                                          *)
(*   "navnode"   page/navnode Decode: the /Next list of navigation nodes of  *)
(*               a page (/PresSteps), a loop whose CycleCheck path takes up  *)
(*               every node it has passed                G_SEEN, G_NAVACC    *)
(*                                                                          *)
(* A wiring is (kind[n], a[n], b[n]) for every node n in 1..N: what the     *)
(* parser finds at the object (its type) and two slots whose meaning        *)
(* depends on the walker.  Slot values: 0 = absent, 1..N = that object,     *)
(* N+1 = a number without an object ("dangling"), N+2 = the root the walk   *)
(* started from where that is a separate object.  A wrong-typed target is a *)
(* node whose kind does not fit the slot.                                   *)
(*                                                                          *)
(* The wiring is chosen node by node (action Wire) so that TLC's workers    *)
(* share the enumeration; then the walker runs.  The walker itself is       *)
(* picked in the initial state from the constant set Walkers, so that one   *)
(* TLC run covers all mechanisms.                                           *)
(*                                                                          *)
(* Properties: Termination (<>Done under weak fairness; no state constraint *)
(* is used, the counters saturate so that an endless walk is a cycle of the *)
(* finite state graph, and an endless recursion ends in phase "overflow"),  *)
(* WorkBounded (fetches <= Bound, linear in nodes+edges for a fixed depth   *)
(* cap), NoOverflow.                                                        *)
EXTENDS Naturals, Sequences, FiniteSets

CONSTANTS N,          \* objects
          Walkers,    \* the mechanisms to check (a walker is picked in the initial state)
          MaxDepth,   \* limits.MaxExtractDepth / MaxOutlineDepth / MaxNameTreeDepth (256 in the code)
          MaxChain,   \* maxFilterChainLength (8 in the code)
          StackCap,   \* beyond this the Go stack is considered exhausted
          G_SEEN, G_DEPTH, G_SCALAR, G_STMFIRST, G_CHAIN,
          G_GLOBDEPTH, \* the JBIG2Globals recursion is under the depth cap (before de83502 it was not)
          G_WALKDEPTH, \* walker.walkObject is under a depth cap (as coded: it is not)
          G_FILTERTOP, \* GetFilters resolves /Filter and /DecodeParms with canObjStm = false
          FSTREAM,     \* the object layer also has streams with an indirect /Filter, and name objects
          G_NAVACC     \* the path of the navigation node list accumulates (not just: head + current node)

Nodes    == 1..N
Absent   == 0
Dangling == N + 1
Root     == N + 2

VARIABLES Walker,          \* which mechanism this behaviour is about
          kind, a, b,      \* the wiring
          wired,           \* nodes wired so far
          phase,           \* "wire" | "walk" | "done" | "overflow"
          start,           \* object the public call was made for
          mode,            \* "call" | "ret"  (walkers with a call stack)
          cur, depth,      \* current reference / nesting depth
          stack,           \* call stack (frames are records)
          seen,            \* the guard's set (path, seen[start], visited, ...)
          ret,             \* value being returned
          work,            \* object fetches so far (saturating at WorkCap)
          out              \* projection of the result: what the caller sees
vars == <<Walker, kind, a, b, wired, phase, start, mode, cur, depth, stack, seen, ret, work, out>>
wiring == <<Walker, kind, a, b>>

(* ------------------------------------------------------------------------ *)
(* per-walker alphabet                                                      *)
(* ------------------------------------------------------------------------ *)
Kinds ==
  CASE Walker = "resolve"  -> {"ref", "val"}
    [] Walker = "length"   -> {"int", "ref", "dict", "stream"} \cup (IF FSTREAM THEN {"fstream", "name"} ELSE {})
    [] Walker = "xref"     -> {"table", "stream", "other"}
    [] Walker = "pages"    -> {"Pages", "PagesInh", "Page", "Other"}
    [] Walker = "outline"  -> {"item", "other"}
    [] Walker = "nametree" -> {"inner", "leaf", "other"}
    [] Walker = "filters"  -> {"plain", "jbig2", "max", "long", "other"}
    [] Walker = "decode"   -> {"strict", "perm", "leaf", "other"}
    [] Walker = "fields"   -> {"field", "widget", "other"}
    [] Walker = "parents"  -> {"field", "other"}
    [] Walker = "objwalk"  -> {"dict", "leaf"}
    [] Walker = "navnode"  -> {"node", "other"}

\* slot a
DomA(k) ==
  CASE Walker = "resolve"  -> IF k = "ref" THEN 1..Dangling ELSE {Absent}
    [] Walker = "length"   -> IF k = "ref" THEN 1..Dangling                \* target of the reference
                              ELSE IF k = "stream" THEN 0..Dangling        \* /Length: 0 = direct integer
                              ELSE IF k = "fstream" THEN 0..Dangling       \* /Filter (direct /Length): 0 = none
                              ELSE {Absent}
    [] Walker = "xref"     -> IF k = "other" THEN {Absent} ELSE 0..Dangling \* /Prev (Dangling: not a valid offset)
    [] Walker = "pages"    -> IF k \in {"Pages", "PagesInh"} THEN 0..Dangling ELSE {Absent} \* /Kids[0]
    [] Walker = "outline"  -> IF k = "item" THEN 0..Root ELSE {Absent}     \* /First
    [] Walker = "nametree" -> IF k = "inner" THEN 0..Dangling ELSE {Absent} \* /Kids[0]
    [] Walker = "filters"  -> IF k = "jbig2" THEN 0..Dangling ELSE {Absent} \* /JBIG2Globals
    [] Walker = "decode"   -> IF k \in {"strict", "perm"} THEN 0..Dangling ELSE {Absent} \* first child
    [] Walker = "fields"   -> IF k = "field" THEN 0..Dangling ELSE {Absent}  \* /Kids[0]
    [] Walker = "parents"  -> IF k = "field" THEN 0..Dangling ELSE {Absent}  \* /Parent
    [] Walker = "objwalk"  -> IF k = "dict" THEN 0..Dangling ELSE {Absent}   \* first entry
    [] Walker = "navnode"  -> IF k = "node" THEN 0..Dangling ELSE {Absent}   \* /Next
\* slot b
DomB(k) ==
  CASE Walker = "resolve"  -> {Absent}
    [] Walker = "length"   -> 0..Dangling     \* where the xref says the object lives: 0 top level,
                                              \* n: compressed in object stream n, Dangling: free entry
    [] Walker = "xref"     -> IF k = "table" THEN 0..Dangling ELSE {Absent} \* /XRefStm
    [] Walker = "pages"    -> IF k \in {"Pages", "PagesInh"} THEN 0..Dangling ELSE {Absent} \* /Kids[1]
    [] Walker = "outline"  -> IF k = "item" THEN 0..Root ELSE {Absent}     \* /Next
    [] Walker = "nametree" -> IF k = "inner" THEN 0..Dangling ELSE {Absent} \* /Kids[1]
    [] Walker = "filters"  -> {Absent}
    [] Walker = "decode"   -> IF k \in {"strict", "perm"} THEN 0..Dangling ELSE {Absent} \* second child
    [] Walker = "fields"   -> IF k = "field" THEN 0..Dangling ELSE {Absent}  \* /Kids[1]
    [] Walker = "parents"  -> {Absent}
    [] Walker = "objwalk"  -> IF k = "dict" THEN 0..Dangling ELSE {Absent}   \* second entry
    [] Walker = "navnode"  -> {Absent}

Edges == Cardinality({n \in Nodes : a[n] # Absent}) + Cardinality({n \in Nodes : b[n] # Absent})

\* The bound on fetches.  For a fixed depth cap it is linear in nodes+edges;
\* the factor covers chains of references hanging off one slot.
Bound ==
  CASE Walker = "resolve"  -> N + 1
    [] Walker = "length"   -> (N + 2) * (N + 2)
    [] Walker = "xref"     -> N
    [] Walker = "pages"    -> 1 + Edges
    [] Walker = "outline"  -> N + 1
    [] Walker = "nametree" -> 1 + Edges
    [] Walker = "filters"  -> N + 1
    \* a decoder that fails is not cached: it may be fetched again through every edge that leads to it
    [] Walker = "decode"   -> 1 + 2 * Edges * N
    [] Walker = "fields"   -> 1 + 2 * Edges
    [] Walker = "parents"  -> N + 1
    [] Walker = "objwalk"  -> 1 + Edges
    [] Walker = "navnode"  -> N + 1
WorkCap == Bound + 1
Tick(w) == IF w < WorkCap THEN w + 1 ELSE w
Sat(d)  == IF d <= MaxDepth THEN d + 1 ELSE d      \* depth counter saturates once past the cap
\* the result list stops growing once it is longer than any guarded walk can make it
Emit(o, x) == IF Len(o) <= N + 1 THEN Append(o, x) ELSE o

(* ------------------------------------------------------------------------ *)
(* enumeration of the wiring                                                *)
(* ------------------------------------------------------------------------ *)
NoFrame == <<>>
Init == /\ Walker \in Walkers
        /\ kind = [n \in Nodes |-> "-"] /\ a = [n \in Nodes |-> 0] /\ b = [n \in Nodes |-> 0]
        /\ wired = 0 /\ phase = "wire" /\ start = 0 /\ mode = "call"
        /\ cur = 0 /\ depth = 0 /\ stack = <<>> /\ seen = {} /\ ret = "-" /\ work = 0 /\ out = <<>>

Wire == /\ phase = "wire" /\ wired < N
        /\ \E k \in Kinds : \E x \in DomA(k) : \E y \in DomB(k) :
              /\ kind' = [kind EXCEPT ![wired + 1] = k]
              /\ a' = [a EXCEPT ![wired + 1] = x]
              /\ b' = [b EXCEPT ![wired + 1] = y]
        /\ wired' = wired + 1
        /\ UNCHANGED <<Walker, phase, start, mode, cur, depth, stack, seen, ret, work, out>>

Finish(o) == /\ phase' = "done" /\ out' = o
Overflow  == phase' = "overflow"

(* ------------------------------------------------------------------------ *)
(* "resolve": resolvePath + CycleCheck.step (Decode's loop is the same)     *)
(* ------------------------------------------------------------------------ *)
\* Resolve(Reference(s)) for any s, also a number without object
ResolveBegin == /\ phase = "wire" /\ wired = N /\ Walker = "resolve"
                /\ \E s \in 1..Dangling : start' = s /\ cur' = s
                /\ phase' = "walk" /\ seen' = {} /\ depth' = 0
                /\ UNCHANGED <<wiring, wired, mode, stack, ret, work, out>>
\* path.step(ref): cycle -> ErrCycle
ResolveCycle == /\ phase = "walk" /\ Walker = "resolve"
                /\ G_SEEN /\ cur \in seen
                /\ Finish(<<"cycle">>)
                /\ UNCHANGED <<wiring, wired, start, mode, cur, depth, stack, seen, ret, work>>
\* path.step(ref): too deep -> ErrDepth
ResolveDepth == /\ phase = "walk" /\ Walker = "resolve"
                /\ ~(G_SEEN /\ cur \in seen)
                /\ G_DEPTH /\ depth + 1 > MaxDepth
                /\ Finish(<<"depth">>)
                /\ UNCHANGED <<wiring, wired, start, mode, cur, depth, stack, seen, ret, work>>
\* g.Get(ref): follow, or stop at a non-reference
ResolveGet == /\ phase = "walk" /\ Walker = "resolve"
              /\ ~(G_SEEN /\ cur \in seen)
              /\ ~(G_DEPTH /\ depth + 1 > MaxDepth)
              /\ seen' = seen \cup {cur} /\ depth' = Sat(depth) /\ work' = Tick(work)
              /\ IF cur = Dangling THEN Finish(<<"null">>) /\ cur' = cur
                 ELSE IF kind[cur] = "ref" THEN cur' = a[cur] /\ UNCHANGED <<phase, out>>
                 ELSE Finish(<<"val", cur>>) /\ cur' = cur
              /\ UNCHANGED <<wiring, wired, start, mode, stack, ret>>
ResolveNext == ResolveBegin \/ ResolveCycle \/ ResolveDepth \/ ResolveGet

(* ------------------------------------------------------------------------ *)
(* "length": Reader.get, getFromObjStm, ReadObject, ReadStreamData          *)
(* ------------------------------------------------------------------------ *)
\* frames
Frame(op, n, can, sc, p, i, d) == [op |-> op, n |-> n, can |-> can, sc |-> sc, path |-> p, i |-> i, d |-> d]
FGet(n, can, sc)     == Frame("get", n, can, sc, {}, 0, 0)
FRes(p, can, sc)     == Frame("res", 0, can, sc, p, 0, 0)
FStmLen(n)           == Frame("stmlen", n, FALSE, FALSE, {}, 0, 0)
FCont(m)             == Frame("cont", m, FALSE, FALSE, {}, 0, 0)
FMemLen(m)           == Frame("memlen", m, FALSE, FALSE, {}, 0, 0)
FCFil(m)             == Frame("cfil", m, FALSE, FALSE, {}, 0, 0)
Top    == stack[Len(stack)]
Pop    == SubSeq(stack, 1, Len(stack) - 1)
Push(s, f) == Append(s, f)
\* resolve(getter, Reference(r), can) with scalar mode sc: first step never fails
CallResolve(s, r, can, sc) == Push(Push(s, FRes({r}, can, sc)), FGet(r, can, sc))
RetV(t, v) == [t |-> t, v |-> v]

\* the public call: Reader.Get(Reference(s), true)
LengthBegin == /\ phase = "wire" /\ wired = N /\ Walker = "length"
               /\ \E s \in 1..Dangling : start' = s /\ stack' = <<FGet(s, TRUE, FALSE)>>
               /\ phase' = "walk" /\ mode' = "call"
               /\ UNCHANGED <<wiring, wired, cur, depth, seen, ret, work, out>>

LengthGuard == phase = "walk" /\ Walker = "length" /\ Len(stack) > 0
\* the Go stack is exhausted: fatal error, the process dies
LengthOverflow == /\ LengthGuard /\ Len(stack) > StackCap
                  /\ Overflow
                  /\ UNCHANGED <<wiring, wired, start, mode, cur, depth, stack, seen, ret, work, out>>

Returns(v) == /\ stack' = Pop /\ ret' = v /\ mode' = "ret"
\* where the cross-reference table says object n lives
Loc(n) == IF n = Dangling THEN Dangling ELSE b[n]

\* Reader.get: free entry or unknown number -> nil
GetFree == /\ LengthGuard /\ Len(stack) <= StackCap /\ mode = "call" /\ Top.op = "get"
           /\ Loc(Top.n) = Dangling
           /\ Returns(RetV("null", 0))
           /\ UNCHANGED <<wiring, wired, phase, start, cur, depth, seen, work, out>>
\* Reader.get: compressed object
GetCompressed ==
           /\ LengthGuard /\ Len(stack) <= StackCap /\ mode = "call" /\ Top.op = "get"
           /\ Loc(Top.n) \in Nodes
           /\ IF ~Top.can
              THEN /\ Returns(RetV("err", 0))      \* "object in object stream"
              ELSE \* getFromObjStm: resolve(r, sRef, false), then decode and pick the member
                   /\ stack' = CallResolve(Push(Pop, FCont(Top.n)), b[Top.n], FALSE, FALSE)
                   /\ UNCHANGED <<ret, mode>>
           /\ UNCHANGED <<wiring, wired, phase, start, cur, depth, seen, work, out>>
\* Reader.get: object at top level, scanner.ReadIndirectObject
GetTop ==  /\ LengthGuard /\ Len(stack) <= StackCap /\ mode = "call" /\ Top.op = "get"
           /\ Loc(Top.n) = 0
           /\ work' = Tick(work)
           /\ LET n == Top.n k == kind[n] IN
              CASE k = "int"  -> Returns(RetV("int", 0))
                [] k = "ref"  -> Returns(RetV("ref", a[n]))
                [] k = "dict" -> IF Top.sc /\ G_SCALAR THEN Returns(RetV("err", 0)) ELSE Returns(RetV("dict", n))
                [] k = "name" -> Returns(RetV("name", n))
                \* the /Filter of a stream matters only when it is decoded
                [] k = "fstream" -> IF Top.sc /\ G_SCALAR THEN Returns(RetV("err", 0)) ELSE Returns(RetV("stream", n))
                [] k = "stream" ->
                     IF Top.sc /\ G_SCALAR THEN Returns(RetV("err", 0))     \* scalarOnly: composite refused
                     ELSE IF a[n] = 0 THEN Returns(RetV("stream", n))       \* direct /Length
                     \* ReadStreamData: s.getInt(/Length) = resolve(lengthGetter, ref, canObjStm)
                     ELSE /\ stack' = CallResolve(Push(Pop, FStmLen(n)), a[n], Top.can, TRUE)
                          /\ UNCHANGED <<ret, mode>>
           /\ UNCHANGED <<wiring, wired, phase, start, cur, depth, seen, out>>
\* resolvePath loop: a value came back from g.Get
ResRet ==  /\ LengthGuard /\ mode = "ret" /\ Top.op = "res"
           /\ IF ret.t = "ref"
              THEN LET r == ret.v IN
                   IF G_SEEN /\ r \in Top.path THEN Returns(RetV("err", 0))                    \* ErrCycle
                   ELSE IF G_DEPTH /\ Cardinality(Top.path) + 1 > MaxDepth THEN Returns(RetV("err", 0)) \* ErrDepth
                   ELSE /\ stack' = Push(Push(Pop, FRes(Top.path \cup {r}, Top.can, Top.sc)), FGet(r, Top.can, Top.sc))
                        /\ mode' = "call" /\ UNCHANGED ret
              ELSE Returns(ret)                                     \* value, null or error
           /\ UNCHANGED <<wiring, wired, phase, start, cur, depth, seen, work, out>>
\* ReadStreamData continues whatever the length lookup gave (recovery scan)
StmLenRet == /\ LengthGuard /\ mode = "ret" /\ Top.op = "stmlen"
             /\ Returns(RetV("stream", Top.n))
             /\ UNCHANGED <<wiring, wired, phase, start, cur, depth, seen, work, out>>
\* contents.s.ReadObject() for member m of the decoded container: NOT in scalar mode
Member(m) ==
  LET k == kind[m] IN
  CASE k = "int"  -> Returns(RetV("int", 0))
    \* ReadObject leaves the detection of "n g R" to its caller, and getFromObjStm
    \* does not do it: a bare reference inside an object stream comes back as the integer n
    [] k = "ref"  -> Returns(RetV("int", 0))
    [] k = "dict" -> Returns(RetV("dict", m))
    [] k = "name" -> Returns(RetV("name", m))
    [] k = "fstream" -> Returns(RetV("err", 0))         \* stream-like member with a direct /Length
    [] k = "stream" ->
         \* a dictionary followed by the keyword stream inside an object stream.
         \* ReadStreamData can never read it (no file reader), but before a5e87d4 it
         \* resolved /Length first, through a getter that may open object streams.
         IF G_STMFIRST \/ a[m] = 0 THEN Returns(RetV("err", 0))
         ELSE /\ stack' = CallResolve(Push(Pop, FMemLen(m)), a[m], TRUE, TRUE)
              /\ mode' = "call" /\ UNCHANGED ret
\* getFromObjStm: the container came back
ContRet == /\ LengthGuard /\ mode = "ret" /\ Top.op = "cont"
           /\ IF ret.t # "stream"
              THEN Returns(RetV("err", 0)) /\ UNCHANGED work       \* "got %T instead object stream"
              \* getObjStm -> DecodeStream -> GetFilters: an indirect /Filter (or /DecodeParms, or an
              \* element of those arrays) is resolved first - with canObjStm = false
              ELSE IF kind[ret.v] = "fstream" /\ a[ret.v] # 0
              THEN /\ stack' = CallResolve(Push(Pop, FCFil(Top.n)), a[ret.v], ~G_FILTERTOP, FALSE)
                   /\ mode' = "call" /\ UNCHANGED <<ret, work>>
              ELSE work' = Tick(work) /\ Member(Top.n)
           /\ UNCHANGED <<wiring, wired, phase, start, cur, depth, seen, out>>
\* the filter description came back: a name (or nothing) lets the decode go on
CFilRet == /\ LengthGuard /\ mode = "ret" /\ Top.op = "cfil"
           /\ IF ret.t \in {"name", "null"} THEN work' = Tick(work) /\ Member(Top.n)
              ELSE Returns(RetV("err", 0)) /\ UNCHANGED work
           /\ UNCHANGED <<wiring, wired, phase, start, cur, depth, seen, out>>
MemLenRet == /\ LengthGuard /\ mode = "ret" /\ Top.op = "memlen"
             /\ Returns(RetV("err", 0))                            \* "cannot read stream data"
             /\ UNCHANGED <<wiring, wired, phase, start, cur, depth, seen, work, out>>
\* the public call returns
LengthEnd == /\ phase = "walk" /\ Walker = "length" /\ Len(stack) = 0 /\ mode = "ret"
             /\ Finish(<<ret.t>>)
             /\ UNCHANGED <<wiring, wired, start, mode, cur, depth, stack, seen, ret, work>>
LengthNext == LengthBegin \/ LengthOverflow \/ GetFree \/ GetCompressed \/ GetTop \/ ResRet
              \/ StmLenRet \/ ContRet \/ CFilRet \/ MemLenRet \/ LengthEnd

(* ------------------------------------------------------------------------ *)
(* "xref": readXRef, the /Prev chain with seen[start] and /XRefStm          *)
(* ------------------------------------------------------------------------ *)
\* startxref points at section 1
XrefBegin == /\ phase = "wire" /\ wired = N /\ Walker = "xref"
             /\ start' = 1 /\ cur' = 1 /\ phase' = "walk" /\ seen' = {}
             /\ UNCHANGED <<wiring, wired, mode, depth, stack, ret, work, out>>
\* for !seen[start]: the loop condition fails -> return the merged table
XrefSeen == /\ phase = "walk" /\ Walker = "xref"
            /\ G_SEEN /\ cur \in seen
            /\ Finish(<<"ok">>)
            /\ UNCHANGED <<wiring, wired, start, mode, cur, depth, stack, seen, ret, work>>
XrefRead == /\ phase = "walk" /\ Walker = "xref"
            /\ ~(G_SEEN /\ cur \in seen)
            /\ work' = Tick(work)
            /\ LET k == kind[cur]
                   \* a table's /XRefStm is decoded once per distinct offset
                   stmNew == k = "table" /\ b[cur] # Absent /\ ~(G_SEEN /\ b[cur] \in (seen \cup {cur}))
                   stmBad == stmNew /\ (b[cur] = Dangling \/ kind[b[cur]] # "stream")
                   seen1 == seen \cup {cur} \cup (IF stmNew THEN {b[cur]} ELSE {})
               IN IF k = "other" \/ stmBad THEN Finish(<<"err">>) /\ UNCHANGED <<cur, seen>>
                  ELSE IF a[cur] = Absent THEN Finish(<<"ok">>) /\ seen' = seen1 /\ UNCHANGED cur
                  ELSE IF a[cur] = Dangling THEN Finish(<<"err">>) /\ UNCHANGED <<cur, seen>>   \* invalid /Prev
                  ELSE cur' = a[cur] /\ seen' = seen1 /\ UNCHANGED <<phase, out>>
            /\ UNCHANGED <<wiring, wired, start, mode, depth, stack, ret>>
XrefNext == XrefBegin \/ XrefSeen \/ XrefRead

(* ------------------------------------------------------------------------ *)
(* "pages": pagetree.Iterator.All (explicit todo list, frames, seen)        *)
(* ------------------------------------------------------------------------ *)
\* stack holds the saved todo lists (frames); cur is unused; ret holds todo
PagesBegin == /\ phase = "wire" /\ wired = N /\ Walker = "pages"
              /\ start' = 1 /\ ret' = <<1>> /\ seen' = {1} /\ stack' = <<>>
              /\ phase' = "walk"
              /\ UNCHANGED <<wiring, wired, mode, cur, depth, work, out>>
PagesDone == /\ phase = "walk" /\ Walker = "pages"
             /\ Len(ret) = 0 /\ Len(stack) = 0
             /\ phase' = "done"
             /\ UNCHANGED <<wiring, wired, start, mode, cur, depth, stack, seen, ret, work, out>>
\* len(todo) == 0: pop a frame
PagesPopFrame == /\ phase = "walk" /\ Walker = "pages"
                 /\ Len(ret) = 0 /\ Len(stack) > 0
                 /\ ret' = stack[Len(stack)] /\ stack' = SubSeq(stack, 1, Len(stack) - 1)
                 /\ UNCHANGED <<wiring, wired, phase, start, mode, cur, depth, seen, work, out>>
\* new kids in reverse order, unseen ones only (a kid listed twice is taken once)
NewKids(n, sn) ==
  LET k1 == a[n] k2 == b[n]
      ok2 == k2 # Absent /\ ~(G_SEEN /\ k2 \in sn)
      sn2 == IF ok2 THEN sn \cup {k2} ELSE sn
      ok1 == k1 # Absent /\ ~(G_SEEN /\ k1 \in sn2)
  IN [todo |-> (IF ok2 THEN <<k2>> ELSE <<>>) \o (IF ok1 THEN <<k1>> ELSE <<>>),
      seen |-> IF ok1 THEN sn2 \cup {k1} ELSE sn2]
PagesVisit == /\ phase = "walk" /\ Walker = "pages"
              /\ Len(ret) > 0
              /\ LET n == ret[Len(ret)] rest == SubSeq(ret, 1, Len(ret) - 1) IN
                 /\ work' = Tick(work)
                 /\ IF n = Dangling \/ kind[n] = "Other"
                    THEN ret' = rest /\ UNCHANGED <<stack, seen, out>>      \* nil dict / malformed: continue
                    ELSE IF kind[n] = "Page"
                    THEN ret' = rest /\ out' = Emit(out, n) /\ UNCHANGED <<stack, seen>>
                    ELSE LET nk == NewKids(n, seen) IN
                         /\ seen' = nk.seen /\ UNCHANGED out
                         /\ IF kind[n] = "PagesInh" /\ Len(rest) > 0
                            THEN stack' = Append(stack, rest) /\ ret' = nk.todo
                            ELSE stack' = stack /\ ret' = rest \o nk.todo
              /\ UNCHANGED <<wiring, wired, phase, start, mode, cur, depth>>
PagesNext == PagesBegin \/ PagesDone \/ PagesPopFrame \/ PagesVisit

(* ------------------------------------------------------------------------ *)
(* "outline": outline.Decode, readChildren (loop over /Next) and readItem   *)
(* (recursion into /First), visited set seeded with the root, depth cap     *)
(* ------------------------------------------------------------------------ *)
\* stack frames: where to resume the /Next loop of the enclosing level
FResume(r, d) == Frame("resume", r, FALSE, FALSE, {}, 0, d)
OutlineBegin == /\ phase = "wire" /\ wired = N /\ Walker = "outline"
                /\ start' = Root /\ cur' = 1 /\ depth' = 0 /\ seen' = {Root} /\ stack' = <<>>
                /\ phase' = "walk"
                /\ UNCHANGED <<wiring, wired, mode, ret, work, out>>
OutlineStops == cur = Absent \/ (G_SEEN /\ cur \in seen) \/ (G_DEPTH /\ depth >= MaxDepth)
\* the /Next loop of this level ends: return to the enclosing readItem
OutlineReturn == /\ phase = "walk" /\ Walker = "outline"
                 /\ OutlineStops
                 /\ IF Len(stack) = 0 THEN phase' = "done" /\ UNCHANGED <<cur, depth, stack>>
                    ELSE /\ cur' = Top.n /\ depth' = Top.d
                         /\ stack' = Pop /\ UNCHANGED phase
                 /\ UNCHANGED <<wiring, wired, start, mode, seen, ret, work, out>>
OutlineItem == /\ phase = "walk" /\ Walker = "outline"
               /\ ~OutlineStops
               /\ Len(stack) <= StackCap
               /\ seen' = seen \cup {cur} /\ work' = Tick(work)
               /\ IF cur \in Nodes /\ kind[cur] = "other"
                  THEN Finish(<<"err">>) /\ UNCHANGED <<cur, depth, stack>>     \* c.Dict fails: Decode returns the error
                  ELSE LET first == IF cur = Dangling THEN Absent ELSE IF cur = Root THEN 1 ELSE a[cur]
                           next  == IF cur \in Nodes THEN b[cur] ELSE Absent
                       IN /\ out' = Emit(out, cur)
                          /\ stack' = Push(stack, FResume(next, depth))
                          /\ cur' = first /\ depth' = Sat(depth)
                          /\ UNCHANGED phase
               /\ UNCHANGED <<wiring, wired, start, mode, ret>>
OutlineOverflow == /\ phase = "walk" /\ Walker = "outline" /\ ~OutlineStops /\ Len(stack) > StackCap
                   /\ Overflow
                   /\ UNCHANGED <<wiring, wired, start, mode, cur, depth, stack, seen, ret, work, out>>
OutlineNext == OutlineBegin \/ OutlineReturn \/ OutlineItem \/ OutlineOverflow

(* ------------------------------------------------------------------------ *)
(* "nametree": pdftree.FromFile.All / yieldFromNode                         *)
(* ------------------------------------------------------------------------ *)
\* frames: node being expanded and the index of the next kid (1, 2, 3 = done)
FNode(n, i, d) == Frame("node", n, FALSE, FALSE, {}, i, d)
FIdx(f) == f.i
FDep(f) == f.d
TreeBegin == /\ phase = "wire" /\ wired = N /\ Walker = "nametree"
             /\ start' = 1 /\ seen' = {1} /\ work' = Tick(work)
             /\ stack' = <<FNode(1, 1, 0)>> /\ phase' = "walk"
             /\ UNCHANGED <<wiring, wired, mode, cur, depth, ret, out>>
TreeDone == /\ phase = "walk" /\ Walker = "nametree" /\ Len(stack) = 0
            /\ phase' = "done"
            /\ UNCHANGED <<wiring, wired, start, mode, cur, depth, stack, seen, ret, work, out>>
TreeStep == /\ phase = "walk" /\ Walker = "nametree" /\ Len(stack) > 0 /\ Len(stack) <= StackCap
            /\ LET f == Top n == f.n i == FIdx(f) d == FDep(f) IN
               IF (G_DEPTH /\ d >= MaxDepth) \/ n = Dangling \/ kind[n] = "other"
               THEN stack' = Pop /\ UNCHANGED <<seen, work, out>>            \* too deep / nil dict / not a dict
               ELSE IF kind[n] = "leaf"
               THEN stack' = Pop /\ out' = Emit(out, n) /\ UNCHANGED <<seen, work>>
               ELSE IF i > 2 THEN stack' = Pop /\ UNCHANGED <<seen, work, out>>
               ELSE LET kid == IF i = 1 THEN a[n] ELSE b[n]
                        adv == Push(Pop, FNode(n, i + 1, d))
                    IN IF kid = Absent \/ (G_SEEN /\ kid \in seen)
                       THEN stack' = adv /\ UNCHANGED <<seen, work, out>>
                       ELSE /\ seen' = seen \cup {kid} /\ work' = Tick(work)
                            /\ stack' = Push(adv, FNode(kid, 1, IF d <= MaxDepth THEN d + 1 ELSE d))
                            /\ UNCHANGED out
            /\ UNCHANGED <<wiring, wired, phase, start, mode, cur, depth, ret>>
TreeOverflow == /\ phase = "walk" /\ Walker = "nametree" /\ Len(stack) > StackCap
                /\ Overflow
                /\ UNCHANGED <<wiring, wired, start, mode, cur, depth, stack, seen, ret, work, out>>
TreeNext == TreeBegin \/ TreeDone \/ TreeStep \/ TreeOverflow

(* ------------------------------------------------------------------------ *)
(* "filters": DecodeStream -> GetFilters (chain cap) -> resolveJBIG2Globals *)
(* -> ReadAll -> DecodeStream ... with the CycleCheck path                  *)
(* ------------------------------------------------------------------------ *)
\* cur: stream being opened, seen: the path, depth: decoders stacked.
\* GetFilters(start) only READS the globals of start; reading a globals stream
\* that is itself JBIG2 coded DECODES it, with its own globals.  The content of
\* the materialised streams: "plain" and "max" hold zero bytes (valid, empty
\* globals), a "jbig2" stream decodes to a bitmap, which is not a sequence of
\* global segments: a JBIG2 stream below the start whose globals are again a
\* JBIG2 stream cannot be decoded.  mode = "bad" remembers that.
FiltersBegin == /\ phase = "wire" /\ wired = N /\ Walker = "filters"
                /\ start' = 1 /\ cur' = 1 /\ seen' = {} /\ depth' = 0 /\ phase' = "walk" /\ mode' = "call"
                /\ UNCHANGED <<wiring, wired, stack, ret, work, out>>
FiltersEnd(o) == Finish(IF mode = "bad" /\ o = <<"ok">> THEN <<"err">> ELSE o)
FiltersOpen == /\ phase = "walk" /\ Walker = "filters"
               /\ work' = Tick(work)
               /\ LET k == kind[cur] IN
                  CASE k = "other" -> FiltersEnd(<<"ok">>) /\ UNCHANGED <<cur, seen, depth, mode, stack>>     \* globals not a stream: ignored
                    [] k = "plain" -> FiltersEnd(<<"ok">>) /\ UNCHANGED <<cur, seen, depth, mode, stack>>
                    [] k = "max"   -> FiltersEnd(<<"ok">>) /\ depth' = MaxChain /\ UNCHANGED <<cur, seen, mode, stack>>
                    [] k = "long"  -> IF G_CHAIN THEN Finish(<<"err">>) /\ UNCHANGED <<cur, seen, depth, mode, stack>>
                                      ELSE FiltersEnd(<<"ok">>) /\ depth' = MaxChain + 1 /\ UNCHANGED <<cur, seen, mode, stack>>
                    [] k = "jbig2" ->
                         IF a[cur] = Absent \/ a[cur] = Dangling THEN FiltersEnd(<<"ok">>) /\ UNCHANGED <<cur, seen, depth, mode, stack>>
                         ELSE IF G_SEEN /\ a[cur] \in seen THEN Finish(<<"err">>) /\ UNCHANGED <<cur, seen, depth, mode, stack>>  \* ErrCycle
                         \* with path.step instead of the hand-made path: ErrDepth
                         ELSE IF G_GLOBDEPTH /\ Cardinality(seen) + 1 > MaxDepth THEN Finish(<<"err">>) /\ UNCHANGED <<cur, seen, depth, mode, stack>>
                         \* resolveJBIG2Globals -> ReadAll -> DecodeStream -> GetFilters: one more level of Go recursion
                         ELSE IF Len(stack) >= StackCap THEN Overflow /\ UNCHANGED <<cur, seen, depth, mode, stack, out>>
                         ELSE /\ seen' = seen \cup {a[cur]} /\ cur' = a[cur]
                              /\ stack' = Append(stack, FNode(cur, 0, 0))
                              /\ mode' = IF seen # {} /\ kind[a[cur]] = "jbig2" THEN "bad" ELSE mode
                              /\ UNCHANGED <<phase, out, depth>>
               /\ UNCHANGED <<wiring, wired, start, ret>>
FiltersNext == FiltersBegin \/ FiltersOpen


(* ------------------------------------------------------------------------ *)
(* "decode": cursor.go Decode - nested decoders share one path and a cache  *)
(* ------------------------------------------------------------------------ *)
\* frames: decoder of node n about to look at child i (1, 2; 3 = done) with
\* the CycleCheck path p.  seen is the Extractor's cache (nodes decoded with
\* success), ret the result of the decoder that just returned.
FDec(n, i, p) == Frame("dec", n, FALSE, FALSE, p, i, 0)
\* what Decode(c, Reference(x), ...) does before it calls the decoder
Enter(x, p) == IF x \in seen THEN "hit"                                        \* cacheGet
               ELSE IF G_SEEN /\ x \in p THEN "refuse"                        \* path.step: ErrCycle
               ELSE IF G_DEPTH /\ Cardinality(p) + 1 > MaxDepth THEN "refuse" \* path.step: ErrDepth
               ELSE IF x = Dangling THEN "bad"                                \* Get gives nil: "missing ..."
               ELSE IF kind[x] = "other" THEN "bad"                           \* wrong type
               ELSE IF kind[x] = "leaf" THEN "leaf"
               ELSE "push"
Fetches(e) == e \in {"bad", "leaf", "push"}
DecBegin == /\ phase = "wire" /\ wired = N /\ Walker = "decode"
            /\ \E s \in Nodes :
                 /\ start' = s
                 /\ LET e == Enter(s, {}) IN
                    /\ work' = IF Fetches(e) THEN Tick(work) ELSE work
                    /\ IF e = "push" THEN stack' = <<FDec(s, 1, {s})>> /\ mode' = "call" /\ UNCHANGED <<ret, seen>>
                       ELSE /\ stack' = <<>> /\ mode' = "ret"
                            /\ ret' = IF e \in {"leaf", "hit"} THEN "ok" ELSE "err"
                            /\ seen' = IF e = "leaf" THEN seen \cup {s} ELSE seen
            /\ phase' = "walk"
            /\ UNCHANGED <<wiring, wired, cur, depth, out>>
DecGuard == phase = "walk" /\ Walker = "decode"
\* the decoder on top of the stack turns to its next child
DecChild == /\ DecGuard /\ mode = "call" /\ Len(stack) > 0 /\ Len(stack) <= StackCap /\ Top.i <= 2
            /\ LET f == Top
                   x == IF f.i = 1 THEN a[f.n] ELSE b[f.n]
                   adv == Push(Pop, FDec(f.n, f.i + 1, f.path))
               IN IF x = Absent THEN stack' = adv /\ UNCHANGED <<mode, ret, seen, work>>
                  ELSE LET e == Enter(x, f.path) IN
                       /\ work' = IF Fetches(e) THEN Tick(work) ELSE work
                       /\ seen' = IF e = "leaf" THEN seen \cup {x} ELSE seen
                       /\ IF e = "push" THEN stack' = Push(adv, FDec(x, 1, f.path \cup {x})) /\ UNCHANGED <<mode, ret>>
                          ELSE IF e \in {"hit", "leaf"} THEN stack' = adv /\ UNCHANGED <<mode, ret>>
                          \* the child failed: a strict decoder gives up, a permissive one goes on
                          ELSE IF kind[f.n] = "strict" THEN stack' = Pop /\ mode' = "ret" /\ ret' = "err"
                          ELSE stack' = adv /\ UNCHANGED <<mode, ret>>
            /\ UNCHANGED <<wiring, wired, phase, start, cur, depth, out>>
\* all children done: the value is published in the cache
DecDone == /\ DecGuard /\ mode = "call" /\ Len(stack) > 0 /\ Top.i > 2
           /\ seen' = seen \cup {Top.n} /\ stack' = Pop /\ mode' = "ret" /\ ret' = "ok"
           /\ UNCHANGED <<wiring, wired, phase, start, cur, depth, work, out>>
\* a nested decoder returned
DecRet == /\ DecGuard /\ mode = "ret" /\ Len(stack) > 0
          /\ IF ret = "err" /\ kind[Top.n] = "strict" THEN stack' = Pop /\ UNCHANGED <<mode, ret>>
             ELSE mode' = "call" /\ UNCHANGED <<stack, ret>>
          /\ UNCHANGED <<wiring, wired, phase, start, cur, depth, seen, work, out>>
DecEnd == /\ DecGuard /\ mode = "ret" /\ Len(stack) = 0
          /\ Finish(<<ret>>)
          /\ UNCHANGED <<wiring, wired, start, mode, cur, depth, stack, seen, ret, work>>
DecOverflow == /\ DecGuard /\ mode = "call" /\ Len(stack) > StackCap
               /\ Overflow
               /\ UNCHANGED <<wiring, wired, start, mode, cur, depth, stack, seen, ret, work, out>>
DecodeNext == DecBegin \/ DecChild \/ DecDone \/ DecRet \/ DecEnd \/ DecOverflow

(* ------------------------------------------------------------------------ *)
(* "fields": the field tree of the interactive form (/Fields = [1 0 R])     *)
(* ------------------------------------------------------------------------ *)
\* decodeNode looks at every kid once to tell sub-fields from widgets (kids
\* that are the node itself, repeated, missing or no dictionaries drop out);
\* a node with sub-fields is a group and recurses into those not seen yet, a
\* node without is a terminal field and decodes its widgets not seen yet.
\* p is the CycleCheck path (it ends in n): a kid on it cannot be resolved
\* (ErrCycle, taken for a missing kid)
KidSeq(n, p) == LET x == a[n] y == b[n]
                    ok(z) == z \in Nodes /\ z \notin p /\ kind[z] # "other"
                IN (IF ok(x) THEN <<x>> ELSE <<>>) \o (IF ok(y) /\ y # x THEN <<y>> ELSE <<>>)
Looked(n) == Cardinality(({a[n], b[n]} \ {Absent, n}))          \* kids fetched for the partition
SubFields(n, p) == SelectSeq(KidSeq(n, p), LAMBDA z : kind[z] = "field")
Widgets(n, p)   == SelectSeq(KidSeq(n, p), LAMBDA z : kind[z] = "widget")
IsGroup(n, p)   == Len(SubFields(n, p)) > 0
FFld(n, i, p) == Frame("fld", n, FALSE, FALSE, p, i, 0)
RepTick(w, k) == IF w + k < WorkCap THEN w + k ELSE WorkCap
FieldsBegin == /\ phase = "wire" /\ wired = N /\ Walker = "fields"
               /\ start' = 1 /\ seen' = {1} /\ phase' = "walk" /\ mode' = "call"
               \* decodeRoots: a root that is no dictionary is dropped
               /\ IF kind[1] = "field" THEN stack' = <<FFld(1, 1, {1})>> /\ work' = RepTick(work, 1 + Looked(1))
                  ELSE stack' = <<>> /\ work' = Tick(work)
               /\ UNCHANGED <<wiring, wired, cur, depth, ret, out>>
FieldsStep == /\ phase = "walk" /\ Walker = "fields" /\ Len(stack) > 0 /\ Len(stack) <= StackCap
              /\ LET f == Top n == f.n
                     todo == IF IsGroup(n, f.path) THEN SubFields(n, f.path) ELSE Widgets(n, f.path)
                 IN IF f.i > Len(todo)
                    THEN /\ stack' = Pop
                         /\ out' = IF IsGroup(n, f.path) THEN out ELSE Emit(out, n)      \* a terminal field
                         /\ UNCHANGED <<seen, work>>
                    ELSE LET x == todo[f.i] adv == Push(Pop, FFld(n, f.i + 1, f.path)) IN
                         IF G_SEEN /\ x \in seen THEN stack' = adv /\ UNCHANGED <<seen, work, out>>
                         \* without the global set the path of Decode still refuses an ancestor
                         ELSE IF x \in f.path THEN stack' = Pop /\ UNCHANGED <<seen, work, out>>
                         ELSE /\ seen' = seen \cup {x} /\ UNCHANGED out
                              /\ IF kind[x] = "widget" THEN stack' = adv /\ work' = Tick(work)
                                 ELSE stack' = Push(adv, FFld(x, 1, f.path \cup {x})) /\ work' = RepTick(work, 1 + Looked(x))
              /\ UNCHANGED <<wiring, wired, phase, start, mode, cur, depth, ret>>
FieldsDone == /\ phase = "walk" /\ Walker = "fields" /\ Len(stack) = 0
              /\ phase' = "done"
              /\ UNCHANGED <<wiring, wired, start, mode, cur, depth, stack, seen, ret, work, out>>
FieldsOverflow == /\ phase = "walk" /\ Walker = "fields" /\ Len(stack) > StackCap
                  /\ Overflow
                  /\ UNCHANGED <<wiring, wired, start, mode, cur, depth, stack, seen, ret, work, out>>
FieldsNext == FieldsBegin \/ FieldsStep \/ FieldsDone \/ FieldsOverflow

(* ------------------------------------------------------------------------ *)
(* "parents": inheritedFromChain, the /Parent chain with its visited set    *)
(* ------------------------------------------------------------------------ *)
ParentsBegin == /\ phase = "wire" /\ wired = N /\ Walker = "parents"
                /\ start' = 1 /\ cur' = IF kind[1] = "field" THEN a[1] ELSE Absent
                /\ seen' = {} /\ phase' = "walk"
                /\ UNCHANGED <<wiring, wired, mode, depth, stack, ret, work, out>>
ParentsStep == /\ phase = "walk" /\ Walker = "parents"
               /\ IF cur = Absent \/ (G_SEEN /\ cur \in seen) THEN phase' = "done" /\ UNCHANGED <<cur, seen, work, out>>
                  ELSE /\ seen' = seen \cup {cur} /\ work' = Tick(work)
                       /\ IF cur = Dangling \/ kind[cur] = "other" THEN phase' = "done" /\ UNCHANGED <<cur, out>>
                          ELSE cur' = a[cur] /\ out' = Emit(out, cur) /\ UNCHANGED phase
               /\ UNCHANGED <<wiring, wired, start, mode, depth, stack, ret>>
ParentsNext == ParentsBegin \/ ParentsStep

(* ------------------------------------------------------------------------ *)
(* "objwalk": walker.walkObject from the catalog (its only entry: node 1)   *)
(* ------------------------------------------------------------------------ *)
FObj(n, i) == Frame("obj", n, FALSE, FALSE, {}, i, 0)
ObjBegin == /\ phase = "wire" /\ wired = N /\ Walker = "objwalk"
            /\ start' = 1 /\ seen' = {1} /\ work' = Tick(work) /\ out' = <<1>>
            /\ stack' = <<FObj(1, 1)>> /\ phase' = "walk"
            /\ UNCHANGED <<wiring, wired, mode, cur, depth, ret>>
ObjStep == /\ phase = "walk" /\ Walker = "objwalk" /\ Len(stack) > 0
           /\ LET f == Top n == f.n IN
              IF kind[n] = "leaf" \/ f.i > 2 THEN stack' = Pop /\ UNCHANGED <<seen, work, out, phase>>
              ELSE LET x == IF f.i = 1 THEN a[n] ELSE b[n]
                       adv == Push(Pop, FObj(n, f.i + 1))
                   IN IF x = Absent \/ (G_SEEN /\ x \in seen) THEN stack' = adv /\ UNCHANGED <<seen, work, out, phase>>
                      ELSE IF x = Dangling THEN stack' = adv /\ seen' = seen \cup {x} /\ work' = Tick(work) /\ UNCHANGED <<out, phase>>
                      \* a depth cap would refuse here; as coded every reference is one more level of recursion
                      ELSE IF G_WALKDEPTH /\ Len(stack) >= MaxDepth THEN stack' = adv /\ UNCHANGED <<seen, work, out, phase>>
                      ELSE IF Len(stack) >= StackCap THEN Overflow /\ UNCHANGED <<stack, seen, work, out>>
                      ELSE /\ seen' = seen \cup {x} /\ work' = Tick(work) /\ out' = Emit(out, x)
                           /\ stack' = Push(adv, FObj(x, 1)) /\ UNCHANGED phase
           /\ UNCHANGED <<wiring, wired, start, mode, cur, depth, ret>>
ObjDone == /\ phase = "walk" /\ Walker = "objwalk" /\ Len(stack) = 0
           /\ phase' = "done"
           /\ UNCHANGED <<wiring, wired, start, mode, cur, depth, stack, seen, ret, work, out>>
ObjNext == ObjBegin \/ ObjStep \/ ObjDone


(* ------------------------------------------------------------------------ *)
(* "navnode": navnode.Decode follows /Next from the head (node 1, already   *)
(* on the path: pdf.Decode put it there) and extends the path by every node *)
(* it passes; c.Dict of a node on the path is ErrCycle                      *)
(* ------------------------------------------------------------------------ *)
NavBegin == /\ phase = "wire" /\ wired = N /\ Walker = "navnode"
            /\ start' = 1 /\ seen' = {1} /\ work' = Tick(work) /\ phase' = "walk"
            /\ IF kind[1] = "other" THEN cur' = Root /\ out' = out                \* the head is no dictionary
               ELSE cur' = a[1] /\ out' = <<1>>
            /\ UNCHANGED <<wiring, wired, mode, depth, stack, ret>>
NavStep == /\ phase = "walk" /\ Walker = "navnode"
           /\ IF cur = Root THEN Finish(<<"err">>) /\ UNCHANGED <<cur, seen, work>>
              ELSE IF cur = Absent THEN phase' = "done" /\ UNCHANGED <<cur, seen, work, out>>
              ELSE IF G_SEEN /\ cur \in seen THEN Finish(<<"err">>) /\ UNCHANGED <<cur, seen, work>>       \* ErrCycle
              ELSE /\ work' = Tick(work)
                   /\ IF cur = Dangling THEN phase' = "done" /\ UNCHANGED <<cur, seen, out>>              \* nil dictionary ends the list
                      ELSE IF kind[cur] = "other" THEN Finish(<<"err">>) /\ UNCHANGED <<cur, seen>>
                      ELSE /\ seen' = IF G_NAVACC THEN seen \cup {cur} ELSE {1, cur}
                           /\ out' = Emit(out, cur) /\ cur' = a[cur] /\ UNCHANGED phase
           /\ UNCHANGED <<wiring, wired, start, mode, depth, stack, ret>>
NavNext == NavBegin \/ NavStep

(* ------------------------------------------------------------------------ *)
Walk == CASE Walker = "resolve"  -> ResolveNext
          [] Walker = "length"   -> LengthNext
          [] Walker = "xref"     -> XrefNext
          [] Walker = "pages"    -> PagesNext
          [] Walker = "outline"  -> OutlineNext
          [] Walker = "nametree" -> TreeNext
          [] Walker = "filters"  -> FiltersNext
          [] Walker = "decode"   -> DecodeNext
          [] Walker = "fields"   -> FieldsNext
          [] Walker = "parents"  -> ParentsNext
          [] Walker = "objwalk"  -> ObjNext
          [] Walker = "navnode"  -> NavNext
Next == Wire \/ Walk
Spec == Init /\ [][Next]_vars /\ WF_vars(Next)

Ended == phase \in {"done", "overflow"}
(* ---- properties ---- *)
Termination == <>Ended
NoOverflow  == phase # "overflow"
WorkBounded == work <= Bound
ChainBounded == Walker = "filters" => depth <= MaxChain
\* safety shape of termination, used where the liveness check is too dear:
\* the work counter saturates only past the bound, so an endless walk
\* violates WorkBounded; a walk that stops early without finishing is a
\* deadlock (checked with CHECK_DEADLOCK and the Stutter step below)
Stutter == Ended /\ UNCHANGED vars
SpecD == Init /\ [][Next \/ Stutter]_vars
=============================================================================
