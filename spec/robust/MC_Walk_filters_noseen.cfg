SPECIFICATION Spec
CONSTANTS N = 2
  Walkers = {"filters"}
  MaxDepth = 4
  MaxChain = 3
  StackCap = 12
  G_SEEN = FALSE
  G_DEPTH = TRUE
  G_SCALAR = TRUE
  G_STMFIRST = TRUE
  G_CHAIN = TRUE
  G_GLOBDEPTH = TRUE
  G_WALKDEPTH = FALSE
  G_FILTERTOP = TRUE
  FSTREAM = FALSE
  G_NAVACC = TRUE
INVARIANTS NoOverflow WorkBounded ChainBounded
PROPERTY Termination
CHECK_DEADLOCK FALSE
