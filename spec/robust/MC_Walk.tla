------------------------------ MODULE MC_Walk ------------------------------
(* Exhaustive check of Walk: every wiring of N objects, every walker.        *)
(* Configurations MC_Walk_<walker>_{q,t}.cfg hold; MC_Walk_<walker>_no*.cfg *)
(* switch one guard off and must fail (negative controls).                  *)
(* MC_Walk_length_ascoded.cfg is the object layer as coded at the pinned    *)
(* commit (G_STMFIRST = FALSE): it fails with phase "overflow" - the        *)
(* unbounded recursion of a stream with an indirect /Length inside an       *)
(* object stream.                                                           *)
EXTENDS Walk
=============================================================================
