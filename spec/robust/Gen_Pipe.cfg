INIT Init
NEXT Next
CONSTANTS N = 4
