SPECIFICATION SpecD
CONSTANTS N = 2
  Walker = "resolve"
  MaxDepth = 4
  MaxChain = 3
  StackCap = 12
  G_SEEN = TRUE
  G_DEPTH = TRUE
  G_SCALAR = TRUE
  G_STMFIRST = TRUE
  G_CHAIN = TRUE
INVARIANTS EmitCase NoOverflow WorkBounded
CHECK_DEADLOCK TRUE
