------------------------------ MODULE Gen_Walk ------------------------------
(* Case generator: the exhaustive run of Walk itself.  Every terminal state *)
(* of the model (a wiring, the object the public call was made for, what    *)
(* the caller gets, the number of fetches) is printed once; the harness     *)
(* materialises the wiring as real files and drives go-pdf through the same *)
(* call.  EmitCase is evaluated as an invariant, i.e. once per distinct     *)
(* state, and is always TRUE.  ToString keeps a case on one line.           *)
EXTENDS Walk, TLC
EmitCase == Ended => PrintT(ToString(<<"C05CASE", Walker, N, kind, a, b, start, phase, out, work, Bound>>))
=============================================================================
