SPECIFICATION Spec
CONSTANTS N = 3
  CLOSE_ON_STOP = TRUE
  LAYERS = 0
  FORWARD = FALSE
  SrcErrAt = {}
INVARIANTS TypeOK StuckExplained NeverStuck
PROPERTY NoLeakAfterReturn
CHECK_DEADLOCK FALSE
