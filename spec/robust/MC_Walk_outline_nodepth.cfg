SPECIFICATION Spec
CONSTANTS N = 2
  Walkers = {"outline"}
  MaxDepth = 1
  MaxChain = 3
  StackCap = 1
  G_SEEN = TRUE
  G_DEPTH = FALSE
  G_SCALAR = TRUE
  G_STMFIRST = TRUE
  G_CHAIN = TRUE
  G_GLOBDEPTH = TRUE
  G_WALKDEPTH = FALSE
  G_FILTERTOP = TRUE
  FSTREAM = FALSE
  G_NAVACC = TRUE
INVARIANTS NoOverflow WorkBounded ChainBounded
PROPERTY Termination
CHECK_DEADLOCK FALSE
