-------------------------------- MODULE Pipe --------------------------------
(* Producer goroutine / io.Pipe / consumer that may stop at any point.      *)
(*                                                                          *)
(* Two places of go-pdf have this shape (property C05, mechanism "pipe-     *)
(* backed producers must be released when the consumer stops early"):       *)
(*                                                                          *)
(*   font/glyphdata/type1glyphs.FromStream                                  *)
(*        go func() { defer w.Close(); stream.WriteTo(w, nil) }()           *)
(*        t1Font, err = type1.Read(r)        -- the consumer; it returns on *)
(*        a parse error or as soon as it has what it needs                  *)
(*   internal/filter/dct.Decode                                             *)
(*        go func() { jpeg.DecodeStream(src, bufio(pw)); pw.Close() }()     *)
(*        return pr                          -- the consumer is the caller; *)
(*        contract: "Callers should Close the reader when they stop"        *)
(*                                                                          *)
(* io.Pipe is synchronous: Write blocks until a reader has taken all the    *)
(* data or the read end is closed (then it fails with ErrClosedPipe).       *)
(* Nothing else ever unblocks a writer.                                     *)
(*                                                                          *)
(* The consumer's Close reaches the pipe only if every layer between the    *)
(* caller and the pipe forwards it: Filter.Decode takes an io.Reader, so a  *)
(* decoder stacked on top of dct.Decode cannot close it.  LAYERS is the     *)
(* number of layers above the pipe, FORWARD says whether they forward Close.*)
EXTENDS Naturals, FiniteSets

CONSTANTS N,              \* chunks the producer wants to write
          CLOSE_ON_STOP,  \* consumer closes the read end when it stops
          LAYERS,         \* 0: consumer holds the pipe reader itself
          FORWARD,        \* layers above the pipe forward Close
          SrcErrAt        \* subset of 0..N: producer's source may fail before chunk k+1

VARIABLES ppc,      \* producer: "run" | "blocked" (inside pw.Write) | "done"
          cpc,      \* consumer: "run" | "done" (returned to its caller)
          sent,     \* chunks handed over so far
          rclosed,  \* read end closed
          wclosed,  \* write end closed (Close or CloseWithError)
          why       \* why the consumer stopped: "-" | "eof" | "error" | "early" | "close"
vars == <<ppc, cpc, sent, rclosed, wclosed, why>>

TypeOK == /\ ppc \in {"run", "blocked", "done"}
          /\ cpc \in {"run", "done"}
          /\ sent \in 0..N
          /\ rclosed \in BOOLEAN /\ wclosed \in BOOLEAN
          /\ why \in {"-", "eof", "error", "early", "close"}

Init == /\ ppc = "run" /\ cpc = "run" /\ sent = 0
        /\ rclosed = FALSE /\ wclosed = FALSE /\ why = "-"

(* ---- producer goroutine ---- *)
\* pw.Write(chunk): enters the pipe and blocks
PWrite == /\ ppc = "run" /\ sent < N
          /\ ppc' = "blocked"
          /\ UNCHANGED <<cpc, sent, rclosed, wclosed, why>>
\* the read end was closed: Write returns io.ErrClosedPipe; the goroutine
\* runs its deferred Close / CloseWithError and ends
PWriteFail == /\ ppc = "blocked" /\ rclosed
              /\ ppc' = "done" /\ wclosed' = TRUE
              /\ UNCHANGED <<cpc, sent, rclosed, why>>
\* all chunks written: w.Close()
PFinish == /\ ppc = "run" /\ sent = N
           /\ ppc' = "done" /\ wclosed' = TRUE
           /\ UNCHANGED <<cpc, sent, rclosed, why>>
\* the producer's own source fails (malformed font stream, bad JPEG):
\* CloseWithError, goroutine ends
PSrcErr == /\ ppc = "run" /\ sent \in SrcErrAt
           /\ ppc' = "done" /\ wclosed' = TRUE
           /\ UNCHANGED <<cpc, sent, rclosed, why>>

(* ---- consumer ---- *)
\* does a Close issued by the stopping consumer arrive at the pipe reader?
Reaches == CLOSE_ON_STOP /\ (LAYERS = 0 \/ FORWARD)

\* pr.Read takes the chunk of a blocked writer and releases it
CRead == /\ cpc = "run" /\ ppc = "blocked" /\ ~rclosed
         /\ ppc' = "run" /\ sent' = sent + 1
         /\ UNCHANGED <<cpc, rclosed, wclosed, why>>
\* write end closed and nothing pending: Read returns EOF / the error
CEOF == /\ cpc = "run" /\ wclosed
        /\ cpc' = "done" /\ why' = "eof"
        /\ rclosed' = (rclosed \/ Reaches)
        /\ UNCHANGED <<ppc, sent, wclosed>>
\* the consumer stops before EOF: parse error, early success, or the caller
\* simply closes what it was given
CStop(reason) ==
        /\ cpc = "run" /\ ~wclosed
        /\ cpc' = "done" /\ why' = reason
        /\ rclosed' = (rclosed \/ Reaches)
        /\ UNCHANGED <<ppc, sent, wclosed>>

Producer == PWrite \/ PWriteFail \/ PFinish \/ PSrcErr
Consumer == CRead \/ CEOF \/ \E r \in {"error", "early", "close"} : CStop(r)
Next == Producer \/ Consumer

\* the scheduler is fair to both parties; the consumer may of course decide
\* to stop (CStop is always enabled while it runs)
Spec == Init /\ [][Next]_vars /\ WF_vars(Producer) /\ WF_vars(Consumer)

(* ---- the property ---- *)
\* once the consumer has returned, the producer goroutine ends
NoLeakAfterReturn == [](cpc = "done" => <>(ppc = "done"))
\* the safety shape of the same fact (what the harness can observe after a
\* grace period): a producer blocked in Write after the consumer returned
\* without the read end being closed stays blocked forever
Stuck == cpc = "done" /\ ppc = "blocked" /\ ~rclosed
NeverStuck == ~Stuck
\* reference semantics for the trace spec: given how the consumer stopped
\* and whether its Close reached the pipe, may a goroutine remain?
RefMayLeak(closeReached) == ~closeReached
=============================================================================
