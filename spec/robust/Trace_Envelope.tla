--------------------------- MODULE Trace_Envelope ---------------------------
(* Judges the call records of the real code (harness/drive/c05 worker) with  *)
(* Envelope!CallOK.  One record = one call of the public API:                *)
(*   [case, call, outcome, n, wall_us, cpu_us, len, alloc_kb, g0, g1, gets,  *)
(*    objs, prod]                                                            *)
(* One TLC state per record; the indices of the rejected records and the     *)
(* clause each of them breaks are written to OUT.                            *)
EXTENDS Envelope, TraceLib, Json, IOUtils

Cases == Records

VARIABLES i, bad, why, done
vars == <<i, bad, why, done>>
Init == i = 1 /\ bad = <<>> /\ why = <<>> /\ done = FALSE
Step == /\ i <= Len(Cases)
        /\ i' = i + 1
        /\ IF CallOK(Cases[i]) THEN UNCHANGED <<bad, why>>
           ELSE bad' = Append(bad, i) /\ why' = Append(why, Clause(Cases[i]))
        /\ UNCHANGED done
Finish == /\ i = Len(Cases) + 1 /\ ~done
          /\ done' = TRUE
          /\ ndJsonSerialize(IOEnv.OUT, <<[bad |-> bad, why |-> why]>>)
          /\ UNCHANGED <<i, bad, why>>
Next == Step \/ Finish
Spec == Init /\ [][Next]_vars
=============================================================================
