SPECIFICATION Spec
CONSTANTS
  Mutation = "none"
  NilDictIsNull = TRUE
CHECK_DEADLOCK FALSE
