SPECIFICATION Spec
CONSTANTS
  Mutation = "none"
  NilDictIsNull = FALSE
CHECK_DEADLOCK FALSE
