\* negative control: a formatter that drops the separator after a name breaks operand round trips
\*
SPECIFICATION Spec
CONSTANTS
  Mutation = "noSepAfterName"
  NilDictIsNull = TRUE
  WriterAddsLength = TRUE
  WriterEscapesKeys = TRUE
  OpKinds = {"q", "cm", "w", "Tf", "Tj", "TJ", "'", "dq", "BDC", "B", "B*", "BT", "d", "sc", "unk", "img", "imgE", "cReg", "cSP", "cFF", "cNUL", "cCR", "cLF", "cEmpty", "cMix"}
  MaxOps = 3
  DataAlphabet = {69, 73, 32, 10, 13, 120}
  MaxData = 1
  CallSet = {"q", "Q", "BT", "ET", "BMC", "EMC", "BX", "EX", "m", "re", "l", "h", "S", "f", "n", "W", "w", "TL", "Td", "T*", "Tj", "BI"}
  MaxCalls = 1
  Pre2 = FALSE
INVARIANTS RoundTripOps SplitOK
CHECK_DEADLOCK FALSE
