--------------------------- MODULE MC_ContentOps ---------------------------
(* Exhaustive design check of ContentOps, three families of states grown by *)
(* actions from a common root:                                              *)
(*   ops   sequences of up to MaxOps operators from OpKinds (one per arity  *)
(*         class, an unknown name, ' and ", names that are prefixes of      *)
(*         others, operands that need separators or escapes, an inline      *)
(*         image, comments written as raw content and ending in every kind  *)
(*         of byte): writer then reference scanner is the identity (the     *)
(*         comments denote nothing, every other operator itself), in one    *)
(*         piece and cut at operator boundaries                             *)
(*   img   inline image data up to MaxData bytes over DataAlphabet: the     *)
(*         writer round-trips all of it; without WriterAddsLength exactly   *)
(*         the data that is not Ambiguous (finding F9, negative control)    *)
(*   nest  call sequences of the Builder up to MaxCalls: ClosingOperators   *)
(*         leads to a state that CanClose                                   *)
EXTENDS ContentOps

CONSTANTS OpKinds, MaxOps, DataAlphabet, MaxData, CallSet, MaxCalls, Pre2

N(n) == PInt(DecText(n))
B(str) == str
ImgDict == (<<87>> :> N(1)) @@ (<<72>> :> N(1)) @@ (<<66, 80, 67>> :> N(8)) @@ (<<67, 83>> :> Name(<<71>>))
ImageOp(data) == MkOp(bImage, <<Dict(ImgDict), Str(data)>>)
OpOf(k) ==
  CASE k = "q"    -> MkOp(<<113>>, <<>>)
    [] k = "cm"   -> MkOp(<<99, 109>>, <<N(1), N(0), N(0), PInt(<<45, 49>>), PReal(<<48, 46, 53>>), N(7)>>)
    [] k = "w"    -> MkOp(<<119>>, <<PReal(<<49, 46, 53>>)>>)
    [] k = "Tf"   -> MkOp(<<84, 102>>, <<Name(<<70, 49>>), N(12)>>)
    [] k = "Tj"   -> MkOp(<<84, 106>>, <<Str(<<40, 97, 92, 13>>)>>)
    [] k = "TJ"   -> MkOp(<<84, 74>>, <<Arr(<<Str(<<97>>), PInt(<<45, 50, 48>>), Str(<<0, 128>>)>>)>>)
    [] k = "'"    -> MkOp(<<39>>, <<Str(<<41>>)>>)
    [] k = "dq"   -> MkOp(<<34>>, <<N(1), N(2), Str(<<>>)>>)
    [] k = "BDC"  -> MkOp(<<66, 68, 67>>, <<Name(<<83, 35>>), Dict((<<77, 67, 73, 68>> :> N(3)) @@ (<<75>> :> Arr(<<Name(<<>>), N(1)>>)))>>)
    [] k = "B"    -> MkOp(<<66>>, <<>>)
    [] k = "B*"   -> MkOp(<<66, 42>>, <<>>)
    [] k = "BT"   -> MkOp(<<66, 84>>, <<>>)
    [] k = "d"    -> MkOp(<<100>>, <<Arr(<<>>), N(0)>>)
    [] k = "sc"   -> MkOp(<<115, 99>>, <<PReal(<<48, 46, 53>>), N(0), N(1), Null, Bool(TRUE)>>)
    [] k = "unk"  -> MkOp(<<120, 121, 122>>, <<Name(<<65>>), N(1)>>)
    \* comments: ending in a regular character, SP, FF, NUL, CR, LF; empty; with %, parentheses, EI
    [] k = "cReg"   -> MkOp(bRaw, <<Str(<<37, 110>>)>>)
    [] k = "cSP"    -> MkOp(bRaw, <<Str(<<37, 32, 110, 32>>)>>)
    [] k = "cFF"    -> MkOp(bRaw, <<Str(<<37, 110, 12>>)>>)
    [] k = "cNUL"   -> MkOp(bRaw, <<Str(<<37, 110, 9, 0>>)>>)
    [] k = "cCR"    -> MkOp(bRaw, <<Str(<<37, 110, 13>>)>>)
    [] k = "cLF"    -> MkOp(bRaw, <<Str(<<37, 110, 10>>)>>)
    [] k = "cEmpty" -> MkOp(bRaw, <<Str(<<37>>)>>)
    [] k = "cMix"   -> MkOp(bRaw, <<Str(<<37, 37, 40, 69, 73, 41, 32>>)>>)
    [] k = "img"  -> ImageOp(<<0, 255, 10, 69>>)
    [] k = "imgE" -> ImageOp(<<>>)

VARIABLES phase, ops, data, st, ncalls
vars == <<phase, ops, data, st, ncalls>>
Init == phase = "root" /\ ops = <<>> /\ data = <<>> /\ st = NestInit(Pre2) /\ ncalls = 0

AddOp == /\ phase \in {"root", "ops"} /\ Len(ops) < MaxOps
         /\ \E k \in OpKinds : ops' = Append(ops, OpOf(k))
         /\ phase' = "ops" /\ UNCHANGED <<data, st, ncalls>>
ImgStart == phase = "root" /\ phase' = "img" /\ UNCHANGED <<ops, data, st, ncalls>>
ImgGrow == /\ phase = "img" /\ Len(data) < MaxData
           /\ \E b \in DataAlphabet : data' = Append(data, b)
           /\ UNCHANGED <<phase, ops, st, ncalls>>
\* one Builder call of class c (the Builder goes on after an error: it is sticky)
Call(c) == /\ phase \in {"root", "nest"} /\ ncalls < MaxCalls /\ st.obj # "err"
           /\ st' = NestApply(st, c) /\ ncalls' = ncalls + 1
           /\ phase' = "nest" /\ UNCHANGED <<ops, data>>
Next == AddOp \/ ImgStart \/ ImgGrow \/ \E c \in CallSet : Call(c)
Spec == Init /\ [][Next]_vars

RoundTripOps == phase = "ops" => RoundTripOpsAt(ops)
SplitOK == phase = "ops" => SplitAt(ops)
\* the image alone, and between two other operators
ImageCases == {<<ImageOp(data)>>, <<OpOf("q"), ImageOp(data), OpOf("unk")>>}
ImageRoundTrip ==
  phase = "img" => \A c \in ImageCases :
     RoundTripOpsAt(c) <=> (WriterAddsLength \/ ~Ambiguous(data))
\* (negative control / repaired writer) every body round-trips
ImageAlwaysRoundTrips == phase = "img" => \A c \in ImageCases : RoundTripOpsAt(c)
ClosingOK == phase = "nest" => ClosingBalances(st)
NestTypeOK == st.obj \in Objs \cup {"err"} /\ \A i \in 1..Len(st.nest) : st.nest[i] \in Pairs
\* text objects and paths are never open at the same time as each other
NestShape == st.obj # "err" => ((st.obj = "text") <=> (\E i \in 1..Len(st.nest) : st.nest[i] = "BT"))
=============================================================================
