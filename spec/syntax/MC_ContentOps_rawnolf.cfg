\* negative control: a writer that leaves out the line feed after raw content ending in white space
\* lets a comment run into the next operator
SPECIFICATION Spec
CONSTANTS
  Mutation = "rawNoLF"
  NilDictIsNull = TRUE
  WriterAddsLength = TRUE
  WriterEscapesKeys = TRUE
  OpKinds = {"q", "cm", "w", "Tf", "Tj", "TJ", "'", "dq", "BDC", "B", "B*", "BT", "d", "sc", "unk", "img", "imgE", "cReg", "cSP", "cFF", "cNUL", "cCR", "cLF", "cEmpty", "cMix"}
  MaxOps = 3
  DataAlphabet = {69, 73, 32, 10, 13, 120}
  MaxData = 1
  CallSet = {"q", "Q", "BT", "ET", "BMC", "EMC", "BX", "EX", "m", "re", "l", "h", "S", "f", "n", "W", "w", "TL", "Td", "T*", "Tj", "BI"}
  MaxCalls = 1
  Pre2 = FALSE
INVARIANTS RoundTripOps SplitOK
CHECK_DEADLOCK FALSE
