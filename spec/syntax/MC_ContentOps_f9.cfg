\* negative control (finding F9): the writer before commits ab31f81/a9c15ec/f98abbe does not round-trip every inline image body
\* (TLC exhibits the shortest one)
SPECIFICATION Spec
CONSTANTS
  Mutation = "none"
  NilDictIsNull = TRUE
  WriterAddsLength = FALSE
  WriterEscapesKeys = FALSE
  OpKinds = {"q", "cm", "w", "Tf", "Tj", "TJ", "'", "dq", "BDC", "B", "B*", "BT", "d", "sc", "unk", "img", "imgE", "cReg", "cSP", "cFF", "cNUL", "cCR", "cLF", "cEmpty", "cMix"}
  MaxOps = 1
  DataAlphabet = {69, 73, 32, 10, 13, 120}
  MaxData = 4
  CallSet = {"q", "Q", "BT", "ET", "BMC", "EMC", "BX", "EX", "m", "re", "l", "h", "S", "f", "n", "W", "w", "TL", "Td", "T*", "Tj", "BI"}
  MaxCalls = 1
  Pre2 = FALSE
INVARIANTS ImageAlwaysRoundTrips
CHECK_DEADLOCK FALSE
