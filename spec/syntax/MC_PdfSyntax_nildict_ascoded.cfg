\* negative control: the formatter as it was before the repair of the nil Dict case
\* (types.go wrote "<<>>" for pdf.Dict(nil)); RoundTrip must fail
SPECIFICATION Spec
CONSTANTS
  Mutation = "none"
  NilDictIsNull = FALSE
  StrAlphabet = {40, 41, 92, 13, 10, 97, 0, 128}
  NameAlphabet = {35, 47, 32, 97, 49, 40, 0, 127, 128}
  MaxStr = 1
  MaxName = 1
  TokKinds = {"null", "true", "false", "int", "negint", "real", "name", "namedig", "str", "hexstr", "arr", "dict", "ref", "refmax", "nilarr", "nildict"}
  MaxToks = 3
  OptSets = {{}, {"Pretty"}, {"ContentStream"}, {"Pretty", "ContentStream", "DictTypes", "TextStringUtf8", "TrimStandardFonts"}}
  RenderStrMax = 2
  RenderNameMax = 2
  RenderNest = {"nest1"}
INVARIANTS TypeOK RoundTrip Separable OptsIrrelevant RenderSound
CHECK_DEADLOCK FALSE
