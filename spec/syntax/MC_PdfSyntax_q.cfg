\* quick: strings <= 4 over 8 letters, names <= 3 over 9 letters, triples of 16 token kinds,
\* nesting depth 2; plain and pretty (+ content stream)
SPECIFICATION Spec
CONSTANTS
  Mutation = "none"
  NilDictIsNull = TRUE
  StrAlphabet = {40, 41, 92, 13, 10, 97, 0, 128}
  NameAlphabet = {35, 47, 32, 97, 49, 40, 0, 127, 128}
  MaxStr = 4
  MaxName = 3
  TokKinds = {"null", "true", "false", "int", "negint", "real", "name", "namedig", "str", "hexstr", "arr", "dict", "ref", "refmax", "nilarr", "nildict"}
  MaxToks = 3
  OptSets = {{}, {"Pretty"}, {"ContentStream"}, {"Pretty", "ContentStream", "DictTypes", "TextStringUtf8", "TrimStandardFonts"}}
  RenderStrMax = 2
  RenderNameMax = 2
  RenderNest = {"nest1"}
INVARIANTS TypeOK RoundTrip Separable OptsIrrelevant RenderSound
CHECK_DEADLOCK FALSE
