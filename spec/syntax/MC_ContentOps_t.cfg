\* thorough: sequences of <= 3 of 25 operator kinds; inline image data <= 5 over {E,I,SP,LF,CR,x,/};
\* Builder call sequences <= 7 over 22 call classes (version >= 2.0)
SPECIFICATION Spec
CONSTANTS
  Mutation = "none"
  NilDictIsNull = TRUE
  WriterAddsLength = TRUE
  WriterEscapesKeys = TRUE
  OpKinds = {"q", "cm", "w", "Tf", "Tj", "TJ", "'", "dq", "BDC", "B", "B*", "BT", "d", "sc", "unk", "img", "imgE", "cReg", "cSP", "cFF", "cNUL", "cCR", "cLF", "cEmpty", "cMix"}
  MaxOps = 3
  DataAlphabet = {69, 73, 32, 10, 13, 120, 47}
  MaxData = 5
  CallSet = {"q", "Q", "BT", "ET", "BMC", "EMC", "BX", "EX", "m", "re", "l", "h", "S", "f", "n", "W", "w", "TL", "Td", "T*", "Tj", "BI"}
  MaxCalls = 7
  Pre2 = FALSE
INVARIANTS RoundTripOps SplitOK ImageRoundTrip ImageAlwaysRoundTrips ClosingOK NestTypeOK NestShape
CHECK_DEADLOCK FALSE
