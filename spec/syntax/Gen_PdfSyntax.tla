--------------------------- MODULE Gen_PdfSyntax ---------------------------
(* Case tables for the harness, from the same bounded value space that      *)
(* MC_PdfSyntax explores (the harness checks that the number of cases       *)
(* equals the number of states TLC counted there).                          *)
(*                                                                          *)
(*   fmt cases     [id, kind, vals, norm]: the values to hand to pdf.Format *)
(*                 and what a parse of the result must give (Norm)          *)
(*   render cases  [id, kind, bytes, norm]: a conforming rendering (Render, *)
(*                 from the standard) and what the real scanner must read   *)
(* Values are written as JSON: {"t":..., "v":...}; a dictionary as          *)
(* {"t":"dict","k":[keys],"v":[values]} with the keys in bytewise order.    *)
EXTENDS MC_PdfSyntax, Json, IOUtils, SequencesExt
CONSTANTS Emit,            \* subset of {"fmt", "render"}
          RenderToks       \* sequences of up to this many tokens get renderings

RECURSIVE ToJ(_)
ToJ(x) ==
  CASE x.t = "arr"  -> [t |-> "arr", v |-> [i \in 1..Len(x.v) |-> ToJ(x.v[i])]]
    [] x.t = "dict" -> LET ks == SortBytes(DOMAIN x.v)
                       IN [t |-> "dict", k |-> ks, v |-> [i \in 1..Len(ks) |-> ToJ(x.v[ks[i]])]]
    [] OTHER -> x
ToJSeq(xs) == [i \in 1..Len(xs) |-> ToJ(xs[i])]

SeqsUpTo(A, n) == UNION {[1..k -> A] : k \in 0..n}
\* (sequences, not sets, of cases: TLC cannot order values of different types)
StrCases  == LET q == SetToSeq(SeqsUpTo(StrAlphabet, MaxStr))  IN [i \in 1..Len(q) |-> <<Str(q[i])>>]
NameCases == LET q == SetToSeq(SeqsUpTo(NameAlphabet, MaxName)) IN [i \in 1..Len(q) |-> <<Name(q[i])>>]
KindSeqs(lo, hi) == SetToSeq(UNION {[1..n -> TokKinds] : n \in lo..hi})
Toks(f) == [i \in 1..Len(f) |-> Tok(f[i])]
TokCases(hi) == LET q == KindSeqs(1, hi) IN [i \in 1..Len(q) |-> Toks(q[i])]
\* Wrap1: <<container, kinds of the members>>
Nest1Ix == SetToSeq({"arr", "dict"} \X UNION {[1..n -> TokKinds] : n \in 0..2})
Nest1Of(p) == Container(p[1], Toks(p[2]))
Nest1Cases == [i \in 1..Len(Nest1Ix) |-> <<Nest1Of(Nest1Ix[i])>>]
\* Wrap2: <<inner, outer container, sibling kind or "-", side>>
Nest2Ix == SetToSeq(({"arr", "dict"} \X UNION {[1..n -> TokKinds] : n \in 0..2}) \X {"arr", "dict"}
                      \X ({<<"-", 0>>} \cup (TokKinds \X {1, 2})))
Nest2Of(p) ==
  LET inner == Nest1Of(p[1])  c == p[2]  k == p[3][1]  side == p[3][2]
  IN IF k = "-" THEN Container(c, <<inner>>)
     ELSE IF side = 1 THEN Container(c, <<Tok(k), inner>>)
     ELSE Container(c, <<inner, Tok(k)>>)
Nest2Cases == [i \in 1..Len(Nest2Ix) |-> <<Nest2Of(Nest2Ix[i])>>]

Tag(kd, cases) == [i \in 1..Len(cases) |->
                     [kind |-> kd, vals |-> ToJSeq(cases[i]), norm |-> ToJSeq(NormSeq(cases[i]))]]
FmtCases == Tag("str", StrCases) \o Tag("name", NameCases) \o Tag("toks", TokCases(MaxToks))
              \o Tag("nest1", Nest1Cases) \o Tag("nest2", Nest2Cases)

\* renderings
RenderOf(kd, xs, rs) == LET q == SetToSeq(rs) IN
  [i \in 1..Len(q) |-> [kind |-> kd, bytes |-> q[i], norm |-> ToJSeq(NormSeq(xs))]]
RenderStrCases ==
  LET q == SetToSeq(SeqsUpTo(StrAlphabet, RenderStrMax))
  IN Flat([i \in 1..Len(q) |-> RenderOf("rstr", <<Str(q[i])>>, Render(Str(q[i])))])
RenderNameCases ==
  LET q == SetToSeq(SeqsUpTo(NameAlphabet, RenderNameMax))
  IN Flat([i \in 1..Len(q) |-> RenderOf("rname", <<Name(q[i])>>, Render(Name(q[i])))])
RenderTokCases ==
  LET q == TokCases(RenderToks)
  IN Flat([i \in 1..Len(q) |-> RenderOf("rtoks", q[i], RenderSeq(q[i]) \cup (IF Len(q[i]) = 1 THEN Render(q[i][1]) ELSE {}))])
RenderNestCases ==
  Flat([i \in 1..Len(Nest1Cases) |-> RenderOf("rnest", Nest1Cases[i], Render(Nest1Cases[i][1]))])
RenderCases == RenderStrCases \o RenderNameCases \o RenderTokCases \o RenderNestCases

All == (IF "fmt" \in Emit THEN FmtCases ELSE <<>>) \o (IF "render" \in Emit THEN RenderCases ELSE <<>>)
ASSUME ndJsonSerialize(IOEnv.OUT, [i \in 1..Len(All) |-> [id |-> i] @@ All[i]])

GenInit == kind = "root" /\ cur = <<>>
GenNext == UNCHANGED vars
=============================================================================
