----------------------------- MODULE SyntaxJson -----------------------------
(* Values of PdfSyntax <-> the JSON documents exchanged with the harness.    *)
(*   {"t":..., "v":...}; a dictionary is {"t":"dict","k":[keys],"v":[values]} *)
(*   {"t":"chain","c":links,"v":inner}: a tower of single-member containers   *)
(*   around inner (TLC's JSON reader is limited to 255 levels); a link is     *)
(*   <<0>> for an array, <<1>> \o key for a dictionary.                       *)
(* Reals whose "v" is empty are compared by token shape only (the digits of   *)
(* a float64 are outside the model).                                          *)
EXTENDS PdfSyntax, TraceLib

RECURSIVE Unchain(_, _, _)
Unchain(c, n, inner) ==
  IF n > Len(c) THEN inner
  ELSE LET rest == Unchain(c, n + 1, inner)
       IN IF c[n][1] = 0 THEN Arr(<<rest>>) ELSE Dict([q \in {Tail(c[n])} |-> rest])
RECURSIVE FromJ(_)
FromJ(j) ==
  CASE j.t = "chain" -> Unchain(j.c, 1, FromJ(j.v))
    [] j.t = "arr"  -> Arr([i \in 1..Len(j.v) |-> FromJ(j.v[i])])
    [] j.t = "dict" -> Dict([q \in ToSet(j.k) |-> FromJ(j.v[CHOOSE i \in 1..Len(j.k) : j.k[i] = q])])
    [] OTHER -> [t |-> j.t, v |-> j.v]
FromJSeq(js) == [i \in 1..Len(js) |-> FromJ(js[i])]

RECURSIVE ToJ(_)
ToJ(x) ==
  CASE x.t = "arr"  -> [t |-> "arr", v |-> [i \in 1..Len(x.v) |-> ToJ(x.v[i])]]
    [] x.t = "dict" -> LET ks == SortBytes(DOMAIN x.v)
                       IN [t |-> "dict", k |-> ks, v |-> [i \in 1..Len(ks) |-> ToJ(x.v[ks[i]])]]
    [] OTHER -> x
ToJSeq(xs) == [i \in 1..Len(xs) |-> ToJ(xs[i])]

\* equality of values, except that a wanted real without digits matches any real
RECURSIVE Matches(_, _)
Matches(got, want) ==
  /\ got.t = want.t
  /\ CASE got.t = "arr"  -> Len(got.v) = Len(want.v) /\ \A i \in 1..Len(got.v) : Matches(got.v[i], want.v[i])
        [] got.t = "dict" -> DOMAIN got.v = DOMAIN want.v /\ \A k \in DOMAIN got.v : Matches(got.v[k], want.v[k])
        [] got.t = "real" -> want.v = <<>> \/ got.v = want.v
        [] OTHER -> got.v = want.v
MatchesSeq(gs, ws) == Len(gs) = Len(ws) /\ \A i \in 1..Len(gs) : Matches(gs[i], ws[i])
Has(c, f) == f \in DOMAIN c
=============================================================================
