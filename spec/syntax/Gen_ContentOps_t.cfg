\* thorough: as MC_ContentOps_t.cfg; Builder call sequences <= 4 (those with Builder methods)
\*
INIT GenInit
NEXT GenNext
CONSTANTS
  Mutation = "none"
  NilDictIsNull = TRUE
  WriterAddsLength = TRUE
  WriterEscapesKeys = TRUE
  OpKinds = {"q", "cm", "w", "Tf", "Tj", "TJ", "'", "dq", "BDC", "B", "B*", "BT", "d", "sc", "unk", "img", "imgE", "cReg", "cSP", "cFF", "cNUL", "cCR", "cLF", "cEmpty", "cMix"}
  MaxOps = 3
  DataAlphabet = {69, 73, 32, 10, 13, 120, 47}
  MaxData = 5
  CallSet = {"q", "Q", "BT", "ET", "BMC", "EMC", "m", "re", "l", "h", "S", "f", "n", "W", "w", "TL", "Td", "T*", "Tj", "BI"}
  MaxCalls = 5
  Pre2 = FALSE
  Emit = {"ops", "img", "builder"}
  GenCalls = 4
CHECK_DEADLOCK FALSE
