SPECIFICATION Spec
CONSTANTS
  Mutation = "none"
  NilDictIsNull = TRUE
  WriterAddsLength = TRUE
  WriterEscapesKeys = TRUE
CHECK_DEADLOCK FALSE
