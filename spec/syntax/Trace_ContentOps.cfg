SPECIFICATION Spec
CONSTANTS
  Mutation = "none"
  NilDictIsNull = TRUE
  WriterAddsLength = FALSE
  WriterEscapesKeys = FALSE
CHECK_DEADLOCK FALSE
