\* thorough: strings <= 5 over 8 letters, names <= 4 over 9 letters, triples of 23 token kinds,
\* nesting depth 2, six option sets (all 32 on the real code), renderings of strings/names <= 3
SPECIFICATION Spec
CONSTANTS
  Mutation = "none"
  NilDictIsNull = TRUE
  StrAlphabet = {40, 41, 92, 13, 10, 97, 0, 128}
  NameAlphabet = {35, 47, 32, 97, 49, 40, 0, 127, 128}
  MaxStr = 5
  MaxName = 4
  TokKinds = {"null", "true", "false", "int", "negint", "zero", "real", "negreal", "realdot", "name", "namedig", "emptyname", "str", "emptystr", "hexstr", "arr", "emptyarr", "dict", "emptydict", "ref", "refmax", "nilarr", "nildict"}
  MaxToks = 3
  OptSets = {{}, {"Pretty"}, {"ContentStream"}, {"DictTypes", "TextStringUtf8"}, {"Pretty", "TrimStandardFonts"}, {"Pretty", "ContentStream", "DictTypes", "TextStringUtf8", "TrimStandardFonts"}}
  RenderStrMax = 3
  RenderNameMax = 3
  RenderNest = {"nest1"}
INVARIANTS TypeOK RoundTrip Separable OptsIrrelevant RenderSound
CHECK_DEADLOCK FALSE
