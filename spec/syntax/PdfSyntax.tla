------------------------------ MODULE PdfSyntax ------------------------------
(* Object syntax of PDF (ISO 32000-2, 7.2 "Lexical conventions" and 7.3     *)
(* "Objects") and the formatter of go-pdf (types.go).                       *)
(*                                                                          *)
(*   Impl...   transcription of types.go: Format / doFormat / formatName /  *)
(*             formatString / formatDict / Dict.SortedKeys (code-shaped:    *)
(*             the needSep flag, the two parenthesis counters, the 9:1      *)
(*             printable rule, ...).  Used for design checking only.        *)
(*   Ref...    written from the standard, not from scanner.go: RefScan is a *)
(*             tokenizer + parser, Render the set of conforming renderings  *)
(*             of a value.  Acceptance of real executions refers to these.  *)
(*                                                                          *)
(* Bytes are naturals 0..255; byte strings are sequences of bytes.          *)
EXTENDS Naturals, Integers, Sequences, FiniteSets, TLC

CONSTANTS
  Mutation,      \* "none", or the name of a seeded defect of the formatter (negative controls)
  NilDictIsNull  \* TRUE: a nil Dict is written "null" like a nil Array (types.go since the repair of
                 \* finding C01/nil-dict); FALSE: the formatter before it ("<<>>"), a negative control

-----------------------------------------------------------------------------
(* 7.2.3  Character set *)
WS      == {0, 9, 10, 12, 13, 32}
Delim   == {40, 41, 60, 62, 91, 93, 123, 125, 47, 37}
IsWS(b)      == b \in WS
IsDelim(b)   == b \in Delim
IsRegular(b) == b \notin WS /\ b \notin Delim
EOF == 256
At(s, i) == IF i >= 1 /\ i <= Len(s) THEN s[i] ELSE EOF
IsDigit(b)  == b >= 48 /\ b <= 57
IsOct(b)    == b >= 48 /\ b <= 55
NoHex == 99
HexVal(b) == IF b >= 48 /\ b <= 57 THEN b - 48
             ELSE IF b >= 65 /\ b <= 70 THEN b - 55
             ELSE IF b >= 97 /\ b <= 102 THEN b - 87 ELSE NoHex
IsHex(b) == b # EOF /\ HexVal(b) # NoHex
HexLower(n) == IF n < 10 THEN 48 + n ELSE 87 + n
HexUpper(n) == IF n < 10 THEN 48 + n ELSE 55 + n
Hex2L(c) == <<HexLower(c \div 16), HexLower(c % 16)>>
Hex2U(c) == <<HexUpper(c \div 16), HexUpper(c % 16)>>

RECURSIVE Flat(_)
Flat(ss) == IF ss = <<>> THEN <<>> ELSE Head(ss) \o Flat(Tail(ss))

\* some byte strings
bNull  == <<110, 117, 108, 108>>
bTrue  == <<116, 114, 117, 101>>
bFalse == <<102, 97, 108, 115, 101>>
bType    == <<84, 121, 112, 101>>
bSubtype == <<83, 117, 98, 116, 121, 112, 101>>

-----------------------------------------------------------------------------
(* Values.  Every value is a record [t, v]:                                 *)
(*   null            v = <<>>                                               *)
(*   bool            v \in BOOLEAN                                          *)
(*   int             v = canonical decimal text ("-"? digits, no leading    *)
(*                       zeros, no "-0"): TLC integers are 32 bit, int64    *)
(*                       values are carried as their digits                 *)
(*   real            v = canonical decimal text "-"? digits "." digits      *)
(*                       (abstract token: digits are never interpreted)     *)
(*   name, str       v = the decoded bytes                                  *)
(*   arr             v = sequence of values                                 *)
(*   dict            v = function from key bytes to values                  *)
(*   ref             v = <<number text, generation text>>                   *)
(*   nilarr, nildict the Go values Array(nil), Dict(nil) (inputs only)      *)
(*   op              a content stream operator (C15; inputs of ImplFmt and  *)
(*                       results of the scanner in operator mode)           *)
Null      == [t |-> "null", v |-> <<>>]
Bool(b)   == [t |-> "bool", v |-> b]
PInt(d)    == [t |-> "int", v |-> d]
PReal(d)   == [t |-> "real", v |-> d]
Name(bs)  == [t |-> "name", v |-> bs]
Str(bs)   == [t |-> "str", v |-> bs]
Arr(xs)   == [t |-> "arr", v |-> xs]
Dict(m)   == [t |-> "dict", v |-> m]
Ref(n, g) == [t |-> "ref", v |-> <<n, g>>]
NilArr    == [t |-> "nilarr", v |-> <<>>]
NilDict   == [t |-> "nildict", v |-> <<>>]
Op(bs)    == [t |-> "op", v |-> bs]
Err       == [t |-> "err", v |-> <<>>]
EmptyMap  == [k \in {} |-> Null]

(* "a nil dictionary entry counting as absent and a nil array or dictionary *)
(* as null"                                                                 *)
RECURSIVE Norm(_)
RECURSIVE NormMap(_, _)
Norm(x) ==
  CASE x.t \in {"nilarr", "nildict"} -> Null
    [] x.t = "arr"  -> Arr([i \in 1..Len(x.v) |-> Norm(x.v[i])])
    [] x.t = "dict" -> Dict(NormMap(x.v, DOMAIN x.v))
    [] OTHER -> x
\* (one evaluation of Norm per entry: TLC does not cache function applications)
NormMap(m, S) ==
  IF S = {} THEN EmptyMap
  ELSE LET k == CHOOSE q \in S : TRUE
           n == Norm(m[k])
           rest == NormMap(m, S \ {k})
       IN IF n.t = "null" THEN rest ELSE (k :> n) @@ rest
NormSeq(xs) == [i \in 1..Len(xs) |-> Norm(xs[i])]

(* Equality of values.  (TLC refuses to compare, say, a boolean with a      *)
(* sequence, so records of different types are told apart by t first.)      *)
RECURSIVE Same(_, _)
Same(a, b) ==
  /\ a.t = b.t
  /\ CASE a.t = "arr"  -> Len(a.v) = Len(b.v) /\ \A i \in 1..Len(a.v) : Same(a.v[i], b.v[i])
        [] a.t = "dict" -> DOMAIN a.v = DOMAIN b.v /\ \A k \in DOMAIN a.v : Same(a.v[k], b.v[k])
        [] OTHER -> a.v = b.v
SameSeq(xs, ys) == Len(xs) = Len(ys) /\ \A i \in 1..Len(xs) : Same(xs[i], ys[i])

-----------------------------------------------------------------------------
(* Impl: types.go *)

\* OutputOptions is a set of option names; of the five public options only
\* OptPretty (and OptContentStream, for operators) is looked at by the code
\* that formats native values, the others are handed on to AsPDF of
\* non-native objects.
AllOpts == {"DictTypes", "TrimStandardFonts", "Pretty", "TextStringUtf8", "ContentStream"}
AllOptSets == SUBSET AllOpts
IsPretty(opts) == "Pretty" \in opts

\* formatName
ImplNameFunny(c) ==
  \/ ~IsRegular(c) \/ c < 33 \/ c > 126
  \/ (c = 35 /\ Mutation # "hashUnescaped")
ImplFmtName(bs) ==
  <<47>> \o Flat([i \in 1..Len(bs) |->
                    IF ImplNameFunny(bs[i]) THEN <<35>> \o Hex2L(bs[i]) ELSE <<bs[i]>>])

\* formatString: literal form.  level = parenthesisLevel, closing =
\* numClosingParentheses (closing parentheses at or after the position)
RECURSIVE ImplLit(_, _, _, _)
ImplLit(bs, i, level, closing) ==
  IF i > Len(bs) THEN <<41>>
  ELSE LET c == bs[i] IN
    IF c = 13 THEN (IF Mutation = "crUnescaped" THEN <<13>> ELSE <<92, 114>>) \o ImplLit(bs, i + 1, level, closing)
    ELSE IF c = 10 THEN
      (IF (i > 1 /\ bs[i - 1] = 13) \/ (i < Len(bs) /\ bs[i + 1] = 13) THEN <<92, 110>> ELSE <<10>>)
        \o ImplLit(bs, i + 1, level, closing)
    ELSE IF c = 40 THEN
      (IF level < closing THEN <<40>> \o ImplLit(bs, i + 1, level + 1, closing)
       ELSE <<92, 40>> \o ImplLit(bs, i + 1, level, closing))
    ELSE IF c = 41 THEN
      (IF level > 0 THEN <<41>> \o ImplLit(bs, i + 1, level - 1, closing - 1)
       ELSE <<92, 41>> \o ImplLit(bs, i + 1, level, closing - 1))
    ELSE IF c = 92 /\ Mutation # "backslashUnescaped" THEN <<92, 92>> \o ImplLit(bs, i + 1, level, closing)
    ELSE <<c>> \o ImplLit(bs, i + 1, level, closing)
ImplFmtStringLit(bs) ==
  <<40>> \o ImplLit(bs, 1, 0, Cardinality({j \in 1..Len(bs) : bs[j] = 41}))
ImplFmtStringHex(bs) == <<60>> \o Flat([i \in 1..Len(bs) |-> Hex2L(bs[i])]) \o <<62>>
ImplIsPrint(c) == (c >= 32 /\ c <= 126) \/ c = 10 \/ c = 13 \/ c = 9
ImplFmtString(bs, opts) ==
  LET good == Cardinality({i \in 1..Len(bs) : ImplIsPrint(bs[i])})
      bad  == Len(bs) - good
  IN IF IsPretty(opts) /\ good < 9 * bad THEN ImplFmtStringHex(bs) ELSE ImplFmtStringLit(bs)

\* Dict.SortedKeys: Type and Subtype first, the rest in bytewise order
RECURSIVE LexLess(_, _)
LexLess(a, b) == IF a = <<>> THEN b # <<>>
                 ELSE IF b = <<>> THEN FALSE
                 ELSE IF a[1] # b[1] THEN a[1] < b[1]
                 ELSE LexLess(Tail(a), Tail(b))
RECURSIVE SortBytes(_)
SortBytes(S) == IF S = {} THEN <<>>
                ELSE LET m == CHOOSE x \in S : \A y \in S \ {x} : LexLess(x, y)
                     IN <<m>> \o SortBytes(S \ {m})
ImplSortedKeys(m) ==
  LET D == DOMAIN m
  IN (IF bType \in D THEN <<bType>> ELSE <<>>) \o (IF bSubtype \in D THEN <<bSubtype>> ELSE <<>>)
       \o SortBytes(D \ {bType, bSubtype})

ImplSep(needSep) == IF needSep THEN <<32>> ELSE <<>>

RECURSIVE ImplFmt1(_, _, _)
RECURSIVE ImplFmtSeq(_, _, _, _)
RECURSIVE ImplFmtDictBody(_, _, _, _)
\* doFormat: returns <<bytes, needSep after the object>>
ImplFmt1(x, opts, needSep) ==
  CASE x.t = "null"   -> <<ImplSep(needSep) \o bNull, TRUE>>
    [] x.t = "nilarr" -> <<ImplSep(needSep) \o bNull, TRUE>>
    [] x.t = "nildict" ->
         IF NilDictIsNull THEN <<ImplSep(needSep) \o bNull, TRUE>>
         ELSE <<<<60, 60>> \o (IF IsPretty(opts) THEN <<10>> ELSE <<>>) \o <<62, 62>>, FALSE>>
    [] x.t = "bool" -> <<ImplSep(needSep) \o (IF x.v THEN bTrue ELSE bFalse), TRUE>>
    [] x.t = "int"  -> <<ImplSep(needSep) \o x.v, TRUE>>
    [] x.t = "real" -> <<ImplSep(needSep) \o x.v, TRUE>>   \* strconv 'f' -1 plus forced ".": abstract
    [] x.t = "name" -> <<ImplFmtName(x.v), Mutation # "noSepAfterName">>
    [] x.t = "str"  -> <<ImplFmtString(x.v, opts), FALSE>>
    [] x.t = "ref"  -> <<ImplSep(needSep) \o x.v[1] \o <<32>> \o x.v[2] \o <<32, 82>>, TRUE>>
    [] x.t = "op"   -> <<ImplSep(needSep) \o x.v, TRUE>>   \* only with OptContentStream (else an error)
    [] x.t = "arr"  -> <<<<91>> \o ImplFmtSeq(x.v, opts, 1, FALSE) \o <<93>>, FALSE>>
    [] x.t = "dict" ->
         LET keys == ImplSortedKeys(x.v)
             \* entries with a nil interface value are skipped; a typed nil is not
             live == SelectSeq(keys, LAMBDA k : x.v[k].t # "null")
             lastIsGt == live # <<>> /\ Same(x.v[live[Len(live)]], Op(<<62>>))
         IN <<<<60, 60>> \o (IF IsPretty(opts) THEN <<10>> ELSE <<>>)
                \o ImplFmtDictBody(x.v, live, opts, 1)
                \o (IF ~IsPretty(opts) /\ lastIsGt THEN <<32>> ELSE <<>>) \o <<62, 62>>, FALSE>>
\* formatDict
ImplFmtDictBody(m, keys, opts, i) ==
  IF i > Len(keys) THEN <<>>
  ELSE (IF IsPretty(opts)
        THEN ImplFmtName(keys[i]) \o <<32>> \o ImplFmt1(m[keys[i]], opts, FALSE)[1] \o <<10>>
        ELSE ImplFmtName(keys[i]) \o ImplFmt1(m[keys[i]], opts, Mutation # "noSepAfterName")[1])
       \o ImplFmtDictBody(m, keys, opts, i + 1)
\* Format(w, opt, objects...)
ImplFmtSeq(xs, opts, i, needSep) ==
  IF i > Len(xs) THEN <<>>
  ELSE IF IsPretty(opts)
       THEN (IF i > 1 THEN <<32>> ELSE <<>>) \o ImplFmt1(xs[i], opts, FALSE)[1] \o ImplFmtSeq(xs, opts, i + 1, FALSE)
       ELSE LET r == ImplFmt1(xs[i], opts, needSep) IN r[1] \o ImplFmtSeq(xs, opts, i + 1, r[2])
ImplFmt(xs, opts) == ImplFmtSeq(xs, opts, 1, FALSE)

-----------------------------------------------------------------------------
(* Ref: scanner written from ISO 32000-2 *)

\* 7.2.4 comments: from "%" (outside strings) to the end of the line; a
\* comment counts as one white-space character
RECURSIVE RefSkipComment(_, _)
RefSkipComment(s, i) == IF i > Len(s) \/ s[i] = 10 \/ s[i] = 13 THEN i ELSE RefSkipComment(s, i + 1)
RECURSIVE RefSkipWS(_, _)
RefSkipWS(s, i) == IF i > Len(s) THEN i
                   ELSE IF IsWS(s[i]) THEN RefSkipWS(s, i + 1)
                   ELSE IF s[i] = 37 THEN RefSkipWS(s, RefSkipComment(s, i + 1))
                   ELSE i
RECURSIVE RefRegEnd(_, _)
RefRegEnd(s, i) == IF i <= Len(s) /\ IsRegular(s[i]) THEN RefRegEnd(s, i + 1) ELSE i

\* 7.3.4.2 literal strings.  Starts after "(": returns <<bytes, position
\* after the closing parenthesis>>, position 0 on error.
RECURSIVE RefLitStr(_, _, _, _)
RefLitStr(s, i, level, acc) ==
  IF i > Len(s) THEN <<acc, 0>>
  ELSE LET c == s[i] IN
    IF c = 40 THEN RefLitStr(s, i + 1, level + 1, Append(acc, 40))
    ELSE IF c = 41 THEN (IF level = 0 THEN <<acc, i + 1>> ELSE RefLitStr(s, i + 1, level - 1, Append(acc, 41)))
    \* an end-of-line marker (CR, LF or CR LF) not preceded by "\" is one LF
    ELSE IF c = 13 THEN RefLitStr(s, IF At(s, i + 1) = 10 THEN i + 2 ELSE i + 1, level, Append(acc, 10))
    ELSE IF c = 92 THEN
      LET e == At(s, i + 1) IN
      IF e = EOF THEN <<acc, 0>>
      ELSE IF e = 110 THEN RefLitStr(s, i + 2, level, Append(acc, 10))
      ELSE IF e = 114 THEN RefLitStr(s, i + 2, level, Append(acc, 13))
      ELSE IF e = 116 THEN RefLitStr(s, i + 2, level, Append(acc, 9))
      ELSE IF e = 98  THEN RefLitStr(s, i + 2, level, Append(acc, 8))
      ELSE IF e = 102 THEN RefLitStr(s, i + 2, level, Append(acc, 12))
      \* "\" at the end of a line: the string continues on the next line
      ELSE IF e = 10 THEN RefLitStr(s, i + 2, level, acc)
      ELSE IF e = 13 THEN RefLitStr(s, IF At(s, i + 2) = 10 THEN i + 3 ELSE i + 2, level, acc)
      \* \ddd: one to three octal digits, high-order overflow ignored
      ELSE IF IsOct(e) THEN
        LET d2 == At(s, i + 2)
            d3 == At(s, i + 3)
            n  == IF d2 # EOF /\ IsOct(d2) THEN (IF d3 # EOF /\ IsOct(d3) THEN 3 ELSE 2) ELSE 1
            v  == IF n = 1 THEN e - 48
                  ELSE IF n = 2 THEN (e - 48) * 8 + (d2 - 48)
                  ELSE (e - 48) * 64 + (d2 - 48) * 8 + (d3 - 48)
        IN RefLitStr(s, i + 1 + n, level, Append(acc, v % 256))
      \* "\(", "\)", "\\" and any other character: the backslash is ignored
      ELSE RefLitStr(s, i + 2, level, Append(acc, e))
    ELSE RefLitStr(s, i + 1, level, Append(acc, c))

\* 7.3.4.3 hexadecimal strings: white space ignored, odd final digit padded
\* with 0.  Starts after "<"; half = NoHex when no digit is pending.
RECURSIVE RefHexStr(_, _, _, _)
RefHexStr(s, i, acc, half) ==
  IF i > Len(s) THEN <<acc, 0>>
  ELSE LET c == s[i] IN
    IF c = 62 THEN <<IF half = NoHex THEN acc ELSE Append(acc, half * 16), i + 1>>
    ELSE IF IsWS(c) THEN RefHexStr(s, i + 1, acc, half)
    ELSE IF ~IsHex(c) THEN <<acc, 0>>
    ELSE IF half = NoHex THEN RefHexStr(s, i + 1, acc, HexVal(c))
    ELSE RefHexStr(s, i + 1, Append(acc, half * 16 + HexVal(c)), NoHex)

\* 7.3.5 names: regular characters after "/"; "#" + two hex digits is the
\* byte with that code.  A "#" that is not followed by two hex digits is
\* kept as the character "#" (PDF 1.0/1.1 compatible reading; conforming
\* writers never produce it).
RECURSIVE RefNameBody(_, _, _)
RefNameBody(s, i, acc) ==
  IF i > Len(s) \/ ~IsRegular(s[i]) THEN <<acc, i>>
  ELSE IF s[i] = 35 /\ IsHex(At(s, i + 1)) /\ IsHex(At(s, i + 2))
       THEN RefNameBody(s, i + 3, Append(acc, HexVal(s[i + 1]) * 16 + HexVal(s[i + 2])))
  ELSE RefNameBody(s, i + 1, Append(acc, s[i]))

\* 7.3.3 numbers
AllDigits(ds) == \A k \in 1..Len(ds) : IsDigit(ds[k])
Unsigned(tok) == IF tok # <<>> /\ tok[1] \in {43, 45} THEN Tail(tok) ELSE tok
IsIntTok(tok)  == LET ds == Unsigned(tok) IN ds # <<>> /\ AllDigits(ds)
DotsIn(ds) == {k \in 1..Len(ds) : ds[k] = 46}
IsRealTok(tok) == LET ds == Unsigned(tok) IN
  /\ Cardinality(DotsIn(ds)) = 1 /\ Len(ds) >= 2
  /\ \A k \in 1..Len(ds) : IsDigit(ds[k]) \/ ds[k] = 46
RECURSIVE StripLeadingZeros(_)
StripLeadingZeros(ds) == IF Len(ds) > 1 /\ ds[1] = 48 THEN StripLeadingZeros(Tail(ds)) ELSE ds
RECURSIVE StripTrailingZeros(_)
StripTrailingZeros(ds) == IF ds # <<>> /\ ds[Len(ds)] = 48 THEN StripTrailingZeros(SubSeq(ds, 1, Len(ds) - 1)) ELSE ds
IntCanon(tok) ==
  LET ds == StripLeadingZeros(Unsigned(tok))
  IN IF tok[1] = 45 /\ ds # <<48>> THEN <<45>> \o ds ELSE ds
RealCanon(tok) ==
  LET ds  == Unsigned(tok)
      dot == CHOOSE k \in DotsIn(ds) : TRUE
      ip  == StripLeadingZeros(IF dot = 1 THEN <<48>> ELSE SubSeq(ds, 1, dot - 1))
      fp  == StripTrailingZeros(SubSeq(ds, dot + 1, Len(ds)))
      zero == ip = <<48>> /\ fp = <<>>
  IN (IF tok[1] = 45 /\ ~zero THEN <<45>> ELSE <<>>) \o ip \o <<46>> \o fp
\* a run of regular characters is a number, one of the keywords null, true,
\* false, or some other keyword
RefTokVal(tok) ==
  IF tok = bNull THEN Null
  ELSE IF tok = bTrue THEN Bool(TRUE)
  ELSE IF tok = bFalse THEN Bool(FALSE)
  ELSE IF IsIntTok(tok) THEN PInt(IntCanon(tok))
  ELSE IF IsRealTok(tok) THEN PReal(RealCanon(tok))
  ELSE Op(tok)

NonNegInt(x) == x.t = "int" /\ x.v[1] # 45
\* 7.3.10: "n g R"
RefCollapse(items) ==
  LET k == Len(items) IN
  IF k >= 2 /\ NonNegInt(items[k]) /\ NonNegInt(items[k - 1])
  THEN Append(SubSeq(items, 1, k - 2), Ref(items[k - 1].v, items[k].v)) ELSE <<Err>>

\* 7.3.7: key/value pairs; the key is a name; an entry whose value is null
\* is equivalent to an absent entry; the last of several equal keys counts
RECURSIVE RefMkDict(_, _, _)
RefMkDict(items, i, m) ==
  IF i > Len(items) THEN Dict(m)
  ELSE LET k == items[i].v
           x == items[i + 1]
           others == [q \in DOMAIN m \ {k} |-> m[q]]
       IN RefMkDict(items, i + 2, IF x.t = "null" THEN others ELSE (k :> x) @@ others)
RefDictOK(items) == Len(items) % 2 = 0 /\ \A k \in 1..Len(items) : k % 2 = 1 => items[k].t = "name"

\* The parser.  closer: 0 = end of input, 93 = "]", 62 = ">>".  mode "obj":
\* only objects may occur (any other keyword is an error); mode "ops": at
\* the top level any other keyword is an operator (7.8.2) and ends the scan:
\* the items are then its operands followed by the operator itself.
\* Returns <<items, position>>; items = <<Err>> on error.
Failed(items) == items # <<>> /\ items[Len(items)].t = "err"
bID == <<73, 68>>
RECURSIVE RefParse(_, _, _, _, _)
RefParse(s, i0, closer, items, mode) ==
  LET i == RefSkipWS(s, i0)
      c == At(s, i)
      bad == <<<<Err>>, 0>>
  IN IF Failed(items) THEN bad
     ELSE IF c = EOF THEN (IF closer = 0 THEN <<items, i>> ELSE bad)
     ELSE IF c = 93 THEN (IF closer = 93 THEN <<items, i + 1>> ELSE bad)
     ELSE IF c = 62 THEN (IF At(s, i + 1) = 62 /\ closer = 62 THEN <<items, i + 2>> ELSE bad)
     ELSE IF c = 47 THEN
       LET r == RefNameBody(s, i + 1, <<>>) IN RefParse(s, r[2], closer, Append(items, Name(r[1])), mode)
     ELSE IF c = 40 THEN
       LET r == RefLitStr(s, i + 1, 0, <<>>) IN
       IF r[2] = 0 THEN bad ELSE RefParse(s, r[2], closer, Append(items, Str(r[1])), mode)
     ELSE IF c = 60 /\ At(s, i + 1) = 60 THEN
       LET r == RefParse(s, i + 2, 62, <<>>, "obj") IN
       IF r[2] = 0 \/ ~RefDictOK(r[1]) THEN bad
       ELSE RefParse(s, r[2], closer, Append(items, RefMkDict(r[1], 1, EmptyMap)), mode)
     ELSE IF c = 60 THEN
       LET r == RefHexStr(s, i + 1, <<>>, NoHex) IN
       IF r[2] = 0 THEN bad ELSE RefParse(s, r[2], closer, Append(items, Str(r[1])), mode)
     ELSE IF c = 91 THEN
       LET r == RefParse(s, i + 1, 93, <<>>, "obj") IN
       IF r[2] = 0 THEN bad ELSE RefParse(s, r[2], closer, Append(items, Arr(r[1])), mode)
     ELSE IF IsRegular(c) THEN
       LET e == RefRegEnd(s, i)
           x == RefTokVal(SubSeq(s, i, e - 1))
       IN IF x.t # "op" THEN RefParse(s, e, closer, Append(items, x), mode)
          ELSE IF mode = "ops" /\ closer = 0 THEN <<Append(items, x), e>>
          ELSE IF x.v = <<82>> THEN RefParse(s, e, closer, RefCollapse(items), mode)
          ELSE bad
     ELSE bad      \* ")", "{", "}" outside a string

\* the sequence of objects in a byte string (as inside an array)
RefScan(s) == RefParse(s, 1, 0, <<>>, "obj")[1]

-----------------------------------------------------------------------------
(* Ref: conforming renderings of a value.  Render(x) is a set of byte       *)
(* strings, each of which a conforming reader must read as Norm(x).         *)

RECURSIVE Combos(_)     \* all concatenations of one element from each set
Combos(ss) == IF ss = <<>> THEN {<<>>} ELSE {a \o b : a \in Head(ss), b \in Combos(Tail(ss))}

\* names: a regular character other than "#" as itself or as #xx, any other
\* character as #xx (either case of the hex digits)
RenderNameByte(c) == {<<35>> \o Hex2L(c), <<35>> \o Hex2U(c)} \cup (IF IsRegular(c) /\ c # 35 THEN {<<c>>} ELSE {})
RenderName(bs) == {<<47>> \o r : r \in Combos([i \in 1..Len(bs) |-> RenderNameByte(bs[i])])}

\* literal strings: the ways to write one byte, by context.  ctx = "cr": the
\* previous form ended in a raw CR (a raw LF would merge with it); ctx =
\* "oct": the previous form was an octal escape of fewer than 3 digits (an
\* octal digit would be taken into it).  depth = open raw parentheses.
Oct3(c) == <<92, 48 + (c \div 64), 48 + ((c \div 8) % 8), 48 + (c % 8)>>
OctShort(c) == IF c < 8 THEN <<92, 48 + c>> ELSE IF c < 64 THEN <<92, 48 + (c \div 8), 48 + (c % 8)>> ELSE Oct3(c)
Named(c) == CASE c = 10 -> {<<92, 110>>} [] c = 13 -> {<<92, 114>>} [] c = 9 -> {<<92, 116>>}
              [] c = 8 -> {<<92, 98>>} [] c = 12 -> {<<92, 102>>} [] c = 40 -> {<<92, 40>>}
              [] c = 41 -> {<<92, 41>>} [] c = 92 -> {<<92, 92>>} [] OTHER -> {}
\* after "\" these characters mean something else than themselves
EscSpecial == {110, 114, 116, 98, 102, 10, 13} \cup 48..55
\* forms as <<bytes, context after, change of depth>>
RenderStrForms(c, ctx, depth) ==
  LET raw == IF c \in {92, 13, 40, 41} THEN {}
             ELSE IF c = 10 /\ ctx = "cr" THEN {}
             ELSE IF IsOct(c) /\ ctx = "oct" THEN {}
             ELSE {<<<<c>>, "", 0>>}
      eol == IF c = 10 /\ ctx # "cr" THEN {<<<<13>>, "cr", 0>>, <<<<13, 10>>, "", 0>>} ELSE {}
      open == IF c = 40 THEN {<<<<40>>, "", 1>>} ELSE {}
      close == IF c = 41 /\ depth > 0 THEN {<<<<41>>, "", 0 - 1>>} ELSE {}
      esc == {<<f, "", 0>> : f \in Named(c)} \cup {<<Oct3(c), "", 0>>}
               \cup (IF c < 64 THEN {<<OctShort(c), "oct", 0>>} ELSE {})
               \cup (IF c \notin EscSpecial THEN {<<<<92, c>>, "", 0>>} ELSE {})
      \* a line continuation before the byte
      cont == IF c = 97 THEN {<<<<92, 10, c>>, "", 0>>, <<<<92, 13, 10, c>>, "", 0>>, <<<<92, 13, c>>, "", 0>>} ELSE {}
  IN raw \cup eol \cup open \cup close \cup esc \cup cont
RECURSIVE RenderLitBodies(_, _, _, _)
RenderLitBodies(bs, i, ctx, depth) ==
  IF i > Len(bs) THEN (IF depth = 0 THEN {<<41>>} ELSE {})
  ELSE UNION {{f[1] \o rest : rest \in RenderLitBodies(bs, i + 1, f[2], depth + f[3])} :
                 f \in RenderStrForms(bs[i], ctx, depth)}
RenderStrLit(bs) == {<<40>> \o r : r \in RenderLitBodies(bs, 1, "", 0)}
RenderStrHex(bs) ==
  LET lo == Flat([i \in 1..Len(bs) |-> Hex2L(bs[i])])
      up == Flat([i \in 1..Len(bs) |-> Hex2U(bs[i])])
      sp == Flat([i \in 1..Len(bs) |-> <<32>> \o Hex2U(bs[i]) \o <<10>>])
      odd == IF bs # <<>> /\ bs[Len(bs)] % 16 = 0 THEN {<<60>> \o SubSeq(lo, 1, Len(lo) - 1) \o <<62>>} ELSE {}
  IN {<<60>> \o lo \o <<62>>, <<60>> \o up \o <<62>>, <<60>> \o sp \o <<13, 62>>} \cup odd
RenderStr(bs) == RenderStrLit(bs) \cup RenderStrHex(bs)

\* numbers
RenderInt(d) ==
  LET neg == d[1] = 45
      ds  == IF neg THEN Tail(d) ELSE d
  IN IF neg THEN {d, <<45, 48, 48>> \o ds}
     ELSE {d, <<43>> \o d, <<48>> \o d} \cup (IF d = <<48>> THEN {<<45, 48>>} ELSE {})
RenderReal(d) ==
  LET neg == d[1] = 45
      ds  == IF neg THEN Tail(d) ELSE d
      sgn == IF neg THEN <<45>> ELSE <<>>
      noInt == IF ds[1] = 48 /\ ds[2] = 46 /\ Len(ds) > 2 THEN {sgn \o Tail(ds)} ELSE {}
  IN {d, sgn \o <<48>> \o ds, d \o <<48>>} \cup noInt \cup (IF neg THEN {} ELSE {<<43>> \o d})

\* token separation: styles of the gaps between tokens.  "min": nothing
\* where the standard allows it (one of the two neighbours is a delimiter),
\* else one space
GapStyles == {"min", "sp", "lf", "crlf", "cr", "mix", "comment", "commentcr"}
Gap(style, needed) ==
  CASE style = "min"       -> IF needed THEN <<32>> ELSE <<>>
    [] style = "sp"        -> <<32>>
    [] style = "lf"        -> <<10>>
    [] style = "crlf"      -> <<13, 10>>
    [] style = "cr"        -> <<13>>
    [] style = "mix"       -> <<9, 12, 0, 32>>
    [] style = "comment"   -> <<37, 99, 32, 41, 10>>
    [] style = "commentcr" -> <<32, 37, 13>>
StartsRegular(x) == x.t \in {"null", "bool", "int", "real", "ref", "op", "nilarr", "nildict"}
EndsRegular(x)   == x.t \in {"null", "bool", "int", "real", "ref", "op", "name", "nilarr", "nildict"}

\* one rendering of a value: gap style st, form selector f (a natural)
Pick(S, f) == LET q == SortBytes(S) IN q[(f % Len(q)) + 1]
RECURSIVE RenderOne(_, _, _)
RECURSIVE RenderItems(_, _, _, _, _)
RenderOne(x, st, f) ==
  CASE x.t \in {"null", "nilarr", "nildict"} -> bNull
    [] x.t = "bool" -> IF x.v THEN bTrue ELSE bFalse
    [] x.t = "int"  -> Pick(RenderInt(x.v), f)
    [] x.t = "real" -> Pick(RenderReal(x.v), f)
    [] x.t = "name" -> Pick(RenderName(x.v), f)
    [] x.t = "str"  -> Pick(RenderStr(x.v), f)
    [] x.t = "ref"  -> x.v[1] \o Gap(st, TRUE) \o x.v[2] \o Gap(st, TRUE) \o <<82>>
    [] x.t = "op"   -> x.v
    [] x.t = "arr"  -> <<91>> \o RenderItems(x.v, st, f, 1, FALSE) \o <<93>>
    [] x.t = "dict" ->
         LET keys == SortBytes(DOMAIN x.v)
             ord  == IF f % 2 = 0 THEN keys ELSE [i \in 1..Len(keys) |-> keys[Len(keys) + 1 - i]]
             kv   == Flat([i \in 1..Len(ord) |-> <<Name(ord[i]), x.v[ord[i]]>>])
         IN <<60, 60>> \o RenderItems(kv, st, f, 1, FALSE) \o <<62, 62>>
\* items with gaps: before every item and before the closing bracket
RenderItems(xs, st, f, i, prevRegular) ==
  IF i > Len(xs) THEN Gap(st, FALSE)
  ELSE Gap(st, prevRegular /\ StartsRegular(xs[i])) \o RenderOne(xs[i], st, f + i)
         \o RenderItems(xs, st, f, i + 1, EndsRegular(xs[i]))

NForms == 4
Render(x) ==
  CASE x.t = "name" -> RenderName(x.v)
    [] x.t = "str"  -> RenderStr(x.v)
    [] x.t = "int"  -> RenderInt(x.v)
    [] x.t = "real" -> RenderReal(x.v)
    [] OTHER -> {RenderOne(x, st, f) : st \in GapStyles, f \in 0..(NForms - 1)}
\* a sequence of values one after the other
RenderSeq(xs) == {RenderItems(xs, st, f, 1, FALSE) : st \in GapStyles, f \in 0..(NForms - 1)}

-----------------------------------------------------------------------------
(* The properties, for one sequence of values xs and one option set *)
RoundTripAt(xs, opts) == SameSeq(RefScan(ImplFmt(xs, opts)), NormSeq(xs))
SeparableAt(xs, opts) ==
  LET got == RefScan(ImplFmt(xs, opts))
  IN Len(got) = Len(xs) /\ \A i \in 1..Len(xs) : got[i].t = Norm(xs[i]).t
RenderSoundAt(x) == \A r \in Render(x) : SameSeq(RefScan(r), <<Norm(x)>>)
=============================================================================
