---------------------------- MODULE MC_PdfSyntax ----------------------------
(* Exhaustive design check of PdfSyntax: the formatter of types.go          *)
(* (ImplFmt) followed by the scanner written from the standard (RefScan) is *)
(* the identity up to Norm, for                                             *)
(*   - every string of length <= MaxStr over StrAlphabet,                   *)
(*   - every name of length <= MaxName over NameAlphabet,                   *)
(*   - every sequence of <= MaxToks values drawn from the token kinds       *)
(*     (adjacency: which neighbours need a separator),                      *)
(*   - arrays and dictionaries of depth <= 2 built from those,              *)
(* each under every option set in OptSets; and every conforming rendering   *)
(* of the small values is read back as the value (RenderSound).             *)
(* The value under test is grown by actions, one byte / one token / one     *)
(* level of nesting at a time, so that TLC's workers share the enumeration  *)
(* and every case is a counted state.                                       *)
EXTENDS PdfSyntax

CONSTANTS StrAlphabet, NameAlphabet, MaxStr, MaxName,
          TokKinds, MaxToks,
          OptSets,         \* the option sets quantified over
          RenderStrMax,    \* strings up to this length get all their renderings checked
          RenderNameMax,
          RenderNest       \* the nesting kinds whose renderings are checked

D(n) == IF n < 10 THEN <<48 + n>> ELSE <<48 + (n \div 10), 48 + (n % 10)>>
KeyK  == <<75>>            \* /K
KeyL1 == <<76, 49>>        \* /L1 (ends in a digit)
Tok(k) ==
  CASE k = "null"     -> Null
    [] k = "true"     -> Bool(TRUE)
    [] k = "false"    -> Bool(FALSE)
    [] k = "int"      -> PInt(<<49, 50>>)
    [] k = "negint"   -> PInt(<<45, 55>>)
    [] k = "zero"     -> PInt(<<48>>)
    [] k = "real"     -> PReal(<<49, 46, 53>>)
    [] k = "negreal"  -> PReal(<<45, 48, 46, 50, 53>>)
    [] k = "realdot"  -> PReal(<<49, 48, 48, 46>>)
    [] k = "name"     -> Name(<<65>>)
    [] k = "namedig"  -> Name(<<65, 49>>)
    [] k = "emptyname" -> Name(<<>>)
    [] k = "str"      -> Str(<<97>>)
    [] k = "emptystr" -> Str(<<>>)
    [] k = "hexstr"   -> Str(<<0, 128>>)
    [] k = "arr"      -> Arr(<<PInt(<<49>>), PInt(<<50>>)>>)
    [] k = "emptyarr" -> Arr(<<>>)
    [] k = "dict"     -> Dict([q \in {KeyK} |-> PInt(<<49>>)])
    [] k = "emptydict" -> Dict(EmptyMap)
    [] k = "ref"      -> Ref(<<51>>, <<48>>)
    \* the largest reference the library documents: object 2^24-1, generation 65535
    [] k = "refmax"   -> Ref(<<49, 54, 55, 55, 55, 50, 49, 53>>, <<54, 53, 53, 51, 53>>)
    [] k = "nilarr"   -> NilArr
    [] k = "nildict"  -> NilDict

\* members -> container
Container(c, ms) ==
  IF c = "arr" THEN Arr(ms)
  ELSE LET keys == <<KeyK, KeyL1>>
       IN Dict([q \in {keys[i] : i \in 1..Len(ms)} |-> IF q = KeyK THEN ms[1] ELSE ms[2]])

VARIABLES kind,   \* "root", "str", "name", "toks", "nest1", "nest2"
          cur     \* the sequence of values under test
vars == <<kind, cur>>

Init == kind = "root" /\ cur = <<>>

StrStart  == kind = "root" /\ kind' = "str" /\ cur' = <<Str(<<>>)>>
StrGrow   == /\ kind = "str" /\ Len(cur[1].v) < MaxStr
             /\ \E b \in StrAlphabet : cur' = <<Str(Append(cur[1].v, b))>>
             /\ UNCHANGED kind
NameStart == kind = "root" /\ kind' = "name" /\ cur' = <<Name(<<>>)>>
NameGrow  == /\ kind = "name" /\ Len(cur[1].v) < MaxName
             /\ \E b \in NameAlphabet : cur' = <<Name(Append(cur[1].v, b))>>
             /\ UNCHANGED kind
\* one more value after the others (Format(w, opt, objects...))
TokAdd    == /\ kind \in {"root", "toks"} /\ Len(cur) < MaxToks
             /\ \E k \in TokKinds : cur' = Append(cur, Tok(k))
             /\ kind' = "toks"
\* the values so far become the members of an array or a dictionary
Wrap1     == /\ kind \in {"root", "toks"} /\ Len(cur) <= 2
             /\ \E c \in {"arr", "dict"} : cur' = <<Container(c, cur)>>
             /\ kind' = "nest1"
\* and that container a member of another one, alone or next to a token
Wrap2     == /\ kind = "nest1"
             /\ \E c \in {"arr", "dict"} :
                  \/ cur' = <<Container(c, cur)>>
                  \/ \E k \in TokKinds : \/ cur' = <<Container(c, <<Tok(k), cur[1]>>)>>
                                         \/ cur' = <<Container(c, <<cur[1], Tok(k)>>)>>
             /\ kind' = "nest2"
Next == StrStart \/ StrGrow \/ NameStart \/ NameGrow \/ TokAdd \/ Wrap1 \/ Wrap2
Spec == Init /\ [][Next]_vars

\* the properties
RoundTrip == \A o \in OptSets : RoundTripAt(cur, o)
Separable == \A o \in OptSets : SeparableAt(cur, o)
\* formatting depends on OptPretty only (the other options are for AsPDF)
OptsIrrelevant == \A o \in OptSets : ImplFmt(cur, o) = ImplFmt(cur, o \cap {"Pretty"})
RenderSound ==
  /\ (kind = "str" /\ Len(cur[1].v) <= RenderStrMax) => RenderSoundAt(cur[1])
  /\ (kind = "name" /\ Len(cur[1].v) <= RenderNameMax) => RenderSoundAt(cur[1])
  /\ kind = "toks" => /\ RenderSoundAt(cur[Len(cur)])
                      /\ \A r \in RenderSeq(cur) : SameSeq(RefScan(r), NormSeq(cur))
  /\ kind \in RenderNest => RenderSoundAt(cur[1])
\* sanity of the model itself: the reference scanner never reads a rendering
\* of one value as something of another length
TypeOK == kind \in {"root", "str", "name", "toks", "nest1", "nest2"}
=============================================================================
