\* quick: sequences of <= 3 of 22 operator kinds (5 of them comments; thorough: 25); inline image data <= 4 over {E,I,SP,LF,CR,x};
\* Builder call sequences <= 5 over 22 call classes (version >= 2.0)
SPECIFICATION Spec
CONSTANTS
  Mutation = "none"
  NilDictIsNull = TRUE
  WriterAddsLength = TRUE
  WriterEscapesKeys = TRUE
  OpKinds = {"q", "cm", "w", "Tf", "Tj", "TJ", "'", "dq", "BDC", "B", "B*", "BT", "d", "sc", "unk", "img", "imgE", "cReg", "cSP", "cNUL", "cCR", "cMix"}
  MaxOps = 3
  DataAlphabet = {69, 73, 32, 10, 13, 120}
  MaxData = 4
  CallSet = {"q", "Q", "BT", "ET", "BMC", "EMC", "BX", "EX", "m", "re", "l", "h", "S", "f", "n", "W", "w", "TL", "Td", "T*", "Tj", "BI"}
  MaxCalls = 5
  Pre2 = FALSE
INVARIANTS RoundTripOps SplitOK ImageRoundTrip ImageAlwaysRoundTrips ClosingOK NestTypeOK NestShape
CHECK_DEADLOCK FALSE
