\* Builder call sequences <= 3 under the rules before PDF 2.0
\*
INIT GenInit
NEXT GenNext
CONSTANTS
  Mutation = "none"
  NilDictIsNull = TRUE
  WriterAddsLength = TRUE
  WriterEscapesKeys = TRUE
  OpKinds = {"q", "cm", "w", "Tf", "Tj", "TJ", "'", "dq", "BDC", "B", "B*", "BT", "d", "sc", "unk", "img", "imgE", "cReg", "cSP", "cFF", "cNUL", "cCR", "cLF", "cEmpty", "cMix"}
  MaxOps = 3
  DataAlphabet = {69, 73, 32, 10, 13, 120}
  MaxData = 4
  CallSet = {"q", "Q", "BT", "ET", "BMC", "EMC", "m", "re", "l", "h", "S", "f", "n", "W", "w", "TL", "Td", "T*", "Tj", "BI"}
  MaxCalls = 5
  Pre2 = TRUE
  Emit = {"builder"}
  GenCalls = 3
CHECK_DEADLOCK FALSE
