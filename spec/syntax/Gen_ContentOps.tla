--------------------------- MODULE Gen_ContentOps ---------------------------
(* Case tables for the harness from the bounded space of MC_ContentOps:      *)
(*   ops      [kind, ops, norm]: operator sequences for the real writer and  *)
(*            what the real scanner must read back (apart from comments)     *)
(*   img      [kind, ops, norm, ambiguous]: inline images over the data      *)
(*            alphabet, alone and between two operators                      *)
(*   builder  [kind, pre2, calls, errat, canclose, closing]: Builder call    *)
(*            sequences (every sequence whose proper prefix is accepted by   *)
(*            the model, so the last call may be one the model rejects) with *)
(*            the outcome the Nesting model predicts                         *)
EXTENDS MC_ContentOps, Json, IOUtils, SequencesExt
CONSTANTS Emit, GenCalls

RECURSIVE ToJ(_)
ToJ(x) ==
  CASE x.t = "arr"  -> [t |-> "arr", v |-> [i \in 1..Len(x.v) |-> ToJ(x.v[i])]]
    [] x.t = "dict" -> LET ks == SortBytes(DOMAIN x.v)
                       IN [t |-> "dict", k |-> ks, v |-> [i \in 1..Len(ks) |-> ToJ(x.v[ks[i]])]]
    [] OTHER -> x
OpJ(op) == [name |-> op.name, args |-> [i \in 1..Len(op.args) |-> ToJ(op.args[i])]]
OpsJ(os) == [i \in 1..Len(os) |-> OpJ(os[i])]

\* (LET: TLC evaluates a LET definition once, a global definition at every use)
OpsOf(f) == [i \in 1..Len(f) |-> OpOf(f[i])]
OpsCases == LET q == SetToSeq(UNION {[1..n -> OpKinds] : n \in 1..MaxOps}) IN
  [i \in 1..Len(q) |-> LET os == OpsOf(q[i]) IN [kind |-> "ops", ops |-> OpsJ(os), norm |-> OpsJ(Meaning(os))]]

ImgOne(d, between) ==
  LET os == IF between THEN <<OpOf("q"), ImageOp(d), OpOf("unk")>> ELSE <<ImageOp(d)>>
  IN [kind |-> "img", ops |-> OpsJ(os), norm |-> OpsJ(NormOps(os)), ambiguous |-> Ambiguous(d)]
ImgCases == LET q == SetToSeq(UNION {[1..n -> DataAlphabet] : n \in 0..MaxData}) IN
  [i \in 1..(2 * Len(q)) |-> ImgOne(q[(i + 1) \div 2], i % 2 = 0)]

\* call sequences: extend every accepted sequence by every call
RECURSIVE CallSeqs(_)
CallSeqs(n) == IF n = 0 THEN {<<>>}
               ELSE LET prev == CallSeqs(n - 1)
                    IN prev \cup {Append(p, c) : p \in {q \in prev : Len(q) = n - 1 /\ NestRun(NestInit(Pre2), q).obj # "err"}, c \in CallSet}
BuilderOne(calls) ==
  LET final == NestRun(NestInit(Pre2), calls)
      bad == final.obj = "err"
  IN [kind |-> "builder", pre2 |-> Pre2, calls |-> calls,
      errat |-> IF bad THEN Len(calls) ELSE 0,
      canclose |-> ~bad /\ NestCanClose(final),
      closing |-> IF bad THEN <<>> ELSE NestClosing(final)]
BuilderCases == LET q == SetToSeq(CallSeqs(GenCalls) \ {<<>>}) IN [i \in 1..Len(q) |-> BuilderOne(q[i])]

ASSUME LET all == (IF "ops" \in Emit THEN OpsCases ELSE <<>>) \o (IF "img" \in Emit THEN ImgCases ELSE <<>>)
                    \o (IF "builder" \in Emit THEN BuilderCases ELSE <<>>)
       IN ndJsonSerialize(IOEnv.OUT, [i \in 1..Len(all) |-> [id |-> i] @@ all[i]])
GenInit == Init
GenNext == UNCHANGED vars
=============================================================================
