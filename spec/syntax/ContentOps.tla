------------------------------ MODULE ContentOps ------------------------------
(* Content streams (ISO 32000-2, 7.8.2 "Content streams", 8.9.7 "Inline      *)
(* images", 8.2 "Graphics objects") and the content writer / state tracker   *)
(* of go-pdf (graphics/content).                                             *)
(*                                                                           *)
(*   ImplFormatOp     transcription of writer.go: Operator.Format (operands  *)
(*                    through pdf.Format with OptContentStream, each         *)
(*                    followed by a space, then the name and LF; BI/ID/EI    *)
(*                    framing of the %image% pseudo operator)                *)
(*   RefScanOps       written from the standard on top of PdfSyntax!RefParse *)
(*                    (operands accumulate until a keyword; inline image     *)
(*                    data delimited by /L when present, else by EOL EI)     *)
(*   Nest...          the pushdown of state.go: current graphics object,     *)
(*                    stack of open q / BT / BMC / BX, ClosingOperators      *)
(*                                                                           *)
(* An operator is a record [name, args]: name a byte string, args a sequence *)
(* of PdfSyntax values.  An inline image is [name |-> "%image%", args |->    *)
(* <<dictionary, string with the data>>].                                    *)
EXTENDS PdfSyntax

CONSTANTS
  WriterAddsLength,   \* TRUE: Format adds /L when the data could be cut short (writer.go since the repair
                      \* of finding F9, commit f98abbe); FALSE: the writer before it (negative control)
  WriterEscapesKeys   \* TRUE: keys of the image dictionary go through formatName and nil entries are
                      \* skipped (commits ab31f81, a9c15ec); FALSE: written raw (negative control)

MkOp(name, args) == [name |-> name, args |-> args]
bImage == <<37, 105, 109, 97, 103, 101, 37>>     \* %image%
bBI == <<66, 73>>
bEI == <<69, 73>>
bL == <<76>>
bLength == <<76, 101, 110, 103, 116, 104>>
CS == {"ContentStream"}
bRaw == <<37, 114, 97, 119, 37>>                 \* %raw%: raw content, here always a comment
IsRaw(op) == op.name = bRaw
IsImage(op) == op.name = bImage /\ Len(op.args) = 2 /\ op.args[1].t = "dict" /\ op.args[2].t = "str"

RECURSIVE DecText(_)
DecText(n) == IF n < 10 THEN <<48 + n>> ELSE DecText(n \div 10) \o <<48 + (n % 10)>>

(* 8.9.7: without a length, the data of an inline image ends where an end-of- *)
(* line marker is followed by EI and a character that ends the token.  Data   *)
(* that contains such a place itself cannot be told from its end: the writer  *)
(* puts LF EI LF after the data.                                              *)
Ambiguous(data) ==
  \E q \in 1..Len(data) :
     /\ data[q] \in {10, 13}
     /\ q + 2 <= Len(data) /\ data[q + 1] = 69 /\ data[q + 2] = 73
     /\ (q + 3 <= Len(data) => ~IsRegular(data[q + 3]))
HasLength(m) == bL \in DOMAIN m \/ bLength \in DOMAIN m

-----------------------------------------------------------------------------
(* Impl: writer.go *)
ImplImageKey(k) == IF WriterEscapesKeys THEN ImplFmtName(k) ELSE <<47>> \o k
ImplImageEntry(m, k) ==
  IF WriterEscapesKeys /\ m[k].t = "null" THEN <<>>
  ELSE ImplImageKey(k) \o <<32>>
         \o (IF m[k].t = "null" THEN <<>> ELSE ImplFmt(<<m[k]>>, CS))   \* a nil entry is not a pdf.Native
         \o <<10>>
EndsInWS(bs) == bs # <<>> /\ IsWS(bs[Len(bs)])
ImplFormatOp(op) ==
  IF op.name = bRaw THEN
    \* the raw bytes and a line feed (a comment extends to the end of the line)
    (IF Len(op.args) > 0 /\ op.args[1].t = "str"
     THEN op.args[1].v \o (IF Mutation = "rawNoLF" /\ EndsInWS(op.args[1].v) THEN <<>> ELSE <<10>>)
     ELSE <<>>)
  ELSE IF op.name = bImage /\ Len(op.args) >= 2 THEN
    LET m0   == op.args[1].v
        data == op.args[2].v
        m    == IF WriterAddsLength /\ ~HasLength(m0) /\ Ambiguous(data)
                THEN (bL :> PInt(DecText(Len(data)))) @@ m0 ELSE m0
        keys == SortBytes(DOMAIN m)             \* slices.Sort
    IN <<66, 73, 10>> \o Flat([i \in 1..Len(keys) |-> ImplImageEntry(m, keys[i])])
         \o <<73, 68, 10>> \o data \o <<10, 69, 73, 10>>
  ELSE Flat([i \in 1..Len(op.args) |-> ImplFmt(<<op.args[i]>>, CS) \o <<32>>]) \o op.name \o <<10>>
ImplFormatOps(ops) == Flat([i \in 1..Len(ops) |-> ImplFormatOp(ops[i])])
\* page/content.go: the segments of a page are read as one stream, joined by LF
RECURSIVE JoinLF(_)
JoinLF(parts) == IF parts = <<>> THEN <<>>
                 ELSE IF Len(parts) = 1 THEN parts[1]
                 ELSE parts[1] \o <<10>> \o JoinLF(Tail(parts))

-----------------------------------------------------------------------------
(* Ref: 7.8.2, 8.9.7 *)
OpsErr == <<MkOp(<<>>, <<Err>>)>>
OpsFailed(ops) == ops # <<>> /\ ops[Len(ops)].name = <<>>

\* the unsigned integer value of an entry (TLC integers: lengths are small)
RECURSIVE DigitsVal(_)
DigitsVal(ds) == IF ds = <<>> THEN 0 ELSE DigitsVal(SubSeq(ds, 1, Len(ds) - 1)) * 10 + (ds[Len(ds)] - 48)
ImageLength(m) ==
  LET k == IF bL \in DOMAIN m THEN bL ELSE bLength
  IN IF HasLength(m) /\ m[k].t = "int" /\ m[k].v[1] # 45 /\ Len(m[k].v) <= 6 THEN DigitsVal(m[k].v) ELSE 0

\* first q >= p with an end-of-line marker at q followed by EI and a
\* non-regular character (or the end); 0 if there is none
RECURSIVE FindEOLEI(_, _)
FindEOLEI(s, q) ==
  IF q > Len(s) THEN 0
  ELSE IF s[q] \in {10, 13} /\ At(s, q + 1) = 69 /\ At(s, q + 2) = 73
          /\ (At(s, q + 3) = EOF \/ ~IsRegular(At(s, q + 3)))
       THEN q
  ELSE FindEOLEI(s, q + 1)

\* after BI: key/value pairs up to ID, one white-space character, the data,
\* EI.  Returns <<operator, position after EI>>, position 0 on error.
RefImage(s, i) ==
  LET r   == RefParse(s, i, 0, <<>>, "ops")        \* stops after the first keyword
      its == r[1]
      n   == Len(its)
      bad == <<MkOp(<<>>, <<Err>>), 0>>
  IN IF Failed(its) \/ n = 0 \/ its[n].t # "op" \/ its[n].v # bID THEN bad
     ELSE LET kv == SubSeq(its, 1, n - 1) IN
       IF ~RefDictOK(kv) \/ ~IsWS(At(s, r[2])) THEN bad
       ELSE LET d == RefMkDict(kv, 1, EmptyMap)
                p == r[2] + 1                        \* first byte of the data
                len == ImageLength(d.v)
            IN IF len > 0 THEN
                 (LET e == RefSkipWS(s, p + len) IN
                  IF p + len - 1 <= Len(s) /\ At(s, e) = 69 /\ At(s, e + 1) = 73
                       /\ (At(s, e + 2) = EOF \/ ~IsRegular(At(s, e + 2)))
                  THEN <<MkOp(bImage, <<d, Str(SubSeq(s, p, p + len - 1))>>), e + 2>> ELSE bad)
               ELSE
                 (LET q == FindEOLEI(s, p) IN
                  IF q = 0 THEN bad ELSE <<MkOp(bImage, <<d, Str(SubSeq(s, p, q - 1))>>), q + 3>>)

\* operands accumulate until a keyword, which is the operator
RECURSIVE RefOpsFrom(_, _, _)
RefOpsFrom(s, i, acc) ==
  LET r   == RefParse(s, i, 0, <<>>, "ops")
      its == r[1]
      n   == Len(its)
  IN IF Failed(its) THEN OpsErr
     ELSE IF n = 0 THEN acc
     ELSE IF its[n].t # "op" THEN OpsErr              \* operands without an operator
     ELSE IF its[n].v = bBI THEN
       (LET im == RefImage(s, r[2]) IN
        IF n # 1 \/ im[2] = 0 THEN OpsErr ELSE RefOpsFrom(s, im[2], Append(acc, im[1])))
     ELSE RefOpsFrom(s, r[2], Append(acc, MkOp(its[n].v, SubSeq(its, 1, n - 1))))
RefScanOps(s) == RefOpsFrom(s, 1, <<>>)

\* what a sequence of operators means: operands up to Norm; the length entry
\* of an inline image is framing, not content
NormImageDict(x) ==
  LET n == Norm(x) IN Dict([k \in DOMAIN n.v \ {bL, bLength} |-> n.v[k]])
NormOp(op) == IF IsImage(op) THEN MkOp(op.name, <<NormImageDict(op.args[1]), op.args[2]>>)
              ELSE MkOp(op.name, NormSeq(op.args))
NormOps(ops) == [i \in 1..Len(ops) |-> NormOp(ops[i])]
SameOps(a, b) == Len(a) = Len(b) /\ \A i \in 1..Len(a) : a[i].name = b[i].name /\ SameSeq(a[i].args, b[i].args)

\* 7.2.4: a comment (from % outside a string to the end of the line) is
\* white space: raw content that is a comment - "%", then anything but an
\* end-of-line marker, except at its end - denotes no operator
DropRaw(ops) == SelectSeq(ops, LAMBDA o : ~IsRaw(o))
Meaning(ops) == NormOps(DropRaw(ops))
RoundTripOpsAt(ops) == SameOps(NormOps(RefScanOps(ImplFormatOps(ops))), Meaning(ops))
\* read in one piece or split at operator boundaries into several streams
RECURSIVE Cuts(_, _)    \* all ways to cut ops[from..] into consecutive non-empty pieces
Cuts(ops, from) ==
  IF from > Len(ops) THEN {<<>>}
  ELSE UNION {{<<SubSeq(ops, from, to)>> \o rest : rest \in Cuts(ops, to + 1)} : to \in from..Len(ops)}
SplitAt(ops) == \A c \in Cuts(ops, 1) :
                  SameOps(NormOps(RefScanOps(JoinLF([i \in 1..Len(c) |-> ImplFormatOps(c[i])]))), Meaning(ops))

-----------------------------------------------------------------------------
(* Nesting: state.go.  obj is the current graphics object, nest the stack of  *)
(* open pairs (innermost last).  A call class is what a Builder method emits. *)
Objs == {"page", "path", "text", "clip"}
Pairs == {"q", "BT", "BMC", "BX"}
Calls == {"q", "Q", "BT", "ET", "BMC", "EMC", "BX", "EX",
          "m", "re", "l", "h", "S", "f", "n", "W", "w", "TL", "Td", "T*", "Tj", "BI"}
\* operators[name].Allowed
Allowed(c) ==
  CASE c \in {"q", "Q", "w", "BMC", "EMC"} -> {"page", "text"}
    [] c \in {"BT", "BI"}                  -> {"page"}
    [] c \in {"ET", "Td", "T*", "Tj"}      -> {"text"}
    [] c \in {"BX", "EX", "TL"}            -> Objs
    [] c \in {"m", "re"}                   -> {"page", "path"}
    [] c \in {"l", "h", "W"}               -> {"path"}
    [] c \in {"S", "f", "n"}               -> {"path", "clip"}
\* operators[name].Transition
Transition(c, obj) ==
  CASE c \in {"m", "re"}     -> "path"
    [] c \in {"S", "f", "n"} -> "page"
    [] c = "W"               -> "clip"
    [] OTHER                 -> obj
Closer(c) == CASE c = "Q" -> "q" [] c = "ET" -> "BT" [] c = "EMC" -> "BMC" [] c = "EX" -> "BX"
\* popNesting: the innermost frame of the kind, wherever it is
LastIndexOf(nest, k) == LET S == {i \in 1..Len(nest) : nest[i] = k} IN IF S = {} THEN 0 ELSE CHOOSE i \in S : \A j \in S : j <= i
RemoveAt(q, i) == SubSeq(q, 1, i - 1) \o SubSeq(q, i + 1, Len(q))

\* st = [obj, nest, saved, tm, font, pre2]: saved = the stack of q (what Q
\* restores: here the "text matrix usable" bit), tm = that bit (BT sets it, ET
\* clears it, Q restores it), font = a font was selected, pre2 = version < 2.0.
\* On a page every parameter except the font starts out usable (NewState), so
\* of the Requires sets only the font of the text showing operators and the
\* text matrix of T* matter.
\* strict = TRUE: exactly state.go, including that Q inside a text object takes
\* the text matrix back to what it was at the q (so that "q BT Q T*" is
\* refused).  strict = FALSE: the reading of the standard (Figure 9, and Tm is
\* not a graphics state parameter), used to judge streams.
\* Result: the state after the operator, or "err" in field obj.
NestErr(st) == [st EXCEPT !.obj = "err"]
NestApplyG(st, c, strict) ==
  IF st.obj = "err" THEN st
  ELSE IF st.obj \notin Allowed(c) THEN NestErr(st)                         \* CheckOperatorAllowed
  ELSE IF c = "T*" /\ strict /\ ~st.tm THEN NestErr(st)                    \* Requires: text matrix
  ELSE IF c = "Tj" /\ ~st.font THEN NestErr(st)                            \* Requires: font
  ELSE IF c = "q" THEN
         (IF st.pre2 /\ (st.obj = "text" \/ Len(st.saved) >= 28)
          THEN NestErr(st) ELSE [st EXCEPT !.nest = Append(@, "q"), !.saved = Append(@, st.tm)])
  ELSE IF c = "Q" /\ st.pre2 /\ st.obj = "text" THEN NestErr(st)
  ELSE IF c \in {"Q", "ET", "EMC", "EX"} THEN
         (LET i == LastIndexOf(st.nest, Closer(c)) IN
          IF i = 0 THEN NestErr(st)
          ELSE IF c = "Q" THEN [st EXCEPT !.nest = RemoveAt(@, i), !.tm = st.saved[Len(st.saved)],
                                          !.saved = SubSeq(@, 1, Len(@) - 1)]
          ELSE IF c = "ET" THEN [st EXCEPT !.nest = RemoveAt(@, i), !.obj = "page", !.tm = FALSE]
          ELSE [st EXCEPT !.nest = RemoveAt(@, i)])
  ELSE IF c = "BT" THEN [st EXCEPT !.nest = Append(@, "BT"), !.obj = "text", !.tm = TRUE]
  ELSE IF c \in {"BMC", "BX"} THEN [st EXCEPT !.nest = Append(@, c)]
  ELSE [st EXCEPT !.obj = Transition(c, @)]
NestApply(st, c) == NestApplyG(st, c, TRUE)
NestInit(pre2) == [obj |-> "page", nest |-> <<>>, saved |-> <<>>, tm |-> TRUE, font |-> FALSE, pre2 |-> pre2]
RECURSIVE NestRunG(_, _, _)
NestRunG(st, calls, strict) == IF calls = <<>> THEN st ELSE NestRunG(NestApplyG(st, Head(calls), strict), Tail(calls), strict)
NestRun(st, calls) == NestRunG(st, calls, TRUE)
\* CanClose
NestCanClose(st) == st.obj = "page" /\ st.nest = <<>>
\* ClosingOperators: end an open path, then the open pairs, innermost first
OpenerCloser(k) == CASE k = "q" -> "Q" [] k = "BT" -> "ET" [] k = "BMC" -> "EMC" [] k = "BX" -> "EX"
NestClosing(st) ==
  (IF st.obj \in {"path", "clip"} THEN <<"n">> ELSE <<>>)
    \o [i \in 1..Len(st.nest) |-> OpenerCloser(st.nest[Len(st.nest) + 1 - i])]
\* the reading of the standard: a stream is balanced when every pair is closed
\* and no graphics object is open; the closing operators of a state lead there
ClosingBalances(st) == st.obj = "err" \/ NestCanClose(NestRun(st, NestClosing(st)))
=============================================================================
