\* the Nesting model under the rules before PDF 2.0 (q/Q not in text objects, at most 28 open q);
\* call sequences <= 6; a chain of 30 q is covered by the random Builder runs
SPECIFICATION Spec
CONSTANTS
  Mutation = "none"
  NilDictIsNull = TRUE
  WriterAddsLength = TRUE
  WriterEscapesKeys = TRUE
  OpKinds = {"q", "cm", "w", "Tf", "Tj", "TJ", "'", "dq", "BDC", "B", "B*", "BT", "d", "sc", "unk", "img", "imgE", "cReg", "cSP", "cFF", "cNUL", "cCR", "cLF", "cEmpty", "cMix"}
  MaxOps = 1
  DataAlphabet = {69, 73, 32, 10, 13, 120}
  MaxData = 1
  CallSet = {"q", "Q", "BT", "ET", "BMC", "EMC", "BX", "EX", "m", "re", "l", "h", "S", "f", "n", "W", "w", "TL", "Td", "T*", "Tj", "BI"}
  MaxCalls = 6
  Pre2 = TRUE
INVARIANTS RoundTripOps SplitOK ImageRoundTrip ImageAlwaysRoundTrips ClosingOK NestTypeOK NestShape
CHECK_DEADLOCK FALSE
