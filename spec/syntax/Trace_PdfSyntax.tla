-------------------------- MODULE Trace_PdfSyntax --------------------------
(* Judges records of the real code against the reference scanner.  One      *)
(* record = one byte string the real code produced or consumed:             *)
(*   [side |-> "fmt",  bytes, vals]         pdf.Format(vals) wrote bytes    *)
(*   [side |-> "fmt",  fmterr |-> TRUE, ..] pdf.Format failed on the values *)
(*   [side |-> "fmt",  bytes, bytes2, vals] pdf.Format wrote bytes and then *)
(*                                          bytes2 for the same values      *)
(*   [side |-> "scan", bytes, vals]         the real scanner read bytes as  *)
(*                                          vals                            *)
(*   [side |-> "scan", bytes, err |-> TRUE] the real scanner refused bytes  *)
(* A record is accepted iff RefScan(bytes) - the scanner written from the   *)
(* standard - yields Norm(vals) (resp. fails).  Only Ref operators decide.  *)
(* Values arrive as JSON {"t","v"} (dictionaries with "k" and "v"); reals   *)
(* with an empty "v" are compared by token shape only (the digits of a      *)
(* float64 are outside the model).                                          *)
EXTENDS PdfSyntax, TraceLib

\* {"t":"chain","c":links,"v":inner}: a tower of single-member containers around
\* inner (the JSON reader is limited to 255 levels); a link is <<0>> for an
\* array, <<1>> \o key for a dictionary
RECURSIVE Unchain(_, _, _)
Unchain(c, n, inner) ==
  IF n > Len(c) THEN inner
  ELSE LET rest == Unchain(c, n + 1, inner)
       IN IF c[n][1] = 0 THEN Arr(<<rest>>) ELSE Dict([q \in {Tail(c[n])} |-> rest])
RECURSIVE FromJ(_)
FromJ(j) ==
  CASE j.t = "chain" -> Unchain(j.c, 1, FromJ(j.v))
    [] j.t = "arr"  -> Arr([i \in 1..Len(j.v) |-> FromJ(j.v[i])])
    [] j.t = "dict" -> Dict([q \in ToSet(j.k) |-> FromJ(j.v[CHOOSE i \in 1..Len(j.k) : j.k[i] = q])])
    [] OTHER -> [t |-> j.t, v |-> j.v]
FromJSeq(js) == [i \in 1..Len(js) |-> FromJ(js[i])]

\* equality of values, except that a wanted real without digits matches any real
RECURSIVE Matches(_, _)
Matches(got, want) ==
  /\ got.t = want.t
  /\ CASE got.t = "arr"  -> Len(got.v) = Len(want.v) /\ \A i \in 1..Len(got.v) : Matches(got.v[i], want.v[i])
        [] got.t = "dict" -> DOMAIN got.v = DOMAIN want.v /\ \A k \in DOMAIN got.v : Matches(got.v[k], want.v[k])
        [] got.t = "real" -> want.v = <<>> \/ got.v = want.v
        [] OTHER -> got.v = want.v
MatchesSeq(gs, ws) == Len(gs) = Len(ws) /\ \A i \in 1..Len(gs) : Matches(gs[i], ws[i])

Has(c, f) == f \in DOMAIN c
CaseOK(c) ==
  IF Has(c, "fmterr") THEN FALSE                       \* Format is total on values within the limits
  ELSE IF Has(c, "bytes2") /\ c.bytes # c.bytes2 THEN FALSE   \* ... and a function of values and options
  ELSE LET got == RefScan(c.bytes) IN
       IF Has(c, "err") THEN Failed(got)
       ELSE ~Failed(got) /\ MatchesSeq(got, NormSeq(FromJSeq(c.vals)))

Cases == Records
VARIABLES i, bad, done
vars == <<i, bad, done>>
Init == i = 1 /\ bad = <<>> /\ done = FALSE
Step == /\ i <= Len(Cases)
        /\ i' = i + 1
        /\ bad' = IF CaseOK(Cases[i]) THEN bad ELSE Append(bad, i)
        /\ UNCHANGED done
Finish == /\ i = Len(Cases) + 1 /\ ~done
          /\ done' = TRUE
          /\ WriteVerdict(bad)
          /\ UNCHANGED <<i, bad>>
Next == Step \/ Finish
Spec == Init /\ [][Next]_vars
=============================================================================
