-------------------------- MODULE Trace_PdfSyntax --------------------------
(* Judges records of the real code against the reference scanner.  One      *)
(* record = one byte string the real code produced or consumed:             *)
(*   [side |-> "fmt",  bytes, vals]         pdf.Format(vals) wrote bytes    *)
(*   [side |-> "fmt",  fmterr |-> TRUE, ..] pdf.Format failed on the values *)
(*   [side |-> "fmt",  bytes, bytes2, vals] pdf.Format wrote bytes and then *)
(*                                          bytes2 for the same values      *)
(*   [side |-> "scan", bytes, vals]         the real scanner read bytes as  *)
(*                                          vals                            *)
(*   [side |-> "scan", bytes, err |-> TRUE] the real scanner refused bytes  *)
(* A record is accepted iff RefScan(bytes) - the scanner written from the   *)
(* standard - yields Norm(vals) (resp. fails).  Only Ref operators decide.  *)
(* Values arrive as JSON {"t","v"} (dictionaries with "k" and "v"); reals   *)
(* with an empty "v" are compared by token shape only (the digits of a      *)
(* float64 are outside the model).                                          *)
EXTENDS SyntaxJson

CaseOK(c) ==
  IF Has(c, "fmterr") THEN FALSE                       \* Format is total on values within the limits
  ELSE IF Has(c, "bytes2") /\ c.bytes # c.bytes2 THEN FALSE   \* ... and a function of values and options
  ELSE LET got == RefScan(c.bytes) IN
       IF Has(c, "err") THEN Failed(got)
       ELSE ~Failed(got) /\ MatchesSeq(got, NormSeq(FromJSeq(c.vals)))

Cases == Records
VARIABLES i, bad, done
vars == <<i, bad, done>>
Init == i = 1 /\ bad = <<>> /\ done = FALSE
Step == /\ i <= Len(Cases)
        /\ i' = i + 1
        /\ bad' = IF CaseOK(Cases[i]) THEN bad ELSE Append(bad, i)
        /\ UNCHANGED done
Finish == /\ i = Len(Cases) + 1 /\ ~done
          /\ done' = TRUE
          /\ WriteVerdict(bad)
          /\ UNCHANGED <<i, bad>>
Next == Step \/ Finish
Spec == Init /\ [][Next]_vars
=============================================================================
