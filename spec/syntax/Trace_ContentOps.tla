-------------------------- MODULE Trace_ContentOps --------------------------
(* Judges records of the real content writer, content scanner and Builder    *)
(* against the reference semantics of ContentOps.                            *)
(*   [kind |-> "fmt", bytes, ops]     the real writer serialised ops (in one *)
(*                                    piece, or several segments joined as   *)
(*                                    page.SegmentsReader does) as bytes     *)
(*   [kind |-> "fmt", fmterr, ops]    the real writer failed                 *)
(*   [kind |-> "scan", bytes, ops]    the real content scanner read bytes as *)
(*                                    ops                                    *)
(*   [kind |-> "builder", pre2, calls, errat, closeok, closing, reread,      *)
(*            applyerr]               a Builder was driven through calls:    *)
(*                                    errat = index of the call after which  *)
(*                                    Err was set (0: none); closeok = Close *)
(*                                    succeeded; closing = State.Closing-    *)
(*                                    Operators; reread = operator names of  *)
(*                                    the harvested stream after a rescan of *)
(*                                    its bytes; applyerr = index at which   *)
(*                                    State.ApplyOperator refused reread \o  *)
(*                                    closing (0: none, and CanClose held);  *)
(*                                    seglens / rereadlens = calls made /    *)
(*                                    operators re-read per segment handed   *)
(*                                    out by Harvest or Build                *)
(*   [kind |-> "cycle", ops, ops2]    the real scanner read ops (comments    *)
(*                                    as raw content operators included);    *)
(*                                    these written again and read again     *)
(*                                    gave ops2                              *)
(* "fmt"/"scan" records are accepted iff RefScanOps(bytes) denotes the       *)
(* operators (comments denote nothing); "cycle" records iff ops2 = ops;      *)
(* "builder" records iff the Nesting model explains them and the             *)
(* re-read stream followed by its closing operators is balanced.             *)
EXTENDS ContentOps, SyntaxJson

OpFromJ(j) == MkOp(j.name, FromJSeq(j.args))
OpsFromJ(js) == [i \in 1..Len(js) |-> OpFromJ(js[i])]
MatchOps(got, want) == Len(got) = Len(want) /\ \A i \in 1..Len(got) :
                          got[i].name = want[i].name /\ MatchesSeq(got[i].args, want[i].args)

\* operator name -> call class of the Nesting model
bBDC == <<66, 68, 67>>
CallName(c) == CASE c = "%image%" -> "BI" [] c = "BDC" -> "BMC" [] OTHER -> c
CallsOf(names) == [i \in 1..Len(names) |-> CallName(names[i])]
\* The property speaks about the call sequences the Builder accepts: when it
\* refused a call (errat > 0) nothing was produced and nothing is claimed.
\* When it accepted all calls, the stream it wrote must be these calls, a
\* valid operator sequence by the standard, and balanced by its closing
\* operators.
BuilderOK(c) ==
  LET calls == c.calls
      final == NestRunG(NestInit(c.pre2), calls, FALSE)
  IN /\ \A i \in 1..Len(calls) : calls[i] \in Calls
     /\ c.errat = 0 =>
          /\ final.obj # "err"
          /\ c.closeok = NestCanClose(final)
          /\ c.closing = NestClosing(final)
          \* the stream that was written is the calls that were made, segment
          \* by segment when it was handed out in several segments (the judged
          \* stream is their concatenation in order)
          /\ CallsOf(c.reread) = calls
          /\ Has(c, "seglens") => c.seglens = c.rereadlens
          \* and, with its closing operators, a balanced operator sequence
          /\ c.applyerr = 0
          /\ NestCanClose(NestRunG(NestInit(c.pre2), CallsOf(c.reread) \o c.closing, FALSE))

\* exact equality, raw content included
SameReading(a, b) == Len(a) = Len(b) /\ \A n \in 1..Len(a) : a[n].name = b[n].name /\ SameSeq(a[n].args, b[n].args)
CaseOK(c) ==
  IF c.kind = "builder" THEN BuilderOK(c)
  \* what the reader returns (operators and comments) is a fixed point of write, read
  ELSE IF c.kind = "cycle" THEN SameReading(OpsFromJ(c.ops), OpsFromJ(c.ops2))
  ELSE IF Has(c, "fmterr") THEN FALSE
  ELSE LET got == RefScanOps(c.bytes) IN
       IF Has(c, "err") THEN OpsFailed(got)
       ELSE ~OpsFailed(got) /\ MatchOps(NormOps(got), Meaning(OpsFromJ(c.ops)))

Cases == Records
VARIABLES i, bad, done
vars == <<i, bad, done>>
Init == i = 1 /\ bad = <<>> /\ done = FALSE
Step == /\ i <= Len(Cases)
        /\ i' = i + 1
        /\ bad' = IF CaseOK(Cases[i]) THEN bad ELSE Append(bad, i)
        /\ UNCHANGED done
Finish == /\ i = Len(Cases) + 1 /\ ~done
          /\ done' = TRUE
          /\ WriteVerdict(bad)
          /\ UNCHANGED <<i, bad>>
Next == Step \/ Finish
Spec == Init /\ [][Next]_vars
=============================================================================
