------------------------------ MODULE TraceLib ------------------------------
(* Shared plumbing for specifications that judge records produced by the    *)
(* real code.  The harness writes one JSON document per line to the file    *)
(* named by the environment variable CASES; the judging module steps        *)
(* through the records (one TLC state per record), collects the indices of  *)
(* the records its specification rejects and writes them to OUT.            *)
EXTENDS Json, IOUtils, TLC, Sequences, Naturals

Records == ndJsonDeserialize(IOEnv.CASES)
WriteVerdict(bad) == ndJsonSerialize(IOEnv.OUT, <<[bad |-> bad]>>)
\* JSON has no sets: arrays come back as sequences
ToSet(q) == {q[i] : i \in 1..Len(q)}
=============================================================================
