SPECIFICATION Spec
CONSTANTS SEEKABLE = TRUE
  OBJSTM = FALSE
  ENCRYPTED = FALSE
  MaxOps = 6
  Impl = "asfound"
INVARIANTS RoundTrip NoCorruption WrittenOnce NothingPending
CHECK_DEADLOCK FALSE
