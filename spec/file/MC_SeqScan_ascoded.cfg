\* negative control: checkObjects as at the pinned commit (a bare io.EOF of one candidate aborts the scan); must FAIL ScanReturns (finding F8)
SPECIFICATION Spec
CONSTANTS Kinds <- AllKinds
  MaxObjs = 2
  Tails <- BothTails
  Damages <- AllDamages
  EOF_IS_BROKEN = FALSE
  TRIM_TWICE = TRUE
  USED_HOISTED = FALSE
  SHARED_SEEN = FALSE
INVARIANTS TypeOK StepsAgree DamageHarmless ScanReturns
CHECK_DEADLOCK FALSE
