\* thorough: histories of <= 3 revisions over 3 objects (subsection styles do not matter without the offByOne tolerance: one style), bodies of <= 5 pieces
SPECIFICATION Spec
CONSTANTS OFFBYONE = FALSE
  NULLZERO = FALSE
  KEYGEN0 = FALSE
  DECRYPTMEMBERS = FALSE
  TRAILERMERGE = FALSE
  ZEROLENUNKNOWN = FALSE
  Objs = {1, 2, 3}
  MaxRevs = 3
  Styles = {"runs"}
  ZeroFree = FALSE
  MaxPieces = 5
  STRICT_LENGTH = FALSE
CONSTRAINT PiecesBound
INVARIANTS LookupOK KeyOK TrailerOK FileOK ExtentOK CorrectOK DivergenceIs
CHECK_DEADLOCK FALSE
