INIT Init
NEXT Next
CONSTANTS Kinds = {}
  MaxObjs = 0
  Tails = {}
  Damages = {}
  EOF_IS_BROKEN = FALSE
  TRIM_TWICE = TRUE
  USED_HOISTED = FALSE
  SHARED_SEEN = FALSE
CHECK_DEADLOCK FALSE
