\* generated by ResourceManager_mkcfg.sh
SPECIFICATION Spec
CONSTANTS
  Enc = {"e1"}
  Emb = {"m1"}
  SelfEmb = {}
  Keys = {}
  Fns = {"d1"}
  EncKinds = {"val","nilres"}
  EmbKinds = {"obj","defer"}
  SelfKinds = {"self","fail"}
  KeyKinds = {"val","obj","fail"}
  FnKinds = {"noop","fail"}
  CallOps = {"Embed","GetReference","Store","StoreDeferred","StoreEncoded","Close"}
  MaxCalls = 4
  StepBound = 150
  CycleRecurses = FALSE
  ClosedUnchecked = FALSE
  LifoQueue = FALSE
  DropReservation = FALSE
INVARIANTS Terminates WrittenInv NoDupInv IdempotentInv FifoInv AfterCloseInv AnswersInv ReservedUnwritten ClosedClean
