\* negative control: checkObjects with one makeSafeGetInt for the whole scan (its `seen` set fills up); must FAIL PropertyHolds: a complete stream with a resolvable /Length is cut at the "endstream" line of its body
SPECIFICATION Spec
CONSTANTS Kinds <- LengthKinds
  MaxObjs = 4
  Tails <- TableOnly
  Damages <- AllDamages
  EOF_IS_BROKEN = TRUE
  TRIM_TWICE = FALSE
  USED_HOISTED = FALSE
  SHARED_SEEN = TRUE
INVARIANTS TypeOK PropertyHolds
CHECK_DEADLOCK FALSE
