----------------------- MODULE Trace_ResourceManager -----------------------
(* Judges sessions of the real pdf.ResourceManager (resource.go) over a     *)
(* real pdf.Writer.  One record:                                            *)
(*   hist    the observable history (see ResourceManagerRef): top-level     *)
(*           calls with their results and, per call, the completions of the *)
(*           instrumented Embedders / Encoders / deferred functions, the    *)
(*           Defer / StoreDeferred enqueues and the objects that arrived at *)
(*           the Writer (read off the output sink in file order)            *)
(*   wclose  "ok" when Writer.Close succeeded and the file was reopened     *)
(*           with the independent strict parser, else "err" / "skipped"     *)
(*   objs    [n, by]: the objects of the reopened file; `by` names the      *)
(*           Embedder / Encoder whose value the object holds ("" = other)   *)
(* Acceptance uses ResourceManagerRef only.                                 *)
EXTENDS ResourceManagerRef, TraceLib

Cases == Records

AllPuts(h) == PutsUpTo(h, Len(h))
InFile(c, n) == {i \in 1..Len(c.objs) : c.objs[i].n = n}
(* every object the Writer received is in the file exactly once, and a      *)
(* reference returned for x resolves to the object written for x            *)
FileOK(c) ==
  c.wclose = "ok" =>
    /\ \A n \in AllPuts(c.hist) : Cardinality(InFile(c, n)) = 1
    /\ \A i \in 1..Len(c.hist) :
         LET e == c.hist[i] IN
         (IsRef(e.res) /\ e.res.n \in AllPuts(c.hist)) =>
            \A j \in InFile(c, e.res.n) : c.objs[j].by \in {e.x, "se:" \o e.x}

CaseOK(c) == HistoryOK(c.hist) /\ FileOK(c)

VARIABLES i, bad, done
vars == <<i, bad, done>>
Init == i = 1 /\ bad = <<>> /\ done = FALSE
Step == /\ i <= Len(Cases)
        /\ i' = i + 1
        /\ bad' = IF CaseOK(Cases[i]) THEN bad ELSE Append(bad, i)
        /\ UNCHANGED done
Finish == /\ i = Len(Cases) + 1 /\ ~done
          /\ done' = TRUE
          /\ WriteVerdict(bad)
          /\ UNCHANGED <<i, bad>>
Next == Step \/ Finish
Spec == Init /\ [][Next]_vars
=============================================================================
