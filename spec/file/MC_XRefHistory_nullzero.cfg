\* negative control: an indirect /Length that resolves to null taken as 0 (code before 8dab642) must violate ExtentOK
SPECIFICATION Spec
CONSTANTS OFFBYONE = FALSE
  NULLZERO = TRUE
  KEYGEN0 = FALSE
  DECRYPTMEMBERS = FALSE
  TRAILERMERGE = FALSE
  ZEROLENUNKNOWN = FALSE
  Objs = {1, 2, 3}
  MaxRevs = 2
  Styles = {"one", "each", "runs"}
  ZeroFree = TRUE
  MaxPieces = 4
  STRICT_LENGTH = FALSE
CONSTRAINT PiecesBound
INVARIANTS LookupOK KeyOK TrailerOK FileOK ExtentOK CorrectOK DivergenceIs
CHECK_DEADLOCK FALSE
