SPECIFICATION TSpec
CONSTANTS MaxNum = 20100
  Vals = {"a", "b"}
  OBJSTM = TRUE
  SEEKABLE = TRUE
  MaxOps = 60
  Threshold = 2
CHECK_DEADLOCK FALSE
