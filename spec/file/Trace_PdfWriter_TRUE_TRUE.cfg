SPECIFICATION TSpec
CONSTANTS MaxNum = 400
  Vals = {"a", "b"}
  OBJSTM = TRUE
  SEEKABLE = TRUE
  MaxOps = 200
  Threshold = 2
CHECK_DEADLOCK FALSE
