SPECIFICATION GenSpec
CONSTANTS SEEKABLE = TRUE
  OBJSTM = FALSE
  ENCRYPTED = FALSE
  MaxOps = 6
  Impl = "fixed"
CHECK_DEADLOCK FALSE
