\* generated by ResourceManager_mkcfg.sh
SPECIFICATION Spec
CONSTANTS
  Enc = {"e1"}
  Emb = {"m1"}
  SelfEmb = {"ms"}
  Keys = {"k1"}
  Fns = {"d1","d2"}
  EncKinds = {"val","nilres","fail"}
  EmbKinds = {"obj","cycle","defer"}
  SelfKinds = {"self","fail"}
  KeyKinds = {"val","obj","fail"}
  FnKinds = {"noop","embed","more"}
  CallOps = {"Embed","GetReference","Store","StoreDeferred","StoreEncoded","Close"}
  MaxCalls = 3
  StepBound = 150
  CycleRecurses = FALSE
  ClosedUnchecked = FALSE
  LifoQueue = FALSE
  DropReservation = FALSE
INVARIANTS Terminates WrittenInv NoDupInv IdempotentInv FifoInv AfterCloseInv AnswersInv ReservedUnwritten ClosedClean
