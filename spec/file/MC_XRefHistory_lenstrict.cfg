\* negative control: without the carve-out for short lengths into trailing white space ExtentOK fails
SPECIFICATION Spec
CONSTANTS OFFBYONE = FALSE
  NULLZERO = FALSE
  KEYGEN0 = FALSE
  DECRYPTMEMBERS = FALSE
  TRAILERMERGE = FALSE
  ZEROLENUNKNOWN = FALSE
  Objs = {1, 2, 3}
  MaxRevs = 2
  Styles = {"one", "each", "runs"}
  ZeroFree = TRUE
  MaxPieces = 4
  STRICT_LENGTH = TRUE
CONSTRAINT PiecesBound
INVARIANTS LookupOK KeyOK TrailerOK FileOK ExtentOK CorrectOK DivergenceIs
CHECK_DEADLOCK FALSE
