--------------------------- MODULE Trace_SeqScan ---------------------------
(* Judges what the real SequentialScan / FileInfo.Read did on truncated and *)
(* xref-damaged files against the property C20 (module SeqScanRef; nothing  *)
(* implementation-shaped is used).                                         *)
(*   Docs (file named by IOEnv.DOCS), one line per generated file:          *)
(*     [objs: <<[num, start, hdrEnd, end, amb, lenEnd]>>]   ground truth,   *)
(*        recorded while writing / by byte search; amb, lenEnd: see the     *)
(*        rule on where a stream ends in SeqScanRef                         *)
(*   Records, one line per observation of the real code:                    *)
(*     [d, lo, hi, whole, res, mr, per]     whole: no byte of d is missing  *)
(* An event stands for every crash point lo..hi of file d (the harness      *)
(* merges neighbouring crash points with identical observations, never      *)
(* across an object boundary); per[i] = [l, b, r]: object i is listed at    *)
(* its true offset (l = 1), flagged Broken (b = 1), and Read returned the   *)
(* written value (r = "v"), another value ("x"), an error ("e"), or was not *)
(* tried ("-"); mr = what FileInfo.MakeReader + Get of every complete       *)
(* object gave.  Stream bodies of the files are free of line-initial object *)
(* headers.  A body with a line starting with "endstream" is judged only    *)
(* where its /Length can be known (SeqScanRef.Judged).  Where /Length may   *)
(* be an indirect object no body ends in a bare CR (CR + the Writer's LF    *)
(* reads as a CR LF marker once the length is lost).                        *)
EXTENDS SeqScanRef, TraceLib

Cases == Records
Docs == ndJsonDeserialize(IOEnv.DOCS)
EventOK(objs, e) ==
  LET n == Len(objs)
      ls == {i \in 1..n : e.per[i].l = 1}
      s == [i \in 1..n |-> IF e.per[i].b = 1 THEN "broken" ELSE "ok"]
      v == [i \in 1..n |-> e.per[i].r]
  IN /\ Len(e.per) = n
     /\ e.lo <= e.hi
     /\ RefReaderSound(e.mr)
     /\ RefReaderAvailable(e.whole, e.mr)
     /\ RefHolds(objs, e.lo, e.res, ls, s, v)
     /\ RefHolds(objs, e.hi, e.res, ls, s, v)
CaseOK(c) == EventOK(Docs[c.d].objs, c)

VARIABLES i, bad, done
tvars == <<i, bad, done>>
TInit == i = 1 /\ bad = <<>> /\ done = FALSE
Step == /\ i <= Len(Cases)
        /\ i' = i + 1
        /\ bad' = IF CaseOK(Cases[i]) THEN bad ELSE Append(bad, i)
        /\ UNCHANGED done
Finish == /\ i = Len(Cases) + 1 /\ ~done
          /\ done' = TRUE
          /\ WriteVerdict(bad)
          /\ UNCHANGED <<i, bad>>
TNext == Step \/ Finish
TSpec == TInit /\ [][TNext]_tvars
=============================================================================
