------------------------- MODULE Trace_XRefHistory -------------------------
(* Judges records of the real reader (pdf.NewReader, Reader.Get,            *)
(* Reader.GetMeta, Stream.NewReader) against the reference semantics of     *)
(* XRefHistory.  Only Ref... operators (and the admissible sets of the      *)
(* property) are used for acceptance.  Three kinds of record:               *)
(*                                                                           *)
(*  [t |-> "hist", h, crypt, open, probes, trailer]                         *)
(*     h       the history (kinds and operations) the independent           *)
(*             serialiser rendered;                                         *)
(*     crypt   how the file was encrypted (XRefHistory!CryptNames); the     *)
(*             reader was given the password;                               *)
(*     open    the file could be opened;                                    *)
(*     probes  <<n, g, res>>: Reader.Get(n g R) returned the value written  *)
(*             by revision res (0: null, -1: error, -2: some other value -  *)
(*             in particular strings or stream data that were not decrypted *)
(*             with the key of <<n, g>>, or members of an object stream     *)
(*             decrypted although only their container is encrypted: every  *)
(*             value of an encrypted rendering holds a string or is a       *)
(*             stream, so RefPhysK's key is observed through the value);    *)
(*             n = 999 stands for a number >= /Size;                        *)
(*     trailer what GetMeta() reports, per item the revision whose value it *)
(*             is (0: absent, -1: some other value): ID, Info, XX (entries  *)
(*             of GetMeta().Trailer), MetaInfo (the decoded information     *)
(*             dictionary), MetaID (GetMeta().ID), Other (number of entries *)
(*             that cannot be the newest trailer's: unknown keys, wrong     *)
(*             /Root, /Encrypt present or absent against the file).         *)
(*  [t |-> "len", d, blen, lk, declared, open, got, same]                   *)
(*     d       the bytes of the file from the first data byte of a stream;  *)
(*     blen    the number of data bytes the serialiser wrote;               *)
(*     lk      how /Length is given ("int", "null", "none", see XRefHistory);*)
(*     declared the resolved /Length (-1: missing, negative, unresolvable); *)
(*     got     the number of bytes the stream read back has (-1: error) and *)
(*     same    whether they are the first `got' bytes of d.                 *)
(*  [t |-> "file", file]                                                    *)
(*     file    strict.ToJSON of a rendered file: must be WellFormedLax (the *)
(*             serialiser and the strict parser are cross-checked against   *)
(*             PdfFile).                                                    *)
EXTENDS XRefHistory, TraceLib

Cases == Records

HistOf(c) == [k \in 1..Len(c.h) |-> [kind |-> c.h[k].kind, ops |-> c.h[k].ops, tr |-> c.h[k].tr]]

HistCaseOK(c) ==
  LET h == HistOf(c)
      st == StateAfter(h, Len(h))     \* RefLookup(h, n, g) = RefIn(st, n, g)
  IN /\ ValidHistory(h)       \* the harness only renders what the standard allows
     /\ c.crypt \in CryptNames
     /\ c.open
     /\ \A i \in 1..Len(c.probes) :
          c.probes[i][3] = RefIn(st, c.probes[i][1], c.probes[i][2])
     /\ c.trailer = RefTrailer(h)

LenCaseOK(c) ==
  Admissible(c.d, c.blen, RefDeclared(c.lk, c.declared)) =>
     /\ c.open
     /\ c.got = RefExtent(c.d, c.blen)
     /\ c.same

CaseOK(c) ==
  CASE c.t = "hist" -> HistCaseOK(c)
    [] c.t = "len"  -> LenCaseOK(c)
    [] c.t = "file" -> WellFormedLax(c.file)
    [] OTHER -> FALSE

VARIABLES i, bad, done
vars == <<i, bad, done>>
Init == i = 1 /\ bad = <<>> /\ done = FALSE
Step == /\ i <= Len(Cases)
        /\ i' = i + 1
        /\ bad' = IF CaseOK(Cases[i]) THEN bad ELSE Append(bad, i)
        /\ UNCHANGED done
Finish == /\ i = Len(Cases) + 1 /\ ~done
          /\ done' = TRUE
          /\ WriteVerdict(bad)
          /\ UNCHANGED <<i, bad>>
Next == Step \/ Finish
Spec == Init /\ [][Next]_vars
=============================================================================
