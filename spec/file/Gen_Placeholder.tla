--------------------------- MODULE Gen_Placeholder ---------------------------
(* Behaviour generator: every complete behaviour of Placeholder!Spec (one    *)
(* that ends with Close) within MaxOps calls is one closed state; its call   *)
(* history and what the model reads in the closed file are written once to   *)
(* IOEnv.OUT.  The harness replays the calls on a real pdf.Writer.           *)
EXTENDS Placeholder, Json, IOUtils, CSV
VARIABLE emitted
gvars == <<vars, emitted>>
Reads == [i \in 1..Len(file) |-> [j \in 1..Len(file[i].parts) |-> [s \in 1..Len(file[i].parts[j].slots) |->
            SlotReads(file[i].parts[j].slots[s], file[i].parts[j].num, file[i].kind = "objstm")]]]
GenInit == Init /\ emitted = FALSE
GenNext == \/ Next /\ UNCHANGED emitted
           \/ /\ mode = "closed" /\ ~emitted /\ emitted' = TRUE
              /\ CSVWrite("%1$s", <<ToJson([hist |-> hist, reads |-> Reads])>>, IOEnv.OUT)
              /\ UNCHANGED vars
GenSpec == GenInit /\ [][GenNext]_gvars
=============================================================================
