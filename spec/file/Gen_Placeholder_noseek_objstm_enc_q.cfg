SPECIFICATION GenSpec
CONSTANTS SEEKABLE = FALSE
  OBJSTM = TRUE
  ENCRYPTED = TRUE
  MaxOps = 5
  Impl = "fixed"
CHECK_DEADLOCK FALSE
