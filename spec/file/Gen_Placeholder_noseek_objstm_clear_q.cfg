SPECIFICATION GenSpec
CONSTANTS SEEKABLE = FALSE
  OBJSTM = TRUE
  ENCRYPTED = FALSE
  MaxOps = 5
  Impl = "fixed"
CHECK_DEADLOCK FALSE
