------------------------------ MODULE SeqScan ------------------------------
(* C20.  The sequential scan of a truncated or xref-damaged file            *)
(* (sequential.go: SequentialScan = locateObjects; indexObjects;            *)
(* checkObjects, and FileInfo.Read).                                        *)
(*                                                                          *)
(* A file is  header obj_1 .. obj_n  tail ,  tail being either              *)
(*   xref body trailer dict startxref number %%EOF      (table)             *)
(* or                  startxref number %%EOF           (xref stream; the   *)
(*                     cross-reference stream is obj_n itself).             *)
(* Stream bodies may contain LINES that start with xref, trailer, startxref *)
(* or %%EOF (kinds "mstreamT", "mstreamE"): the marker search takes them    *)
(* for markers, which moves section boundaries but must lose no object.     *)
(* An object is a sequence of tokens  hdr ws <value tokens> ws endobj ; the *)
(* value tokens depend on the kind of the object.  Every token has an      *)
(* abstract length, so a crash point `cut` (a byte offset) falls either on  *)
(* a token boundary ("at") or inside a token ("in").                        *)
(*                                                                          *)
(* Ref...  : what property C20 demands (written from the property text).    *)
(* Impl... : what the code does, one action per step of the three passes;   *)
(*           EOF_IS_BROKEN = FALSE is the code at the pinned commit, where  *)
(*           checkObjects aborts the whole scan when a candidate ends in a  *)
(*           bare io.EOF; TRUE is the design the property demands (an       *)
(*           unexpected end of one candidate marks that candidate Broken).  *)
(*                                                                          *)
(* Excluded by the property (and by the generators): object streams;        *)
(* stream bodies and strings that contain a line-initial object header.     *)
EXTENDS Integers, Sequences, FiniteSets, TLC, SeqScanRef

CONSTANTS Kinds,          \* kinds of objects a file may contain
          MaxObjs,        \* number of objects before the tail (1..MaxObjs)
          Tails,          \* subset of {"table", "xrefstm"}
          Damages,        \* subset of {"none","xrefbody","xrefdata","startxref"}
          EOF_IS_BROKEN,  \* FALSE: as coded, TRUE: as the property demands
          TRIM_TWICE,     \* TRUE: as coded (see ReadVal), FALSE: as the property demands
          SHARED_SEEN,    \* FALSE: as coded (checkObjects makes a fresh makeSafeGetInt per
                          \* object); TRUE: one for the whole scan, whose `seen` set fills up
          USED_HOISTED    \* FALSE: as coded; TRUE: a plausible refactoring of locateObjects
                          \* (`used = true` once before the switch) that loses sections

\* ------------------------------------------------------------------ tokens
Tok(c, x, n) == [cls |-> c, ctx |-> x, len |-> n]
Ws(x) == Tok("ws", x, 1)
DictToks == <<Tok("dopen", "top", 2), Tok("name", "dict", 2), Ws("dict"), Tok("int", "dict", 2),
              Tok("name", "dict", 2), Tok("str", "dict", 2), Tok("dclose", "dict", 2)>>
\* value tokens of an object of the given kind (ctx = innermost container)
Body(kind) ==
  CASE kind = "int"  -> <<Tok("int", "top", 2)>>
    [] kind = "real" -> <<Tok("real", "top", 2)>>
    [] kind = "name" -> <<Tok("name", "top", 2)>>
    [] kind = "kw"   -> <<Tok("kw", "top", 2)>>       \* true false null
    [] kind = "str"  -> <<Tok("str", "top", 2)>>
    [] kind = "hex"  -> <<Tok("hex", "top", 2)>>
    [] kind = "ref"  -> <<Tok("int", "top", 2), Ws("top"), Tok("int", "top", 2), Ws("top"), Tok("R", "top", 1)>>
    [] kind = "arr"  -> <<Tok("aopen", "top", 1), Tok("int", "arr", 2), Ws("arr"), Tok("name", "arr", 2),
                          Tok("dopen", "arr", 2), Tok("name", "dict", 2), Tok("kw", "dict", 2), Tok("dclose", "dict", 2),
                          Tok("aclose", "arr", 1)>>
    [] kind = "dict" -> DictToks
    \* "istream": a stream whose /Length is an indirect object written right
    \* after it (non-seekable sink, body over 1 kB) and whose body ends in an EOL
    \* "mstreamT" / "mstreamE": a stream whose body contains a LINE starting
    \* with trailer | xref | startxref, resp. with %%EOF (permitted content;
    \* locateObjects cannot tell such a line from a marker)
    [] kind \in {"mstreamT", "mstreamE"} ->
         DictToks \o <<Ws("top"), Tok("streamkw", "top", 2), Tok("data", "stm", 2), Tok("mline", "stm", 2),
                       Tok("data", "stm", 2), Tok("endstream", "stm", 2)>>
    \* "aistream": indirect /Length like "istream", and the body contains a line
    \* starting with "endstream" (token amark), possibly followed by a line "endobj"
    [] kind = "aistream" ->
         DictToks \o <<Ws("top"), Tok("streamkw", "top", 2), Tok("data", "stm", 2), Tok("amark", "stm", 2),
                       Tok("data", "stm", 2), Tok("endstream", "stm", 2)>>
    [] kind \in {"stream", "istream"} -> DictToks \o <<Ws("top"), Tok("streamkw", "top", 2), Tok("data", "stm", 2), Tok("endstream", "stm", 2)>>
ObjToks(kind) == <<Tok("hdr", "top", 2), Ws("top")>> \o Body(kind) \o <<Ws("top"), Tok("endobj", "top", 2)>>

Min2(a, b) == IF a < b THEN a ELSE b
RECURSIVE SumLen(_, _)
SumLen(toks, n) == IF n = 0 THEN 0 ELSE SumLen(toks, n - 1) + toks[n].len
ObjLen(kind) == SumLen(ObjToks(kind), Len(ObjToks(kind)))
TokStart(kind, k) == SumLen(ObjToks(kind), k - 1)      \* relative to the object
TokEnd(kind, k) == SumLen(ObjToks(kind), k)

\* ------------------------------------------------------------------- files
HeaderLen == 2                       \* "%PDF-1.x" plus the byte after it
Gap == 1                             \* the EOL between objects
RECURSIVE StartOf(_, _)
StartOf(kinds, i) == IF i = 1 THEN HeaderLen + Gap ELSE StartOf(kinds, i - 1) + ObjLen(kinds[i - 1]) + Gap
EndOf(kinds, i) == StartOf(kinds, i) + ObjLen(kinds[i])
HdrEndOf(kinds, i) == StartOf(kinds, i) + 2
TailStart(kinds) == EndOf(kinds, Len(kinds)) + Gap
\* the tail: markers (len 2) and their payloads (len 2), with an EOL before each marker
TailToks(tail) == IF tail = "table"
                  THEN <<"xref", "xrefbody", "trailer", "trailerdict", "startxref", "number", "eof">>
                  ELSE <<"startxref", "number", "eof">>
TailLen(tail) == 2 * Len(TailToks(tail))
FileLen(kinds, tail) == TailStart(kinds) + TailLen(tail)
MarkerEnd(kinds, tail, j) == TailStart(kinds) + 2 * j   \* end of the j-th tail piece
IsMarker(w) == w \in {"xref", "trailer", "startxref", "eof"}
\* everything markerRegexp matches, in file order: object headers, marker-like
\* lines inside stream bodies, the keywords of the tail.  ty: "obj", "word"
\* (xref | trailer | startxref), "eof" (%%EOF); end: offset just after the match
MLineEnd(kind) == TokEnd(kind, CHOOSE k \in 1..Len(ObjToks(kind)) : ObjToks(kind)[k].cls = "mline")
RECURSIVE ObjMarkers(_, _)
ObjMarkers(ks, i) ==
  IF i > Len(ks) THEN <<>>
  ELSE <<[ty |-> "obj", o |-> i, end |-> HdrEndOf(ks, i)]>>
       \o (IF ks[i] \in {"mstreamT", "mstreamE"}
           THEN <<[ty |-> IF ks[i] = "mstreamT" THEN "word" ELSE "eof", o |-> i, end |-> StartOf(ks, i) + MLineEnd(ks[i])]>>
           ELSE <<>>)
       \o ObjMarkers(ks, i + 1)
TailMarkers(ks, t) ==
  SelectSeq([j \in 1..Len(TailToks(t)) |->
               [ty |-> IF TailToks(t)[j] = "eof" THEN "eof" ELSE IF IsMarker(TailToks(t)[j]) THEN "word" ELSE "skip",
                o |-> 0, end |-> MarkerEnd(ks, t, j)]],
            LAMBDA m : m.ty # "skip")
Markers(ks, t) == ObjMarkers(ks, 1) \o TailMarkers(ks, t)

\* ------------------------------------------------------------ the property
\* is stated in SeqScanRef (Ref... operators over byte offsets); here the
\* ground truth of a model file:
IndirectLen(k) == k \in {"istream", "aistream"}      \* the next object holds the /Length
ObjRecs(ks) == [i \in 1..Len(ks) |-> [start |-> StartOf(ks, i), hdrEnd |-> HdrEndOf(ks, i), end |-> EndOf(ks, i),
                                     amb |-> ks[i] = "aistream",
                                     lenEnd |-> IF IndirectLen(ks[i]) /\ i < Len(ks) THEN EndOf(ks, i + 1) ELSE EndOf(ks, i)]]

\* ---------------------------------------------------- the parser, as coded
\* What ReadIndirectObject returns when the input ends while token k of an
\* object is not completely available.  part: some bytes of the token are
\* there.  Inside a dictionary, array or stream the deferred handlers of
\* ReadDict / ReadArray / ReadStreamData turn io.EOF into a
\* MalformedFileError; at the top level of the indirect object
\* SkipWhiteSpace, ReadString, ReadHexString return a bare io.EOF.
ImplStops(tok, part) ==
  IF tok.ctx # "top" THEN {"malformed"}
  ELSE IF ~part THEN {"eof"}                        \* SkipWhiteSpace reaches the end
  ELSE CASE tok.cls \in {"ws", "name"} -> {"eof"}   \* short token accepted, then SkipWhiteSpace
         \* a shorter number is accepted (then SkipWhiteSpace: eof), unless only
         \* its sign or "." is left (strconv fails: malformed)
         [] tok.cls \in {"int", "real"} -> {"eof", "malformed"}
         [] tok.cls \in {"str", "hex", "dopen"} -> {"eof"}      \* ReadByte / ScanBytes ("<" alone is a hex string)
         [] tok.cls \in {"kw", "endobj", "streamkw"} -> {"malformed"} \* unexpected character / expected "endobj"
         [] OTHER -> {"malformed"}
\* checkObjects: malformed => Broken; anything else aborts the scan
ImplVerdict(stop) == IF stop = "malformed" \/ EOF_IS_BROKEN THEN "broken" ELSE "abort"

\* outcomes of parsing object i of a file cut at `cut` (function form, used by
\* the generator and for cross-checking the step machine)
StopTok(kind, avail) ==  \* index of the first token not completely available, 0 if none
  LET ks == {k \in 1..Len(ObjToks(kind)) : TokEnd(kind, k) > avail}
  IN IF ks = {} THEN 0 ELSE CHOOSE k \in ks : \A j \in ks : k <= j
ImplParses(kind, avail) ==
  LET k == StopTok(kind, avail)
  IN IF k = 0 THEN {"ok"}
     ELSE {ImplVerdict(x) : x \in ImplStops(ObjToks(kind)[k], TokStart(kind, k) < avail)}
\* ReadStreamData: the declared /Length is used when it can be resolved (and
\* "endstream" follows there); otherwise the end of the body is searched:
\* the first EOL "endstream".  In an "aistream" that is the line inside the
\* body: if "endobj" follows it there the object parses (with a shorter
\* body), else it is malformed.
AmarkIdx(kind) == CHOOSE k \in 1..Len(ObjToks(kind)) : ObjToks(kind)[k].cls = "amark"
ImplParsesL(kind, avail, lenKnown) ==
  IF kind = "aistream" /\ ~lenKnown
  THEN IF TokEnd(kind, AmarkIdx(kind)) <= avail THEN {"ok", "broken"} ELSE ImplParses(kind, Min2(avail, TokStart(kind, AmarkIdx(kind))))
  ELSE ImplParses(kind, avail)
LenObjComplete(ks, c, i) == IndirectLen(ks[i]) /\ i < Len(ks) /\ EndOf(ks, i + 1) <= c

\* FileInfo.Read of object i (it resolves lengths with a makeSafeGetInt of its
\* own).  A stream whose /Length cannot be resolved (the object holding it
\* lies beyond the cut) is delimited by searching for EOL "endstream"
\* (ReadStreamData); as coded before cc9fb20 trimTrailingEOL then removed one
\* more EOL from the body although the regular expression had consumed the
\* marker already, so a body that ends in an EOL came back one EOL short.
ReadVal(ks, c, i) ==
  IF ks[i] = "aistream" /\ ~LenObjComplete(ks, c, i) THEN "other"
  ELSE IF ImplParses(ks[i], c - StartOf(ks, i)) # {"ok"} THEN "err"
  ELSE IF ks[i] = "istream" /\ TRIM_TWICE /\ ~LenObjComplete(ks, c, i) THEN "other"
  ELSE "v"

\* ------------------------------------------------------- the scan, stepwise
VARIABLES kinds,    \* the file: sequence of object kinds
          tail,     \* "table" / "xrefstm" / "?" while the file is being built
          cut,      \* crash point (FileLen = intact), -1 before it is chosen
          damage,   \* which cross-reference data has been overwritten
          phase,    \* build, locate, check, read, done
          mpos,     \* locate: index of the next marker (0: the file header)
          listed,   \* objects with a FileObject in fi.Sections
          nsect,    \* number of sections appended so far
          cursec,   \* locateObjects: objects of the section under construction
          used,     \* locateObjects: current section has content
          inTr,     \* locateObjects: inTrailer
          M,        \* Markers(kinds, tail), computed once when the fault is chosen
          nres,     \* checkObjects: indirect lengths resolved so far (matters if SHARED_SEEN)
          lk,       \* checkObjects: the /Length of cur could be resolved
          cur,      \* check: candidate being parsed (0: none)
          tk,       \* check: next token of cur
          st,       \* status of each object: "-", "ok", "broken"
          val,      \* what Read returns: "-", "v", "err"
          res       \* "-", "ok", "abort", "nopdf", "nocontent"
vars == <<kinds, tail, cut, damage, phase, mpos, listed, nsect, cursec, used, inTr, M, nres, lk, cur, tk, st, val, res>>

N == Len(kinds)
Init == /\ kinds = <<>> /\ tail = "?" /\ cut = -1 /\ damage = "none" /\ phase = "build"
        /\ mpos = 0 /\ listed = {} /\ nsect = 0 /\ cursec = {} /\ used = FALSE /\ inTr = FALSE /\ M = <<>> /\ nres = 0 /\ lk = TRUE /\ cur = 0 /\ tk = 0
        /\ st = <<>> /\ val = <<>> /\ res = "-"

\* -- building the file and choosing the fault (actions, so that workers share)
AddObj(k) == /\ phase = "build" /\ tail = "?" /\ N < MaxObjs
             /\ IndirectLen(k) => N + 1 < MaxObjs               \* its length object follows
             /\ (N >= 1 /\ IndirectLen(kinds[N])) => k = "int"
             /\ kinds' = Append(kinds, k)
             /\ UNCHANGED <<tail, cut, damage, phase, mpos, listed, nsect, cursec, used, inTr, M, nres, lk, cur, tk, st, val, res>>
CloseFile(t) == /\ phase = "build" /\ tail = "?" /\ N >= 1 /\ ~IndirectLen(kinds[N])
                /\ tail' = t
                /\ kinds' = IF t = "xrefstm" THEN Append(kinds, "stream") ELSE kinds
                /\ UNCHANGED <<cut, damage, phase, mpos, listed, nsect, cursec, used, inTr, M, nres, lk, cur, tk, st, val, res>>
Begin(c, d) == /\ phase = "build" /\ tail # "?"
               /\ cut' = c /\ damage' = d
               /\ phase' = "locate" /\ mpos' = 0 /\ M' = Markers(kinds, tail)
               /\ st' = [i \in 1..N |-> "-"] /\ val' = [i \in 1..N |-> "-"]
               /\ UNCHANGED <<kinds, tail, listed, nsect, cursec, used, inTr, nres, lk, cur, tk, res>>
Truncate == /\ phase = "build" /\ tail # "?"
            /\ \E c \in 0..FileLen(kinds, tail) : Begin(c, "none")
Damage(d) == /\ phase = "build" /\ tail # "?"
             /\ d # "none"
             /\ d = "xrefbody" => tail = "table"
             /\ d = "xrefdata" => tail = "xrefstm"
             /\ Begin(FileLen(kinds, tail), d)

\* -- locateObjects: Find(startRegexp), then Find(markerRegexp) until EOF
LocHeader == /\ phase = "locate" /\ mpos = 0
             /\ IF HeaderLen <= cut
                THEN mpos' = 1 /\ UNCHANGED <<phase, res>>
                ELSE res' = "nopdf" /\ phase' = "done" /\ UNCHANGED mpos
             /\ UNCHANGED <<kinds, tail, cut, damage, listed, nsect, cursec, used, inTr, M, nres, lk, cur, tk, st, val>>
\* finish(): the section under construction is appended if it is used
Keep(u) == /\ listed' = IF u THEN listed \cup cursec ELSE listed
           /\ nsect' = IF u THEN nsect + 1 ELSE nsect
\* a marker matches when its text lies completely below the cut
LocMarker ==
  /\ phase = "locate" /\ mpos \in 1..Len(M) /\ M[mpos].end <= cut
  /\ LET m == M[mpos]
     IN CASE m.ty = "obj" ->
               \* an object header after a trailer keyword starts a new section
               IF inTr
               THEN /\ Keep(used \/ USED_HOISTED)
                    /\ cursec' = {m.o} /\ inTr' = FALSE
                    \* as coded `used = true` follows the append; hoisted before
                    \* the switch it is undone by finish()
                    /\ used' = ~USED_HOISTED
               ELSE /\ cursec' = cursec \cup {m.o} /\ used' = TRUE
                    /\ UNCHANGED <<listed, nsect, inTr>>
          [] m.ty = "word" ->
               /\ inTr' = TRUE /\ used' = TRUE /\ UNCHANGED <<listed, nsect, cursec>>
          [] m.ty = "eof" ->
               /\ Keep(used \/ USED_HOISTED)
               /\ cursec' = {} /\ used' = FALSE /\ inTr' = FALSE
  /\ mpos' = mpos + 1
  /\ UNCHANGED <<kinds, tail, cut, damage, phase, M, nres, lk, cur, tk, st, val, res>>
\* the next marker is not (completely) there: Find returns io.EOF; finish()
LocEnd == /\ phase = "locate" /\ mpos >= 1
          /\ IF mpos > Len(M) THEN TRUE ELSE M[mpos].end > cut
          /\ Keep(used)
          /\ cursec' = {} /\ used' = FALSE /\ inTr' = FALSE
          /\ IF nsect + (IF used THEN 1 ELSE 0) = 0
             THEN res' = "nocontent" /\ phase' = "done" /\ UNCHANGED <<cur, tk>>
             ELSE phase' = "check" /\ cur' = 0 /\ tk' = 0 /\ UNCHANGED res
          /\ UNCHANGED <<kinds, tail, cut, damage, mpos, M, nres, lk, st, val>>

\* -- checkObjects: parse every candidate in file order
Pending == {i \in listed : st[i] = "-"}
\* doRead(objInfo, getInt): with a makeSafeGetInt per object (as coded) every
\* resolvable /Length is resolved; with one shared by the whole scan its set of
\* references seen fills up (cap 8 in the code, 1 in this model) and every
\* later indirect /Length is refused as a "circular reference"
SeenCap == 1
CheckBegin == /\ phase = "check" /\ cur = 0 /\ Pending # {}
              /\ LET i == CHOOSE i \in Pending : \A j \in Pending : i <= j
                     can == LenObjComplete(kinds, cut, i)
                 IN /\ cur' = i
                    /\ lk' = (can /\ (SHARED_SEEN => nres < SeenCap))
                    /\ nres' = IF can THEN nres + 1 ELSE nres
              /\ tk' = 1
              /\ UNCHANGED <<kinds, tail, cut, damage, phase, mpos, listed, nsect, cursec, used, inTr, M, st, val, res>>
Avail == cut - StartOf(kinds, cur)
\* the search for EOL "endstream" stops at the line inside the body
AtAmark == kinds[cur] = "aistream" /\ ~lk /\ tk = AmarkIdx("aistream")
ParseAmbig == /\ phase = "check" /\ cur # 0 /\ AtAmark /\ TokEnd(kinds[cur], tk) <= Avail
              /\ \E v \in {"ok", "broken"} : st' = [st EXCEPT ![cur] = v]   \* "endobj" follows there, or not
              /\ cur' = 0 /\ tk' = 0
              /\ UNCHANGED <<kinds, tail, cut, damage, phase, mpos, listed, nsect, cursec, used, inTr, M, nres, lk, val, res>>
ParseTok == /\ phase = "check" /\ cur # 0 /\ tk <= Len(ObjToks(kinds[cur])) /\ ~AtAmark
            /\ TokEnd(kinds[cur], tk) <= Avail
            /\ tk' = tk + 1
            /\ UNCHANGED <<kinds, tail, cut, damage, phase, mpos, listed, nsect, cursec, used, inTr, M, nres, lk, cur, st, val, res>>
ParseDone == /\ phase = "check" /\ cur # 0 /\ tk = Len(ObjToks(kinds[cur])) + 1
             /\ st' = [st EXCEPT ![cur] = "ok"] /\ cur' = 0 /\ tk' = 0
             /\ UNCHANGED <<kinds, tail, cut, damage, phase, mpos, listed, nsect, cursec, used, inTr, M, nres, lk, val, res>>
ParseStop == /\ phase = "check" /\ cur # 0 /\ tk <= Len(ObjToks(kinds[cur]))
             /\ TokEnd(kinds[cur], tk) > Avail
             /\ \E stop \in ImplStops(ObjToks(kinds[cur])[tk], TokStart(kinds[cur], tk) < Avail) :
                LET v == ImplVerdict(stop)
                IN IF v = "broken"
                   THEN st' = [st EXCEPT ![cur] = "broken"] /\ cur' = 0 /\ tk' = 0 /\ UNCHANGED <<phase, res>>
                   ELSE res' = "abort" /\ phase' = "done" /\ UNCHANGED <<st, cur, tk>>
             /\ UNCHANGED <<kinds, tail, cut, damage, mpos, listed, nsect, cursec, used, inTr, M, nres, lk, val>>
CheckEnd == /\ phase = "check" /\ cur = 0 /\ Pending = {}
            /\ res' = "ok" /\ phase' = "read"
            /\ UNCHANGED <<kinds, tail, cut, damage, mpos, listed, nsect, cursec, used, inTr, M, nres, lk, cur, tk, st, val>>

\* -- FileInfo.Read of every listed object (same parser, same bytes)
ReadOne == /\ phase = "read"
           /\ \E i \in listed : /\ val[i] = "-"
                                /\ val' = [val EXCEPT ![i] = ReadVal(kinds, cut, i)]
           /\ UNCHANGED <<kinds, tail, cut, damage, phase, mpos, listed, nsect, cursec, used, inTr, M, nres, lk, cur, tk, st, res>>
ReadEnd == /\ phase = "read" /\ \A i \in listed : val[i] # "-"
           /\ phase' = "done"
           /\ UNCHANGED <<kinds, tail, cut, damage, mpos, listed, nsect, cursec, used, inTr, M, nres, lk, cur, tk, st, val, res>>

Next == \/ \E k \in Kinds : AddObj(k)
        \/ \E t \in Tails : CloseFile(t)
        \/ Truncate
        \/ \E d \in Damages : Damage(d)
        \/ LocHeader \/ LocMarker \/ LocEnd
        \/ CheckBegin \/ ParseAmbig \/ ParseTok \/ ParseDone \/ ParseStop \/ CheckEnd
        \/ ReadOne \/ ReadEnd
Spec == Init /\ [][Next]_vars

\* ------------------------------------------------------------- invariants
Done == phase = "done"
PropertyHolds == Done => RefHolds(ObjRecs(kinds), cut, res, listed, st, val)
ScanReturns == Done => RefScanReturns(ObjRecs(kinds), cut, res)
\* the step machine and the function form of the parser agree
StepsAgree == (phase \in {"read", "done"} /\ res = "ok") =>
                 \A i \in listed : st[i] \in ImplParsesL(kinds[i], cut - StartOf(kinds, i), LenObjComplete(kinds, cut, i))
                                               \cup (IF SHARED_SEEN THEN ImplParsesL(kinds[i], cut - StartOf(kinds, i), FALSE) ELSE {})
\* overwritten cross-reference data does not change what the scan returns
DamageHarmless == (Done /\ damage # "none") =>
                    /\ res = "ok" /\ listed = 1..N /\ \A i \in 1..N : st[i] = "ok" /\ val[i] = "v"
\* nothing is reported that is not in the file (at its true offset by construction)
TypeOK == /\ listed \subseteq 1..N
          /\ res \in {"-", "ok", "abort", "nopdf", "nocontent"}
=============================================================================
