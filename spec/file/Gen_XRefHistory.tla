-------------------------- MODULE Gen_XRefHistory --------------------------
(* Case table from the reference semantics: every conforming history of at  *)
(* most MaxRevs revisions over the objects Objs (kinds and operations only:  *)
(* the syntactic rendering, subsection layout included, is chosen by the     *)
(* independent serialiser), with RefLookup for every probe reference -       *)
(* stale generations and a number >= /Size (999) included - and the          *)
(* revision whose trailer must be reported.  Second table: stream bodies     *)
(* from pieces with every declared length and the true extent.               *)
EXTENDS XRefHistory, Json, IOUtils, SequencesExt
CONSTANTS Objs, MaxRevs, MaxPieces, Shard, Shards

Beyond == 999
ProbeGens == {0, 1, 2, MaxGen}
SortedNums == Sorted(Objs)
SortedGens == Sorted(ProbeGens)

RevsAfter(h) ==
  LET k == Len(h) + 1
      p == IF k = 1 THEN [n \in Objs |-> Absent] ELSE StateAfter(h, k - 1)
      \* built constructively: per object the operations the standard allows
      allowed(kind, n) == {op \in OpNames : OpOK(p[n], kind, op, k)}
      revs(kind) == {[kind |-> kind, ops |-> f, tr |-> <<"Info", "XX">>] : f \in {g \in [Objs -> OpNames] : \A n \in Objs : g[n] \in allowed(kind, n)}}
  IN {rev \in UNION {revs(kind) : kind \in Kinds} : RevOK(p, rev, k)}

RECURSIVE HistsOfLen(_)
HistsOfLen(k) == IF k = 0 THEN {<<>>}
                 ELSE UNION {{Append(h, rev) : rev \in RevsAfter(h)} : h \in HistsOfLen(k - 1)}
Hists == UNION {HistsOfLen(k) : k \in 1..MaxRevs}

\* trailer table: every choice of optional trailer keys per revision (up to 3
\* revisions) over histories with tables, streams and hybrid sections: the
\* first revision retires the first object, which may come back hidden
FirstObj == CHOOSE n \in Objs : \A m \in Objs : n <= m
TRevsAfter(h) ==
  LET k == Len(h) + 1
      p == IF k = 1 THEN [n \in Objs |-> Absent] ELSE StateAfter(h, k - 1)
      opss == IF k = 1 THEN {[n \in Objs |-> IF n = FirstObj THEN "freer" ELSE "def"]}
              ELSE {[n \in Objs |-> "keep"], [n \in Objs |-> IF n = FirstObj THEN "hdef" ELSE "keep"]}
  IN {rev \in [kind : Kinds, ops : opss, tr : TrailerChoices] : RevOK(p, rev, k)}
RECURSIVE THistsOfLen(_)
THistsOfLen(k) == IF k = 0 THEN {<<>>}
                  ELSE UNION {{Append(h, rev) : rev \in TRevsAfter(h)} : h \in THistsOfLen(k - 1)}
THists == UNION {THistsOfLen(k) : k \in 1..3}

ProbeSeq == LET cells == [i \in 1..(Len(SortedNums) * Len(SortedGens)) |->
                           <<SortedNums[((i - 1) \div Len(SortedGens)) + 1], SortedGens[((i - 1) % Len(SortedGens)) + 1]>>]
            IN cells \o <<<<Beyond, 0>>, <<Beyond, 1>>>>

HistCase(h) ==
  LET ps == ProbeSeq
      nums == SortedNums
  IN [t |-> "hist",
      h |-> [k \in 1..Len(h) |-> [kind |-> h[k].kind, ops |-> [i \in 1..Len(nums) |-> h[k].ops[nums[i]]], tr |-> h[k].tr]],
      expect |-> [i \in 1..Len(ps) |-> <<ps[i][1], ps[i][2], RefLookup(h, ps[i][1], ps[i][2])>>],
      trailer |-> RefTrailer(h)]

\* sharding by the position in an arbitrary but fixed enumeration
MyHists == LET s == SetToSeq(Hists \cup THists) IN {s[i] : i \in {j \in 1..Len(s) : j % Shards = Shard}}
HistCases == SetToSeq({HistCase(h) : h \in MyHists})

\* stream bodies: sequences of at most MaxPieces pieces
PieceSet == {<<120>>, <<32>>, <<13>>, <<10>>, KW}
RECURSIVE BodiesOf(_)
BodiesOf(k) == IF k = 0 THEN {<<>>} ELSE {b \o p : b \in BodiesOf(k - 1), p \in PieceSet}
Bodies == UNION {BodiesOf(k) : k \in 0..MaxPieces}
\* the harness renders each body with every way of declaring the length; the
\* table only needs the admissible bodies and their true extent
LenCase(b) == [t |-> "body", body |-> b, extent |-> Len(b),
               admissible |-> BodyAdmissible(b \o <<10>> \o KW, Len(b))]
LenCases == IF Shard # 0 THEN <<>> ELSE SetToSeq({LenCase(b) : b \in Bodies})

ASSUME ndJsonSerialize(IOEnv.OUT, HistCases \o LenCases)
VARIABLE x
Init == x = 0
Next == UNCHANGED x
=============================================================================
