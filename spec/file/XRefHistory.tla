---------------------------- MODULE XRefHistory ----------------------------
(* Property C04: the Reader follows the specification for every conforming  *)
(* serialisation and history.                                                *)
(*                                                                           *)
(* A *history* is a sequence of revisions (the original file and its         *)
(* incremental updates, ISO 32000 7.5.6).  A revision has a kind (classic    *)
(* table, cross-reference stream, hybrid) and one operation per object       *)
(* number.  Three things are defined and kept apart:                         *)
(*                                                                           *)
(*   Ref...   what the standard says a reference resolves to (apply the      *)
(*            revisions oldest to newest; the newest entry decides) - the    *)
(*            only operators the trace judge uses;                           *)
(*   FileOf   the abstract file (PdfFile) a conforming writer produces for   *)
(*            the history: sections with subsections and entries, objects;   *)
(*   Impl...  the shape of go-pdf's reader: xref.go readXRef / readXRefTable *)
(*            / decodeXRefSection / decodeXRefStream (newest section first,  *)
(*            table, then /XRefStm, then /Prev; first entry wins; seen set)  *)
(*            as actions of a state machine (see MC_XRefHistory), and        *)
(*            reader.go Reader.get; scanner.go ReadStreamData for the stream *)
(*            extent.                                                        *)
EXTENDS PdfFile, TLC

CONSTANTS OFFBYONE,   \* TRUE: model the "fix an error seen in some PDF files"
                      \* of decodeXRefSection (subsection starting at 1 whose
                      \* first entry is 0000000000 65535 f is shifted down)
          NULLZERO,   \* TRUE: an indirect /Length that resolves to the null
                      \* object is taken as 0 (reader.go safeGetInteger before
                      \* commit 8dab642); FALSE: it is unknown
          KEYGEN0,    \* TRUE (defective variant): the reader derives the object
                      \* key with generation 0 whatever the object's generation
          DECRYPTMEMBERS, \* TRUE (defective variant): the reader decrypts the
                      \* strings of object-stream members a second time
          TRAILERMERGE,   \* TRUE (defective variant): every section on the /Prev
                      \* chain contributes the trailer keys not seen so far
          ZEROLENUNKNOWN  \* TRUE (defective variant): a resolved /Length of 0 is
                      \* treated as unknown (n > 0 instead of n >= 0)

Kinds   == {"table", "stream", "hybrid"}
OpNames == {"keep",    \* the revision does not touch the object
            "def",     \* (re)define, object of its own, entry in the main part
            "defc",    \* (re)define in an object stream (stream revisions)
            "hdef",    \* hybrid: hidden object of its own (entry in /XRefStm)
            "hdefc",   \* hybrid: hidden object in an object stream
            "freeb",   \* free, generation + 1, linked free list
            "freer"}   \* free, generation 65535 (retired), next free object 0
MaxGen == 65535

---------------------------------------------------------------------------
(* Semantics of the operations (7.5.4: generations; 7.5.8.4: hidden objects) *)

ObjsOf(h) == DOMAIN h[1].ops

Absent == [st |-> "absent", g |-> 0, r |-> 0, c |-> FALSE, h |-> FALSE]

\* may revision number k of the given kind apply op to an object in state s?
OpOK(s, kind, op, k) ==
  CASE op = "keep"  -> k > 1
    [] op = "def"   -> s.st \in {"absent", "used"} \/ (s.st = "free" /\ s.g # MaxGen)
    [] op = "defc"  -> kind = "stream" /\ (s.st = "absent" \/ (s.st \in {"used", "free"} /\ s.g = 0))
    [] op = "hdef"  -> kind = "hybrid" /\ s.st = "free" /\ s.g = MaxGen
    [] op = "hdefc" -> kind = "hybrid" /\ s.st = "free" /\ s.g = MaxGen
    [] op = "freeb" -> s.st = "absent" \/ (s.st = "used" /\ s.g < MaxGen - 1)
    [] op = "freer" -> s.st \in {"absent", "used"}
    [] OTHER        -> FALSE

\* state of the object after revision k applied op
ApplyOp(s, op, k) ==
  CASE op = "keep"  -> s
    [] op = "def"   -> [st |-> "used", g |-> IF s.st = "absent" THEN 0 ELSE s.g, r |-> k, c |-> FALSE, h |-> FALSE]
    [] op = "defc"  -> [st |-> "used", g |-> 0, r |-> k, c |-> TRUE,  h |-> FALSE]
    [] op = "hdef"  -> [st |-> "used", g |-> 0, r |-> k, c |-> FALSE, h |-> TRUE]
    [] op = "hdefc" -> [st |-> "used", g |-> 0, r |-> k, c |-> TRUE,  h |-> TRUE]
    [] op = "freeb" -> [st |-> "free", g |-> IF s.st = "used" THEN s.g + 1 ELSE 0, r |-> 0, c |-> FALSE, h |-> FALSE]
    [] op = "freer" -> [st |-> "free", g |-> MaxGen, r |-> 0, c |-> FALSE, h |-> FALSE]

RECURSIVE StateAfter(_, _)
StateAfter(h, k) ==
  IF k = 0 THEN [n \in ObjsOf(h) |-> Absent]
  ELSE LET p == StateAfter(h, k - 1)
       IN [n \in ObjsOf(h) |-> ApplyOp(p[n], h[k].ops[n], k)]

IsHidden(op) == op \in {"hdef", "hdefc"}

\* Trailers (7.5.5, 7.5.6): every revision has a trailer of its own; the
\* trailer of the document is the trailer of the newest revision *only*.  A
\* revision's trailer always has /Root and /ID (the second /ID string changes
\* with every revision); rev.tr lists (as a sequence) which of the optional
\* keys it has: "Info" (/Info, pointing at the information dictionary this
\* revision wrote) and "XX" (a private key, /XX_Rev).  An update whose trailer
\* lacks a key the previous trailer had is what an older-trailer leak shows on.
OptionalKeys == {"Info", "XX"}
TrailerChoices == {<<>>, <<"Info">>, <<"XX">>, <<"Info", "XX">>}
HasKey(rev, k) == k = "ID" \/ \E i \in DOMAIN rev.tr : rev.tr[i] = k
TrOK(rev) == \A i \in DOMAIN rev.tr : rev.tr[i] \in OptionalKeys

\* What GetMeta() has to report, per item the number of the revision whose
\* value it is (0: absent): the /ID, /Info and /XX_Rev entries of the trailer
\* dictionary, the decoded information dictionary and identifier, and the
\* number of entries that are in no way those of the newest trailer
RefTrailer(h) ==
  LET L == Len(h)
      at(k) == IF HasKey(h[L], k) THEN L ELSE 0
  IN [ID |-> L, Info |-> at("Info"), XX |-> at("XX"), MetaInfo |-> at("Info"), MetaID |-> L, Other |-> 0]

\* a revision the standard allows after the state p (the first revision gives
\* every number an entry; a hybrid revision has something to hide)
RevOK(p, rev, k) ==
  /\ rev.kind \in Kinds
  /\ \A n \in DOMAIN rev.ops : OpOK(p[n], rev.kind, rev.ops[n], k)
  /\ rev.kind = "hybrid" => \E n \in DOMAIN rev.ops : IsHidden(rev.ops[n])

RECURSIVE HistOK(_, _)
HistOK(h, k) == k = 0 \/ (HistOK(h, k - 1) /\ DOMAIN h[k].ops = ObjsOf(h) /\ TrOK(h[k]) /\ RevOK(StateAfter(h, k - 1), h[k], k))
ValidHistory(h) == Len(h) >= 1 /\ HistOK(h, Len(h))

---------------------------------------------------------------------------
(* Reference semantics (7.3.10, 7.5.4 - 7.5.8): a reference resolves iff the *)
(* newest entry of its number is in use with the same generation.  The       *)
(* result is the number of the revision whose definition is returned, 0 for  *)
(* the null object.                                                          *)

\* st is the state after the newest revision
RefIn(st, n, g) ==
  IF n \notin DOMAIN st THEN 0
  ELSE IF st[n].st = "used" /\ st[n].g = g THEN st[n].r ELSE 0
RefLookup(h, n, g) == RefIn(StateAfter(h, Len(h)), n, g)

\* the trailer entries reported are those of the newest revision: RefTrailer above

---------------------------------------------------------------------------
(* The abstract file a conforming writer produces for a history.             *)
(* Physical identities: the object written for number n by revision k stands *)
(* at offset 100 k + n; the object stream of revision k has number 1000 + k  *)
(* and stands at offset 100 k + 99.                                          *)

Off(n, k)  == 100 * k + n
StmNum(k)  == 1000 + k
BigSize    == 2000

RECURSIVE Sorted(_)
Sorted(S) == IF S = {} THEN <<>>
             ELSE LET m == CHOOSE x \in S : \A y \in S : x <= y
                  IN <<m>> \o Sorted(S \ {m})

Compressed(op) == op \in {"defc", "hdefc"}
CompNums(rev) == {n \in DOMAIN rev.ops : Compressed(rev.ops[n])}
\* index of n in the object stream of revision k (members in number order)
IdxOf(h, k, n) == Cardinality({m \in CompNums(h[k]) : m < n})

EntryFor(h, n, s) ==
  IF s.st = "free" THEN [n |-> n, t |-> "f", next |-> 0, g |-> s.g]
  ELSE IF s.c THEN [n |-> n, t |-> "c", stm |-> StmNum(s.r), idx |-> IdxOf(h, s.r, n)]
  ELSE [n |-> n, t |-> "n", off |-> Off(n, s.r), g |-> s.g]
ZeroEntry == [n |-> 0, t |-> "f", next |-> 0, g |-> MaxGen]
StmEntry(k) == [n |-> StmNum(k), t |-> "n", off |-> Off(99, k), g |-> 0]

\* numbers a table subsection layout lists, given the changed numbers L:
\* style "one" lists the unchanged numbers in between again, if a table can
\* express them (not compressed, not hidden)
Filled(L, q, style, inTable) ==
  IF style # "one" \/ L = {} THEN L
  ELSE LET lo == CHOOSE x \in L : \A y \in L : x <= y
           hi == CHOOSE x \in L : \A y \in L : x >= y
           between == (lo..hi) \ L
           ok(n) == n \in DOMAIN q /\ q[n].st # "absent" /\ (inTable => ~(q[n].st = "used" /\ (q[n].c \/ q[n].h)))
       IN IF \A n \in between : ok(n) THEN lo..hi ELSE L

\* subsections as <<first, count>> for the numbers L
RunLen(L, n) == CHOOSE c \in 1..Cardinality(L) : (\A i \in 0..(c-1) : n + i \in L) /\ (n + c) \notin L
Subs(L, style) ==
  IF style = "each" THEN [i \in 1..Cardinality(L) |-> <<Sorted(L)[i], 1>>]
  ELSE LET starts == Sorted({n \in L : (n - 1) \notin L})
       IN [i \in 1..Len(starts) |-> <<starts[i], RunLen(L, starts[i])>>]

\* the section written by revision k of history h
SectionOf(h, k) ==
  LET rev     == h[k]
      q       == StateAfter(h, k)
      changed == {n \in DOMAIN rev.ops : rev.ops[n] # "keep"}
      hid     == {n \in changed : IsHidden(rev.ops[n])}
      \* layout choices (absent from generated / logged histories: defaults)
      zero    == IF k = 1 \/ (Has(rev, "zero") /\ rev.zero) THEN {0} ELSE {}
      style   == IF k = 1 \/ ~Has(rev, "style") THEN "runs" ELSE rev.style
      main    == Filled((changed \ hid) \cup zero, q, style, rev.kind # "stream")
      ent(n)  == IF n = 0 THEN ZeroEntry ELSE EntryFor(h, n, q[n])
      seqOf(L) == [i \in 1..Cardinality(L) |-> ent(Sorted(L)[i])]
      stm     == IF CompNums(rev) # {} THEN <<StmEntry(k)>> ELSE <<>>
      stmSub  == IF CompNums(rev) # {} THEN <<<<StmNum(k), 1>>>> ELSE <<>>
      base    == [kind |-> rev.kind, off |-> Off(0, k), size |-> BigSize,
                  subs |-> Subs(main, style) \o stmSub, entries |-> seqOf(main) \o stm]
  IN IF rev.kind = "hybrid"
     THEN [base EXCEPT !.kind = "hybrid"] @@
          [xrefstm |-> [kind |-> "stream", off |-> Off(98, k), size |-> BigSize,
                        subs |-> Subs(hid, "runs"), entries |-> seqOf(hid)]]
     ELSE base

ObjectsOf(h) ==
  LET plain == {<<n, k>> \in ObjsOf(h) \X (1..Len(h)) : h[k].ops[n] \in {"def", "hdef"}}
      stms  == {k \in 1..Len(h) : CompNums(h[k]) # {}}
      offs  == {Off(p[1], p[2]) : p \in plain} \cup {Off(99, k) : k \in stms}
      pobj(n, k) == [n |-> n, g |-> StateAfter(h, k)[n].g, off |-> Off(n, k), kind |-> "dict"]
      sobj(k) == [n |-> StmNum(k), g |-> 0, off |-> Off(99, k), kind |-> "stream",
                  objstm |-> [members |-> [i \in 1..Cardinality(CompNums(h[k])) |-> [n |-> Sorted(CompNums(h[k]))[i]]]]]
      at(off) == IF off % 100 = 99 THEN sobj(off \div 100) ELSE pobj(off % 100, off \div 100)
  IN [i \in 1..Cardinality(offs) |-> at(Sorted(offs)[i])]

FileOf(h) == [sections |-> [i \in 1..Len(h) |-> SectionOf(h, Len(h) + 1 - i)],
              objects  |-> ObjectsOf(h),
              size     |-> BigSize]

\* the reference answer in terms of physical identities
RefPhys(h, n, g) ==
  LET r == RefLookup(h, n, g)
  IN IF r = 0 THEN Null
     ELSE IF Compressed(h[r].ops[n]) THEN [kind |-> "mem", stm |-> StmNum(r), idx |-> IdxOf(h, r, n)]
     ELSE [kind |-> "obj", off |-> Off(n, r)]

---------------------------------------------------------------------------
(* Encryption (7.6.2, 7.6.3): which key protects what.                       *)
(* With the standard security handler of revision 2-4 (RC4, AESV2) the key   *)
(* of the strings and of the stream data of an indirect object is a function *)
(* of the file key, the object number and the *generation number* of that    *)
(* object (Algorithm 1); with revision 6 (AESV3) the file key is used for    *)
(* every object (Algorithm 1.A).  Strings inside the members of an object    *)
(* stream are not encrypted individually: the container's data are, under    *)
(* the key of the container (generation 0).  Cross-reference streams and the *)
(* encryption dictionary are not encrypted at all (they are not among the    *)
(* model's objects; the serialiser writes them in the clear and the real     *)
(* reader is run on that).  A key is represented by what it depends on.      *)

KeyScopes == {"none", "object", "file"}     \* no encryption; R 2-4; R 6
\* the renderings of the harness and their key scope
CryptNames == {"none", "rc4-40", "rc4-128", "rc4-cf", "aesv2", "aesv3"}
ScopeOf(crypt) == IF crypt = "none" THEN "none" ELSE IF crypt = "aesv3" THEN "file" ELSE "object"
Plain == <<"plain">>
ObjKey(scope, n, g) == IF scope = "none" THEN Plain
                       ELSE IF scope = "file" THEN <<"file">>
                       ELSE <<"obj", n, g>>

\* the key under which the writer stored the strings / data of a physical
\* object (o is an element of file.objects): that of its own header
WrittenKey(scope, o) == ObjKey(scope, o.n, o.g)

\* Reference: a value is readable iff the reader uses, for the object a
\* reference <<n, g>> resolves to, the key of <<n, g>>; for a compressed object
\* no key for its strings and the key of <<container, 0>> for the container
RefPhysK(h, n, g, scope) ==
  LET p == RefPhys(h, n, g)
  IN IF p = Null THEN Null
     ELSE IF p.kind = "mem" THEN p @@ [key |-> Plain, ckey |-> ObjKey(scope, p.stm, 0)]
     ELSE p @@ [key |-> ObjKey(scope, n, g)]

---------------------------------------------------------------------------
(* Implementation shape: xref.go                                            *)

\* is entry index idx the first of a subsection, and which
SubStarts(s) == LET Acc[i \in 0..Len(s.subs)] == IF i = 0 THEN 1 ELSE Acc[i-1] + s.subs[i][2]
                IN {Acc[i] : i \in 0..(Len(s.subs) - 1)}

\* decodeXRefSection over all subsections of a table: `first entry wins'
\* (numbers already present are skipped), the offByOne hack of the code
RECURSIVE DecodeTable(_, _, _, _)
DecodeTable(x, s, idx, off) ==
  IF idx > Len(s.entries) THEN x
  ELSE LET e     == s.entries[idx]
           i     == e.n
           first == idx \in SubStarts(s)
           off0  == IF first THEN 0 ELSE off
       IN IF i \in DOMAIN x
          THEN DecodeTable(x, s, idx + 1, off0)
          ELSE LET off1 == IF OFFBYONE /\ first /\ i = 1 /\ e.t = "f" /\ e.next = 0 /\ e.g = MaxGen
                           THEN 1 ELSE off0
                   key  == i - off1
               IN DecodeTable([k \in DOMAIN x \cup {key} |-> IF k = key THEN e ELSE x[k]], s, idx + 1, off1)

\* decodeXRefStream: entries in /Index order, first entry wins
RECURSIVE DecodeStream(_, _, _)
DecodeStream(x, ents, idx) ==
  IF idx > Len(ents) THEN x
  ELSE LET e == ents[idx]
       IN IF e.n \in DOMAIN x
          THEN DecodeStream(x, ents, idx + 1)
          ELSE DecodeStream([k \in DOMAIN x \cup {e.n} |-> IF k = e.n THEN e ELSE x[k]], ents, idx + 1)

Error == [kind |-> "error"]

\* reader.go Reader.get / getFromObjStm on the xref map x
ImplGet(file, x, n, g) ==
  IF n \notin DOMAIN x \/ x[n].t = "f" THEN Null
  ELSE LET e == x[n]
       IN IF e.t = "c"
          THEN IF g # 0 THEN Null        \* compressed entries have Generation 0
               ELSE \* resolve the container through the same map, then look
                    \* the object *number* up in the stream's index
                    LET c == IF e.stm \in DOMAIN x THEN x[e.stm] ELSE NoEntry
                        o == IF c.t = "n" /\ c.g = 0 THEN ObjectAt(file, c.off) ELSE Null
                    IN IF o = Null \/ ~Has(o, "objstm") \/ o.n # e.stm THEN Error
                       ELSE LET hits == {j \in 1..Len(o.objstm.members) : o.objstm.members[j].n = n}
                            IN IF hits = {} THEN Error
                               ELSE [kind |-> "mem", stm |-> e.stm, idx |-> (CHOOSE j \in hits : \A j2 \in hits : j <= j2) - 1]
          ELSE IF e.g # g THEN Null
               ELSE LET o == ObjectAt(file, e.off)
                    IN IF o = Null THEN Error
                       ELSE IF o.n # n \/ o.g # g THEN Error    \* "xref corrupted"
                       ELSE [kind |-> "obj", off |-> e.off]

\* the keys the reader uses: scanner.go ReadIndirectObject takes the object
\* number and generation from the `N G obj' header it finds at the offset
\* (s.encRef = ref); reader.go getObjStm switches decryption off for the
\* members of an encrypted container (enc = nil)
ImplGetK(file, x, n, g, scope) ==
  LET p == ImplGet(file, x, n, g)
  IN IF p = Null \/ p = Error THEN p
     ELSE IF p.kind = "mem"
       THEN p @@ [key  |-> IF DECRYPTMEMBERS THEN ObjKey(scope, n, 0) ELSE Plain,
                  ckey |-> ObjKey(scope, p.stm, 0)]
       ELSE LET o == ObjectAt(file, p.off)
            IN p @@ [key |-> ObjKey(scope, o.n, IF KEYGEN0 THEN 0 ELSE o.g)]

---------------------------------------------------------------------------
(* Stream extent (7.3.8): scanner.go ReadStreamData, byte level.             *)
(* D is the file from the first data byte on; blen the true number of data   *)
(* bytes (they are followed by an end-of-line marker and `endstream');       *)
(* declared is the resolved /Length, -1 if missing, negative or unresolvable.*)
(* How the length is given: lk = "int" (an integer, direct or indirect),     *)
(* "null" (a reference that resolves to the null object: missing or free     *)
(* object), "none" (no /Length, or a reference to something else).           *)

KW == <<101, 110, 100, 115, 116, 114, 101, 97, 109>>   \* "endstream"
IsWS(b)  == b \in {0, 9, 10, 12, 13, 32}
IsEOL(b) == b \in {10, 13}
KeywordAt(D, i) == i >= 1 /\ i + 8 <= Len(D) /\ SubSeq(D, i, i + 8) = KW

\* first index >= i that is not white space (Len(D)+1 if none)
SkipWS(D, i) == LET cand == {j \in i..Len(D) : ~IsWS(D[j])}
                IN IF cand = {} THEN Len(D) + 1 ELSE CHOOSE j \in cand : \A k \in cand : j <= k

\* the true extent: a valid /Length rules (7.3.8.2); the end-of-line marker
\* before endstream is only recommended (7.3.8.1) and may be missing when the
\* length is right.  Where the length is missing or wrong, the data are
\* delimited by the end-of-line marker that precedes the endstream keyword.
RefExtent(D, blen) == blen
EolLen(D, blen)   == IF blen + 2 <= Len(D) /\ D[blen + 1] = 13 /\ D[blen + 2] = 10 THEN 2
                     ELSE IF blen + 1 <= Len(D) /\ IsEOL(D[blen + 1]) THEN 1 ELSE 0
TermPos(D, blen)  == blen + EolLen(D, blen) + 1
WellDelimited(D, blen) == KeywordAt(D, TermPos(D, blen))

\* the bodies and wrong lengths the property quantifies over
BodyAdmissible(D, blen) ==
  /\ blen = 0 \/ ~IsEOL(D[blen])
  /\ ~\E i \in 1..blen : IsEOL(D[i]) /\ i + 9 <= blen /\ KeywordAt(D, i + 1)
JustBeforeAnother(D, blen, declared) ==
  LET j == SkipWS(D, declared + 1) IN KeywordAt(D, j) /\ j # TermPos(D, blen)
\* a length that ends inside the end-of-line marker makes the declared data
\* end in CR/LF: the same ambiguity as a body that ends in CR/LF
DeclaredEndsInEOL(D, blen, declared) == declared > blen /\ declared <= blen + EolLen(D, blen)
WrongAdmissible(D, blen, declared) ==
  (declared >= 0 /\ declared # blen) =>
     /\ ~JustBeforeAnother(D, blen, declared)
     /\ ~DeclaredEndsInEOL(D, blen, declared)
Admissible(D, blen, declared) ==
  /\ WellDelimited(D, blen) /\ BodyAdmissible(D, blen) /\ WrongAdmissible(D, blen, declared)
  \* without the end-of-line marker only a right length delimits the data
  /\ EolLen(D, blen) = 0 => declared = blen

\* what the standard makes of the declaration: only a non-negative integer
\* is a length (7.3.8.2; a null entry is an absent entry, 7.3.7)
RefDeclared(lk, v) == IF lk = "int" /\ v >= 0 THEN v ELSE -1
\* what the code makes of it (reader.go safeGetInteger, scanner.go
\* ReadStreamData): negative, non-integer and null lengths are unknown
ImplDeclared(lk, v) == IF lk = "int" THEN (IF v > 0 \/ (v = 0 /\ ~ZEROLENUNKNOWN) THEN v ELSE -1)
                       ELSE IF lk = "null" /\ NULLZERO THEN 0 ELSE -1

\* scanner.go: endstreamAt, Find(endstreamPat), trimTrailingEOL
EndstreamAt(D, pos) == LET j == SkipWS(D, pos + 1) IN KeywordAt(D, j)
FindEOLKw(D) == LET cand == {i \in 1..Len(D) : IsEOL(D[i]) /\ KeywordAt(D, i + 1)}
                IN IF cand = {} THEN 0 ELSE CHOOSE i \in cand : \A k \in cand : i <= k
\* trimTrailingEOL: the pattern matched one end-of-line byte; if that byte is
\* the LF of a CR LF marker, the CR is not data either
Trim(D, l) == IF l >= 1 /\ l + 1 <= Len(D) /\ D[l] = 13 /\ D[l + 1] = 10 THEN l - 1 ELSE l
ImplExtent(D, declared) ==
  IF declared >= 0 /\ declared <= Len(D) /\ EndstreamAt(D, declared) THEN declared
  ELSE LET p == FindEOLKw(D) IN IF p = 0 THEN -1 ELSE Trim(D, p - 1)

\* the class in which the code departs from the property as stated: a short
\* length whose remainder of the body is white space is trusted (endstreamAt
\* skips white space), so the trailing white space of the data is dropped
ShortIntoTrailingWS(D, blen, declared) ==
  declared >= 0 /\ declared < blen /\ SkipWS(D, declared + 1) = TermPos(D, blen)
=============================================================================
