INIT Init
NEXT Next
CONSTANTS OFFBYONE = FALSE
  NULLZERO = FALSE
  KEYGEN0 = FALSE
  DECRYPTMEMBERS = FALSE
  TRAILERMERGE = FALSE
  ZEROLENUNKNOWN = FALSE
  Objs = {1, 2, 3}
  MaxRevs = 2
  MaxPieces = 3
  Shard = 0
  Shards = 1
