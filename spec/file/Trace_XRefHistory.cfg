SPECIFICATION Spec
CONSTANTS OFFBYONE = FALSE
  NULLZERO = FALSE
  KEYGEN0 = FALSE
  DECRYPTMEMBERS = FALSE
  TRAILERMERGE = FALSE
  ZEROLENUNKNOWN = FALSE
CHECK_DEADLOCK FALSE
