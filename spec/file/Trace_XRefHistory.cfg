SPECIFICATION Spec
CONSTANTS OFFBYONE = FALSE
CHECK_DEADLOCK FALSE
