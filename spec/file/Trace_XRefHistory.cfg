SPECIFICATION Spec
CONSTANTS OFFBYONE = FALSE
  NULLZERO = FALSE
CHECK_DEADLOCK FALSE
