\* negative control: length recovery as at the pinned commit (trimTrailingEOL after the regexp has consumed the EOL marker);
\* must FAIL PropertyHolds: a complete stream whose indirect /Length object is cut off reads back one EOL short
SPECIFICATION Spec
CONSTANTS Kinds <- SomeKinds
  MaxObjs = 3
  Tails <- BothTails
  Damages <- AllDamages
  EOF_IS_BROKEN = TRUE
  TRIM_TWICE = TRUE
  USED_HOISTED = FALSE
  SHARED_SEEN = FALSE
INVARIANTS TypeOK PropertyHolds
CHECK_DEADLOCK FALSE
