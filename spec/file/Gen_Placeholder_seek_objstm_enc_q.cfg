SPECIFICATION GenSpec
CONSTANTS SEEKABLE = TRUE
  OBJSTM = TRUE
  ENCRYPTED = TRUE
  MaxOps = 5
  Impl = "fixed"
CHECK_DEADLOCK FALSE
