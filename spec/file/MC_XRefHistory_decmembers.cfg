\* negative control: a reader that decrypts the strings of object-stream members must violate LookupOK
SPECIFICATION Spec
CONSTANTS OFFBYONE = FALSE
  NULLZERO = FALSE
  KEYGEN0 = FALSE
  DECRYPTMEMBERS = TRUE
  TRAILERMERGE = FALSE
  ZEROLENUNKNOWN = FALSE
  Objs = {1, 2, 3}
  MaxRevs = 2
  Styles = {"one", "each", "runs"}
  ZeroFree = TRUE
  MaxPieces = 4
  STRICT_LENGTH = FALSE
CONSTRAINT PiecesBound
INVARIANTS LookupOK KeyOK TrailerOK FileOK ExtentOK CorrectOK DivergenceIs
CHECK_DEADLOCK FALSE
