\* negative control: a reader that lets every section on the /Prev chain contribute trailer keys must violate TrailerOK
SPECIFICATION Spec
CONSTANTS OFFBYONE = FALSE
  NULLZERO = FALSE
  KEYGEN0 = FALSE
  DECRYPTMEMBERS = FALSE
  TRAILERMERGE = TRUE
  ZEROLENUNKNOWN = FALSE
  Objs = {1, 2, 3}
  MaxRevs = 2
  Styles = {"one", "each", "runs"}
  ZeroFree = TRUE
  MaxPieces = 4
  STRICT_LENGTH = FALSE
CONSTRAINT PiecesBound
INVARIANTS LookupOK KeyOK TrailerOK FileOK ExtentOK CorrectOK DivergenceIs
CHECK_DEADLOCK FALSE
