SPECIFICATION GenSpec
CONSTANTS SEEKABLE = FALSE
  OBJSTM = FALSE
  ENCRYPTED = TRUE
  MaxOps = 5
  Impl = "fixed"
CHECK_DEADLOCK FALSE
