SPECIFICATION Spec
CONSTANTS MaxNum = 3
  Vals = {"a"}
  OBJSTM = TRUE
  SEEKABLE = FALSE
  MaxOps = 4
  Threshold = 2
  MaxMembers <- SmallMembers
INVARIANTS RoundTrip UnwrittenNull OffsetsExact NoOverlap SizeCovers DeferredAfterStream ObjStmConsistent TrailerOK
CHECK_DEADLOCK FALSE
