---------------------------- MODULE MC_SeqScan ----------------------------
(* Bounded exhaustive model of SeqScan: every file of 1..MaxObjs objects   *)
(* of the given kinds with either tail, every crash point 0..FileLen and   *)
(* every single cross-reference damage.  File, crash point and damage are  *)
(* chosen by actions, so TLC's workers share the enumeration.              *)
EXTENDS SeqScan
AllKinds == {"int", "real", "name", "kw", "str", "hex", "ref", "arr", "dict", "stream", "istream", "mstreamT", "mstreamE"}
SomeKinds == {"int", "dict", "istream"}
MostKinds == {"int", "str", "ref", "dict", "stream", "istream", "mstreamT", "mstreamE"}
MarkerKinds == {"int", "dict", "mstreamT", "mstreamE"}
LengthKinds == {"int", "istream", "aistream"}
TableOnly == {"table"}
BothTails == {"table", "xrefstm"}
AllDamages == {"xrefbody", "xrefdata", "startxref"}
=============================================================================
