SPECIFICATION Spec
CONSTANTS SEEKABLE = FALSE
  OBJSTM = TRUE
  ENCRYPTED = FALSE
  MaxOps = 6
  Impl = "asfound"
INVARIANTS RoundTrip NoCorruption WrittenOnce NothingPending
CHECK_DEADLOCK FALSE
