\* streams with indirect /Length, also with a line "endstream" inside the body (1..4 objects): the end of a body is where a resolvable /Length says
SPECIFICATION Spec
CONSTANTS Kinds <- LengthKinds
  MaxObjs = 4
  Tails <- TableOnly
  Damages <- AllDamages
  EOF_IS_BROKEN = TRUE
  TRIM_TWICE = FALSE
  USED_HOISTED = FALSE
  SHARED_SEEN = FALSE
INVARIANTS TypeOK PropertyHolds StepsAgree DamageHarmless
CHECK_DEADLOCK FALSE
