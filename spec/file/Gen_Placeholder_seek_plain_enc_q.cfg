SPECIFICATION GenSpec
CONSTANTS SEEKABLE = TRUE
  OBJSTM = FALSE
  ENCRYPTED = TRUE
  MaxOps = 5
  Impl = "fixed"
CHECK_DEADLOCK FALSE
