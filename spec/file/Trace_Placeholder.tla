-------------------------- MODULE Trace_Placeholder --------------------------
(* Judges what the real pdf.Writer and pdf.Placeholder did.  It uses no      *)
(* Impl-shaped operator: the expectation follows from the calls alone.       *)
(* One record per executed program:                                          *)
(*   hist   the calls [op, p, c, v, res] with the outcome observed           *)
(*          ("ok" | "err" | "panic")                                         *)
(*   fileok the closed file was opened by the independent strict parser      *)
(*          (and decrypted by the independent security handler), and every   *)
(*          object the program wrote was found where the cross-reference     *)
(*          data says                                                        *)
(*   reads  for every place a placeholder was written: [call, p, got] with   *)
(*          got = "int" | "str" (the value as set, strings decrypted with    *)
(*          the key of the object they are part of, references followed),   *)
(*          or what was found instead                                        *)
(* "clause" selects one clause ("all": every clause).                        *)
EXTENDS TraceLib

Cases == Records

\* the value placeholder p is set to: the first Set call decides
SetCalls(h, p) == SelectSeq(h, LAMBDA e : e.op = "set" /\ e.p = p)
RefValue(h, p) == IF SetCalls(h, p) = <<>> THEN "" ELSE SetCalls(h, p)[1].v
\* a call is refused iff it is a Set of a placeholder that has been set
RefOutcome(h, i) ==
  IF h[i].op = "set" /\ \E k \in 1..(i - 1) : h[k].op = "set" /\ h[k].p = h[i].p THEN "err" ELSE "ok"
Writes(h) == {i \in 1..Len(h) : h[i].op \in {"put", "wc", "open"}}
AllSet(h) == \A i \in Writes(h) : RefValue(h, h[i].p) # ""
Finished(h) == h # <<>> /\ h[Len(h)].op = "close"

ClauseOK(c, name) ==
  CASE name = "outcomes" -> \A i \in 1..Len(c.hist) : c.hist[i].res = RefOutcome(c.hist, i)
    [] name = "intact"   -> (Finished(c.hist) /\ AllSet(c.hist)) => c.fileok
    [] name = "reads"    -> (Finished(c.hist) /\ AllSet(c.hist) /\ c.fileok) =>
                               /\ \A i \in Writes(c.hist) : \E k \in 1..Len(c.reads) : c.reads[k].call = i
                               /\ \A k \in 1..Len(c.reads) : c.reads[k].got = RefValue(c.hist, c.reads[k].p)
    [] OTHER -> TRUE
Clauses == <<"outcomes", "intact", "reads">>
CaseOK(c) == IF c.clause = "all" THEN \A j \in 1..Len(Clauses) : ClauseOK(c, Clauses[j]) ELSE ClauseOK(c, c.clause)

VARIABLES i, bad, done
vars == <<i, bad, done>>
Init == i = 1 /\ bad = <<>> /\ done = FALSE
Step == /\ i <= Len(Cases)
        /\ i' = i + 1
        /\ bad' = IF CaseOK(Cases[i]) THEN bad ELSE Append(bad, i)
        /\ UNCHANGED done
Finish == /\ i = Len(Cases) + 1 /\ ~done
          /\ done' = TRUE
          /\ WriteVerdict(bad)
          /\ UNCHANGED <<i, bad>>
Next == Step \/ Finish
Spec == Init /\ [][Next]_vars
=============================================================================
