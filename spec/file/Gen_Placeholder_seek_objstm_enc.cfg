SPECIFICATION GenSpec
CONSTANTS SEEKABLE = TRUE
  OBJSTM = TRUE
  ENCRYPTED = TRUE
  MaxOps = 6
  Impl = "fixed"
CHECK_DEADLOCK FALSE
