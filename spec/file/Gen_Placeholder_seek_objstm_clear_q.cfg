SPECIFICATION GenSpec
CONSTANTS SEEKABLE = TRUE
  OBJSTM = TRUE
  ENCRYPTED = FALSE
  MaxOps = 5
  Impl = "fixed"
CHECK_DEADLOCK FALSE
