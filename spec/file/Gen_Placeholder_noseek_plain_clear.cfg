SPECIFICATION GenSpec
CONSTANTS SEEKABLE = FALSE
  OBJSTM = FALSE
  ENCRYPTED = FALSE
  MaxOps = 6
  Impl = "fixed"
CHECK_DEADLOCK FALSE
