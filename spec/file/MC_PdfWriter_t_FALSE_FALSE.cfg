SPECIFICATION Spec
CONSTANTS MaxNum = 3
  Vals = {"a"}
  OBJSTM = FALSE
  SEEKABLE = FALSE
  MaxOps = 5
  Threshold = 2
  MaxMembers <- SmallMembers
INVARIANTS RoundTrip UnwrittenNull OffsetsExact NoOverlap SizeCovers DeferredAfterStream ObjStmConsistent TrailerOK
CHECK_DEADLOCK FALSE
