\* thorough: 1..3 objects of all 11 kinds
SPECIFICATION Spec
CONSTANTS Kinds <- AllKinds
  MaxObjs = 3
  Tails <- BothTails
  Damages <- AllDamages
  EOF_IS_BROKEN = TRUE
  TRIM_TWICE = FALSE
INVARIANTS TypeOK PropertyHolds StepsAgree DamageHarmless
CHECK_DEADLOCK FALSE
