\* thorough: 1..3 objects of 8 kinds (real, name, hex, kw, arr are covered with 1..2 objects by the quick configuration)
SPECIFICATION Spec
CONSTANTS Kinds <- MostKinds
  MaxObjs = 3
  Tails <- BothTails
  Damages <- AllDamages
  EOF_IS_BROKEN = TRUE
  TRIM_TWICE = FALSE
  USED_HOISTED = FALSE
  SHARED_SEEN = FALSE
INVARIANTS TypeOK PropertyHolds StepsAgree DamageHarmless
CHECK_DEADLOCK FALSE
