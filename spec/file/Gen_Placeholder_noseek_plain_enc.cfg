SPECIFICATION GenSpec
CONSTANTS SEEKABLE = FALSE
  OBJSTM = FALSE
  ENCRYPTED = TRUE
  MaxOps = 6
  Impl = "fixed"
CHECK_DEADLOCK FALSE
