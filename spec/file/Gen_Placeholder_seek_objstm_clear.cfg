SPECIFICATION GenSpec
CONSTANTS SEEKABLE = TRUE
  OBJSTM = TRUE
  ENCRYPTED = FALSE
  MaxOps = 6
  Impl = "fixed"
CHECK_DEADLOCK FALSE
