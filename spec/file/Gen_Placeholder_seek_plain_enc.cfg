SPECIFICATION GenSpec
CONSTANTS SEEKABLE = TRUE
  OBJSTM = FALSE
  ENCRYPTED = TRUE
  MaxOps = 6
  Impl = "fixed"
CHECK_DEADLOCK FALSE
