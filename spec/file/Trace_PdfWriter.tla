--------------------------- MODULE Trace_PdfWriter ---------------------------
(* Validates runs of the real pdf.Writer / pdf.Reader against PdfWriter.tla. *)
(* A record is one program: the calls made (action name and arguments) with  *)
(* what the real code did (error or not, arguments left untouched) and, if   *)
(* the file was closed, what the real Reader returned for every reference.   *)
(* Each call must be the named action of the specification with the same     *)
(* error outcome; positions, cross-reference entries and object numbers are  *)
(* not logged and are inferred by the specification; at the end every read   *)
(* must equal the specification's Lookup in the abstract file it derived.    *)
EXTENDS PdfWriter, TraceLib

Traces == Records

VARIABLES t, l, bad, fin
tvars == <<vars, t, l, bad, fin>>

Ev == Traces[t].ops[l]
Named(e) ==
  CASE e.op = "Alloc" -> Alloc
    [] e.op = "AllocN" -> AllocN(e.k)
    [] e.op = "Put" -> Put(e.n, e.g, e.v)
    [] e.op = "PutStm" -> PutStm(e.n, e.g, e.v)
    [] e.op = "PutBad" -> PutBad(e.n)
    [] e.op = "OpenStream" -> OpenStream(e.n, e.g, e.v, e.lg)
    [] e.op = "OpenStreamBad" -> OpenStreamBad(e.n, e.g, e.why)
    [] e.op = "OpenWhileOpen" -> OpenWhileOpen
    [] e.op = "StreamWrite" -> StreamWrite(e.k)
    [] e.op = "CloseStream" -> CloseStream
    [] e.op = "WriteCompressed" -> WriteCompressed(e.ns, e.vs)
    [] e.op = "WriteCompressedBad" -> WriteCompressedBad(e.why)
    [] e.op = "Close" -> Close
    [] e.op = "CloseBad" -> CloseBad
    [] e.op = "CloseWhileOpen" -> CloseWhileOpen
    [] OTHER -> FALSE

Match == /\ t <= Len(Traces) /\ l <= Len(Traces[t].ops)
         /\ Named(Ev)
         /\ (lastErr' # "") = Ev.err       \* same outcome class as the real call
         /\ Ev.argsok                      \* writing never modifies the caller's objects
         /\ l' = l + 1 /\ UNCHANGED <<t, bad, fin>>

\* what the real Reader returned for <<n, g>> against the abstract file
ReadOK(r) ==
  LET want == Lookup(r.n, r.g)
  IN IF r.n = trailer.xnum /\ trailer.xnum # 0 THEN r.v \in {"null", "xref"}
     ELSE r.v = want
FinalOK ==
  LET tr == Traces[t]
  IN /\ tr.closed = (mode = "closed")
     /\ tr.closed => /\ tr.openerr = ""
                     /\ tr.metaok
                     /\ \A i \in 1..Len(tr.reads) : ReadOK(tr.reads[i])

Reset == /\ mode' = "idle"
         /\ xref' = [n \in Num |-> IF n = 0 THEN [k |-> "free", gen |-> 65535] ELSE NONE]
         /\ nextRef' = 1 /\ deferred' = <<>> /\ pos' = 1 /\ emitted' = <<>>
         /\ cur' = NONE /\ written' = {} /\ nops' = 0 /\ lastErr' = "" /\ trailer' = NONE
AtEnd == t <= Len(Traces) /\ l = Len(Traces[t].ops) + 1
Accept == AtEnd /\ FinalOK /\ Reset /\ t' = t + 1 /\ l' = 1 /\ UNCHANGED <<bad, fin>>
RejectEnd == AtEnd /\ ~FinalOK /\ Reset /\ t' = t + 1 /\ l' = 1 /\ bad' = Append(bad, t) /\ UNCHANGED fin
Reject == /\ t <= Len(Traces) /\ l <= Len(Traces[t].ops) /\ ~ENABLED Match
          /\ Reset /\ t' = t + 1 /\ l' = 1 /\ bad' = Append(bad, t) /\ UNCHANGED fin
TFinish == /\ t = Len(Traces) + 1 /\ ~fin /\ fin' = TRUE /\ WriteVerdict(bad)
           /\ UNCHANGED <<vars, t, l, bad>>

TInit == Init /\ t = 1 /\ l = 1 /\ bad = <<>> /\ fin = FALSE
TNext == Match \/ Accept \/ RejectEnd \/ Reject \/ TFinish
TSpec == TInit /\ [][TNext]_tvars
=============================================================================
