SPECIFICATION Spec
CONSTANTS SEEKABLE = TRUE
  OBJSTM = TRUE
  ENCRYPTED = TRUE
  MaxOps = 6
  Impl = "asfound"
INVARIANTS RoundTrip NoCorruption WrittenOnce NothingPending
CHECK_DEADLOCK FALSE
