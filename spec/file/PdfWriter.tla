----------------------------- MODULE PdfWriter -----------------------------
(***************************************************************************)
(* Bookkeeping of pdf.Writer (writer.go, xref.go, types.go:Placeholder):    *)
(* cross-reference entries, object numbers, physical positions, the queue   *)
(* of objects Put while a stream is open, the three ways a stream's /Length *)
(* gets its value, object streams, and Close.  One action per entry point   *)
(* of the Writer; error returns are actions too.                            *)
(*                                                                         *)
(* "What is recorded" (xref) and "what is written" (emitted, with physical  *)
(* positions) are separate variables: the properties relate them.           *)
(* Sizes are abstract units; one unit of stream data = 512 bytes, so that   *)
(* Threshold = 2 is the 1024-byte buffering limit of streamWriter.          *)
(***************************************************************************)
EXTENDS Naturals, Sequences, FiniteSets, TLC

CONSTANTS MaxNum,      \* object numbers 1..MaxNum may be named by the program
          Vals,        \* value ids the program writes
          OBJSTM,      \* version >= 1.5 and not HumanReadable: object streams + xref stream
          SEEKABLE,    \* the sink is an io.WriteSeeker
          MaxOps,      \* program length
          Threshold    \* buffering limit of streamWriter in units

Num == 0..(MaxNum + MaxOps + 4)
NONE == [k |-> "none"]
AtPos(p, g) == [k |-> "at", pos |-> p, gen |-> g]
InStm(s, i) == [k |-> "stm", stm |-> s, idx |-> i]
HDR == 1      \* size of the "N G obj" ... "endobj" framing
\* most objects in one object stream (reader.go maxObjStmObjects); the design
\* configurations replace it by SmallMembers so that the splitting is explored
MaxMembers == 10000
SmallMembers == 2
SizeOf(v) == 1
Max(a, b) == IF a > b THEN a ELSE b

VARIABLES mode,      \* "idle" | "stream" | "closed" | "failed"
          xref,      \* Num -> NONE | free | at(pos, gen) | stm(container, idx)
          nextRef,
          deferred,  \* objects Put while a stream is open
          pos,       \* next physical position
          emitted,   \* physical objects in file order
          cur,       \* the open stream
          written,   \* {<<num, gen, value id>>} the program has written successfully
          nops,
          lastErr,   \* "" or the error class the last call returned
          trailer
vars == <<mode, xref, nextRef, deferred, pos, emitted, cur, written, nops, lastErr, trailer>>

Init == /\ mode = "idle"
        /\ xref = [n \in Num |-> IF n = 0 THEN [k |-> "free", gen |-> 65535] ELSE NONE]
        /\ nextRef = 1 /\ deferred = <<>> /\ pos = 1 /\ emitted = <<>>
        /\ cur = NONE /\ written = {} /\ nops = 0 /\ lastErr = "" /\ trailer = NONE

-----------------------------------------------------------------------------
(* one physical object: setXRef (duplicate check, nextRef bump) + bytes.     *)
(* kind "plain": an ordinary value; kind "stream": a *Stream value handed to *)
(* Put, which Put writes through OpenStream / Close (its body is short, so    *)
(* the length is direct and nothing else is allocated).                       *)
DoPutK(st, n, g, v, kind) ==
  IF st.err # "" THEN st
  ELSE IF st.xref[n] # NONE THEN [st EXCEPT !.err = "duplicate"]
  ELSE [st EXCEPT !.xref[n] = AtPos(st.pos, g),
                  !.nextRef = Max(st.nextRef, n + 1),
                  !.emitted = Append(st.emitted, [pos |-> st.pos, num |-> n, gen |-> g, kind |-> kind,
                                                  val |-> v, members |-> <<>>, len |-> 0, lenRef |-> 0]),
                  !.pos = st.pos + HDR + (IF kind = "stream" THEN HDR ELSE SizeOf(v)),
                  !.written = st.written \cup {<<n, g, v>>}]
DoPut(st, n, g, v) == DoPutK(st, n, g, v, "plain")
\* a queue of <<num, gen, value id, kind>>, written in order (each exactly once)
RECURSIVE PutAll(_, _)
PutAll(st, q) == IF q = <<>> THEN st ELSE PutAll(DoPutK(st, Head(q)[1], Head(q)[2], Head(q)[3], Head(q)[4]), Tail(q))
St == [xref |-> xref, nextRef |-> nextRef, pos |-> pos, emitted |-> emitted, written |-> written, err |-> ""]
Commit(st) == /\ xref' = st.xref /\ nextRef' = st.nextRef /\ pos' = st.pos /\ emitted' = st.emitted
              /\ written' = st.written /\ lastErr' = st.err

Usable == mode \in {"idle", "stream"}
Step == nops < MaxOps /\ nops' = nops + 1

Alloc == /\ Usable /\ Step /\ nextRef <= MaxNum
         /\ nextRef' = nextRef + 1 /\ lastErr' = ""
         /\ UNCHANGED <<mode, xref, deferred, pos, emitted, cur, written, trailer>>

\* n calls of Alloc in a row (references allocated but possibly never written)
AllocN(n) == /\ Usable /\ Step /\ nextRef + n <= MaxNum + 1
             /\ nextRef' = nextRef + n /\ lastErr' = ""
             /\ UNCHANGED <<mode, xref, deferred, pos, emitted, cur, written, trailer>>

\* Put: written at once, or queued while a stream is open
Put(n, g, v) ==
  /\ Usable /\ Step
  /\ IF mode = "stream"
     THEN /\ deferred' = Append(deferred, <<n, g, v, "plain">>) /\ lastErr' = ""
          /\ UNCHANGED <<mode, xref, nextRef, pos, emitted, cur, written, trailer>>
     ELSE /\ Commit(DoPut(St, n, g, v)) /\ UNCHANGED <<mode, deferred, cur, trailer>>

\* Put of a *Stream value (short body): written at once through OpenStream and
\* Close, or queued while a stream is open like any other object; the queue is
\* replayed exactly once when the open stream is closed
PutStm(n, g, v) ==
  /\ Usable /\ Step
  /\ IF mode = "stream"
     THEN /\ deferred' = Append(deferred, <<n, g, v, "stream">>) /\ lastErr' = ""
          /\ UNCHANGED <<mode, xref, nextRef, pos, emitted, cur, written, trailer>>
     ELSE /\ Commit(DoPutK(St, n, g, v, "stream")) /\ UNCHANGED <<mode, deferred, cur, trailer>>

\* OpenStream: the xref entry is set now, at the current position; lg says
\* whether the caller supplied /Length ("none" | "right" | "wrong")
OpenStream(n, g, v, lg) ==
  /\ mode = "idle" /\ Step
  /\ IF xref[n] # NONE
     THEN /\ lastErr' = "duplicate"
          /\ UNCHANGED <<mode, xref, nextRef, deferred, pos, emitted, cur, written, trailer>>
     ELSE /\ xref' = [xref EXCEPT ![n] = AtPos(pos, g)]
          /\ nextRef' = Max(nextRef, n + 1)
          /\ mode' = "stream"
          /\ cur' = [num |-> n, gen |-> g, val |-> v, lg |-> lg, started |-> FALSE, buf |-> 0,
                     lenRef |-> 0, hdrPos |-> 0]
          /\ lastErr' = "" /\ UNCHANGED <<deferred, pos, emitted, written, trailer>>
\* OpenStream refused for its arguments (a non-integer /Length, a filter the
\* file's version does not have): nothing is recorded, the number stays free
OpenStreamBad(n, g, why) ==
  /\ mode = "idle" /\ Step /\ lastErr' = why
  /\ UNCHANGED <<mode, xref, nextRef, deferred, pos, emitted, cur, written, trailer>>
\* Put refused for its value (a stream among the elements of an array or the
\* entries of a dictionary cannot be written as a direct object): nothing is
\* recorded or written, also while a stream is open (the call is not queued)
PutBad(n) ==
  /\ Usable /\ Step /\ lastErr' = "badValue"
  /\ UNCHANGED <<mode, xref, nextRef, deferred, pos, emitted, cur, written, trailer>>
OpenWhileOpen == /\ mode = "stream" /\ Step /\ lastErr' = "inStream"
                 /\ UNCHANGED <<mode, xref, nextRef, deferred, pos, emitted, cur, written, trailer>>

\* streamWriter.Write: buffered below the threshold; crossing it writes the
\* header, the dictionary (with the /Length placeholder: reserved space on a
\* seekable sink, otherwise an indirect reference allocated now) and the data
StreamWrite(k) ==
  /\ mode = "stream" /\ Step /\ lastErr' = ""
  /\ IF ~cur.started /\ cur.buf + k < Threshold
     THEN cur' = [cur EXCEPT !.buf = @ + k] /\ UNCHANGED <<pos, nextRef>>
     ELSE IF ~cur.started
          THEN LET indirect == ~SEEKABLE /\ cur.lg = "none"
               IN /\ cur' = [cur EXCEPT !.started = TRUE, !.hdrPos = pos, !.buf = cur.buf + k,
                                        !.lenRef = IF indirect THEN nextRef ELSE 0]
                  /\ pos' = pos + HDR + cur.buf + k
                  /\ nextRef' = IF indirect THEN nextRef + 1 ELSE nextRef
          ELSE cur' = [cur EXCEPT !.buf = @ + k] /\ pos' = pos + k /\ UNCHANGED nextRef
  /\ UNCHANGED <<mode, xref, deferred, emitted, written, trailer>>

\* streamWriter.Close: /Length becomes known; a short stream is written now
\* with a direct length; the indirect length object and the queued objects follow
CloseStream ==
  /\ mode = "stream" /\ Step
  /\ IF cur.lg = "wrong"
     THEN /\ lastErr' = "lengthMismatch" /\ mode' = "failed"
          /\ UNCHANGED <<xref, nextRef, deferred, pos, emitted, cur, written, trailer>>
     ELSE
      LET objPos == IF cur.started THEN cur.hdrPos ELSE pos
          body == cur.buf
          endPos == IF cur.started THEN pos + HDR ELSE pos + HDR + body + HDR
          rec == [pos |-> objPos, num |-> cur.num, gen |-> cur.gen, kind |-> "stream", val |-> cur.val,
                  members |-> <<>>, len |-> body, lenRef |-> cur.lenRef]
          q == IF cur.lenRef # 0 THEN <<<<cur.lenRef, 0, "len", "plain">>>> \o deferred ELSE deferred
          st0 == [St EXCEPT !.emitted = Append(emitted, rec), !.pos = endPos,
                            !.written = written \cup {<<cur.num, cur.gen, cur.val>>}]
          st1 == PutAll(st0, q)
      IN /\ Commit(st1)
         /\ mode' = IF st1.err = "" THEN "idle" ELSE "failed"
         /\ cur' = NONE /\ deferred' = <<>> /\ UNCHANGED trailer

\* WriteCompressed: N Puts without object streams; otherwise the list is cut
\* into pieces of at most MaxMembers objects (the Reader accepts no more in one
\* object stream) and every piece becomes one object stream: a container is
\* allocated, every member gets a compressed entry, the container is a stream.
\* An empty list writes nothing.
Consecutive(ns) == \A i \in 1..Len(ns) : ns[i] = ns[1] + i - 1
WCOne(st, ns, vs) ==      \* writeObjStm
  IF st.err # "" THEN st ELSE
  LET s == st.nextRef
      nset == {ns[i] : i \in 1..Len(ns)}
      dup == Cardinality(nset) # Len(ns) \/ s \in nset \/ \E n \in nset : st.xref[n] # NONE
      cons == Consecutive(ns)      \* (only a faster way to the same index and maximum)
      IdxOf(n) == IF cons THEN n - ns[1] + 1 ELSE CHOOSE i \in 1..Len(ns) : ns[i] = n
      top == IF cons THEN ns[Len(ns)] ELSE CHOOSE m \in nset : \A k \in nset : k <= m
  IN IF dup THEN [st EXCEPT !.err = "duplicate", !.nextRef = s + 1]
     ELSE [st EXCEPT !.xref = [n \in Num |-> IF n = s THEN AtPos(st.pos, 0)
                                             ELSE IF n \in nset THEN InStm(s, IdxOf(n) - 1) ELSE st.xref[n]],
                     !.nextRef = Max(s + 1, top + 1),
                     !.emitted = Append(st.emitted, [pos |-> st.pos, num |-> s, gen |-> 0, kind |-> "objstm", val |-> "objstm",
                                                     members |-> [i \in 1..Len(ns) |-> <<ns[i], vs[i]>>], len |-> Len(ns), lenRef |-> 0]),
                     !.pos = st.pos + HDR + Len(ns) + HDR,
                     !.written = st.written \cup {<<ns[i], 0, vs[i]>> : i \in 1..Len(ns)}]
RECURSIVE WCAll(_, _, _)
WCAll(st, ns, vs) ==
  IF Len(ns) <= MaxMembers THEN WCOne(st, ns, vs)
  ELSE WCAll(WCOne(st, SubSeq(ns, 1, MaxMembers), SubSeq(vs, 1, MaxMembers)),
             SubSeq(ns, MaxMembers + 1, Len(ns)), SubSeq(vs, MaxMembers + 1, Len(vs)))
\* A list that names a number twice, or a number that is in use, is refused
\* before anything is recorded: the call changes nothing (as for the argument
\* errors below).  Otherwise the allocation counter is first moved past the
\* largest number of the list, so that the containers get numbers of their own.
WriteCompressed(ns, vs) ==
  /\ mode = "idle" /\ Step
  /\ IF Len(ns) = 0
     THEN lastErr' = "" /\ UNCHANGED <<mode, xref, nextRef, pos, emitted, written>>
     ELSE LET nset == {ns[i] : i \in 1..Len(ns)}
              refused == Cardinality(nset) # Len(ns) \/ \E n \in nset : xref[n] # NONE
              top == CHOOSE m \in nset : \A k \in nset : k <= m
              st0 == [St EXCEPT !.nextRef = Max(nextRef, top + 1)]
              st1 == IF ~OBJSTM THEN PutAll(st0, [i \in 1..Len(ns) |-> <<ns[i], 0, vs[i], "plain">>])
                     ELSE WCAll(st0, ns, vs)
          IN IF refused
             THEN lastErr' = "duplicate" /\ UNCHANGED <<mode, xref, nextRef, pos, emitted, written>>
             ELSE /\ Commit(st1) /\ mode' = IF st1.err = "" THEN "idle" ELSE "failed"
  /\ UNCHANGED <<deferred, cur, trailer>>
\* argument errors of WriteCompressed (checkCompressed) change nothing
WriteCompressedBad(why) ==
  /\ Usable /\ Step /\ lastErr' = why
  /\ UNCHANGED <<mode, xref, nextRef, deferred, pos, emitted, cur, written, trailer>>

\* Close: the harness puts the page tree root, then Writer.Close stores the
\* catalog and the Info dictionary, and writes the cross-reference data
\* (with object streams: an xref stream, whose own number is allocated last)
Close ==
  /\ mode = "idle" /\ Step
  /\ LET st1 == DoPut(St, nextRef, 0, "pages")
         st2 == DoPut(st1, st1.nextRef, 0, "catalog")
         st3 == DoPut(st2, st2.nextRef, 0, "info")
         xnum == st3.nextRef
     IN /\ Commit(st3)
        /\ trailer' = [root |-> st1.nextRef, info |-> st2.nextRef, startxref |-> st3.pos,
                       size |-> IF OBJSTM THEN xnum + 1 ELSE xnum,
                       kind |-> IF OBJSTM THEN "stream" ELSE "table", xnum |-> IF OBJSTM THEN xnum ELSE 0]
  /\ mode' = "closed" /\ UNCHANGED <<deferred, cur>>
\* Close refused because the document-level structures hold an entry the file's
\* version does not have (Info /Trapped before PDF 1.3): the file is not finished
CloseBad == /\ mode = "idle" /\ Step /\ lastErr' = "metaVersion" /\ mode' = "failed"
            /\ UNCHANGED <<xref, nextRef, deferred, pos, emitted, cur, written, trailer>>
CloseWhileOpen == /\ mode = "stream" /\ Step /\ lastErr' = "inStream"
                  /\ UNCHANGED <<mode, xref, nextRef, deferred, pos, emitted, cur, written, trailer>>

ProgNums == 1..MaxNum
WC3(a, b, c, v) == a # b /\ a # c /\ b # c /\ WriteCompressed(<<a, b, c>>, <<v, v, v>>)
WC2(a, b, v) == a # b /\ WriteCompressed(<<a, b>>, <<v, v>>)
WC1(a, v) == WriteCompressed(<<a>>, <<v>>)
WC0 == WriteCompressed(<<>>, <<>>)
Next == \/ Alloc \/ AllocN(2)
        \/ \E n \in ProgNums, g \in {0, 1}, v \in Vals : Put(n, g, v)
        \/ \E n \in ProgNums, g \in {0, 1}, v \in Vals : PutStm(n, g, v)
        \/ \E n \in ProgNums, g \in {0, 1}, v \in Vals, lg \in {"none", "right", "wrong"} : OpenStream(n, g, v, lg)
        \/ \E n \in ProgNums, why \in {"badLength", "filterVersion", "directStream"} : OpenStreamBad(n, 0, why)
        \/ \E n \in ProgNums : PutBad(n)
        \/ OpenWhileOpen
        \/ \E k \in {0, 1, 2} : StreamWrite(k)
        \/ CloseStream
        \/ \E a, b \in ProgNums, v \in Vals : WC2(a, b, v)
        \/ \E a \in ProgNums, v \in Vals : WC1(a, v)
        \/ \E a, b, c \in ProgNums, v \in Vals : WC3(a, b, c, v)
        \/ WC0
        \/ \E why \in {"streamMember", "refMember", "genMember"} : WriteCompressedBad(why)
        \/ Close \/ CloseBad \/ CloseWhileOpen
Spec == Init /\ [][Next]_vars

-----------------------------------------------------------------------------
(* the abstract file and a reader of it (ISO 32000 7.5.4) *)
ObjAt(p) == {e \in {emitted[i] : i \in 1..Len(emitted)} : e.pos = p}
Lookup(n, g) ==
  IF n \notin Num THEN "null" ELSE
  LET e == xref[n] IN
  IF e.k \in {"none", "free"} THEN "null"
  ELSE IF e.k = "at" THEN (IF e.gen # g THEN "null"
                           ELSE IF \E o \in ObjAt(e.pos) : o.num = n /\ o.gen = g
                                THEN (CHOOSE o \in ObjAt(e.pos) : o.num = n /\ o.gen = g).val
                                ELSE "CORRUPT")
  ELSE IF g # 0 THEN "null"
  ELSE LET c == xref[e.stm] IN
       IF c.k # "at" \/ ~\E o \in ObjAt(c.pos) : o.kind = "objstm" THEN "CORRUPT"
       ELSE LET o == CHOOSE o \in ObjAt(c.pos) : o.kind = "objstm" IN
            IF e.idx + 1 <= Len(o.members) /\ o.members[e.idx + 1][1] = n THEN o.members[e.idx + 1][2] ELSE "CORRUPT"

Closed == mode = "closed"
InternalVals == {"len", "pages", "catalog", "info", "objstm"}
\* C02: every written reference reads back as written ...
RoundTrip == Closed => \A w \in written : Lookup(w[1], w[2]) = w[3]
\* ... and references never written read as null
UnwrittenNull == Closed => \A n \in 1..(trailer.size - 1), g \in {0, 1} :
                    (~\E v \in Vals \cup InternalVals : <<n, g, v>> \in written) /\ n # trailer.xnum
                       /\ ~(\E i \in 1..Len(emitted) : emitted[i].num = n /\ emitted[i].gen = g)
                    => Lookup(n, g) = "null"
\* C03: every in-use entry points exactly at the header of that object
OffsetsExact == \A n \in Num : xref[n].k = "at" /\ (mode # "stream" \/ n # cur.num) /\ mode # "failed" =>
                    \E o \in ObjAt(xref[n].pos) : o.num = n /\ o.gen = xref[n].gen
NoOverlap == \A i, j \in 1..Len(emitted) : i # j => emitted[i].pos # emitted[j].pos
SizeCovers == Closed => \A n \in Num : xref[n].k \in {"at", "stm"} => n < trailer.size
\* objects put while a stream is open lie after it; physical order = emission order
DeferredAfterStream == \A i, j \in 1..Len(emitted) : i < j => emitted[i].pos < emitted[j].pos
\* object streams hold generation-0 members listed at the index the entry names
ObjStmConsistent == \A n \in Num : xref[n].k = "stm" =>
                      /\ xref[xref[n].stm].k = "at" /\ xref[xref[n].stm].gen = 0
                      /\ \E o \in ObjAt(xref[xref[n].stm].pos) :
                            o.kind = "objstm" /\ xref[n].idx + 1 <= Len(o.members) /\ o.members[xref[n].idx + 1][1] = n
\* the root and info references of the trailer are in-use objects
TrailerOK == Closed => Lookup(trailer.root, 0) = "catalog" /\ Lookup(trailer.info, 0) = "info"
=============================================================================
