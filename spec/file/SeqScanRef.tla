----------------------------- MODULE SeqScanRef -----------------------------
(* Property C20 as predicates over the ground truth of a file and what the  *)
(* sequential scan reported.  Written from the property text; no knowledge  *)
(* of how the scan works.  Used by SeqScan (design model) and by            *)
(* Trace_SeqScan (judging the real code).                                   *)
EXTENDS Integers, Sequences

\* Ground truth: objs[i] = [start, hdrEnd, end, amb, lenEnd] (byte offsets of
\* the first digit of "N G obj", of the end of that header and of the end of
\* "endobj"; amb and lenEnd see below).
\* Observation: res = what SequentialScan returned ("ok" or a failure);
\* listed = the i reported with ObjStart = objs[i].start; st[i] = "ok" /
\* "broken" (the Broken flag); val[i] = "v" when FileInfo.Read returned the
\* value that was written.
Complete(objs, c, i) == objs[i].end <= c
\* Where a stream ends.  The body of a stream ends where its /Length says,
\* provided the length can be known: a direct /Length, or an indirect one
\* whose object is completely within the available bytes (and names an offset
\* within them).  Only when the length cannot be known is the end found by
\* searching for EOL "endstream".  A body that itself contains a line starting
\* with "endstream" (amb = TRUE) is therefore unambiguous exactly from the
\* offset lenEnd on (the end of the stream object for a direct /Length, the end
\* of the object holding the length for an indirect one); for a shorter prefix
\* nothing is demanded about that stream: what is there is a well-formed
\* shorter object.
Judged(objs, c, i) == ~objs[i].amb \/ objs[i].lenEnd <= c
\* "does not fail outright when at least one complete object is present"
RefScanReturns(objs, c, r) ==
  (\E i \in 1..Len(objs) : Complete(objs, c, i)) => r = "ok"
\* "lists every indirect object whose endobj lies within the available bytes
\*  at its true offset, not marked broken, and reading it yields the value"
RefListsComplete(objs, c, r, ls, s, v) ==
  r = "ok" => \A i \in 1..Len(objs) : (Complete(objs, c, i) /\ Judged(objs, c, i)) =>
                   /\ i \in ls /\ s[i] = "ok" /\ v[i] = "v"
\* "incomplete trailing objects are reported as broken"
RefCutIsBroken(objs, c, r, ls, s) ==
  r = "ok" => \A i \in 1..Len(objs) : (i \in ls /\ ~Complete(objs, c, i) /\ ~objs[i].amb) => s[i] = "broken"
\* a panic is never an acceptable way to fail
RefNoPanic(r) == r # "panic"
\* MakeReader may fail (the trailer may be gone), but a Reader it does return
\* must not hand out other values for complete objects ("baddata"), nor panic
RefReaderSound(mr) == mr \notin {"baddata", "panic"}
\* When nothing of the file is missing (intact, or only cross-reference data
\* overwritten) the Reader built from the scan must be available: it is the
\* way "reading it" works for a file whose xref cannot be used
RefReaderAvailable(whole, mr) == whole => mr = "ok"
RefHolds(objs, c, r, ls, s, v) ==
  /\ RefNoPanic(r)
  /\ RefScanReturns(objs, c, r)
  /\ RefListsComplete(objs, c, r, ls, s, v)
  /\ RefCutIsBroken(objs, c, r, ls, s)

=============================================================================
