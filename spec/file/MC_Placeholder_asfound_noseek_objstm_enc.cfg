SPECIFICATION Spec
CONSTANTS SEEKABLE = FALSE
  OBJSTM = TRUE
  ENCRYPTED = TRUE
  MaxOps = 6
  Impl = "asfound"
INVARIANTS RoundTrip NoCorruption WrittenOnce NothingPending
CHECK_DEADLOCK FALSE
