SPECIFICATION GenSpec
CONSTANTS SEEKABLE = TRUE
  OBJSTM = FALSE
  ENCRYPTED = FALSE
  MaxOps = 5
  Impl = "fixed"
CHECK_DEADLOCK FALSE
