\* negative control: a reader that derives the object key with generation 0 must violate LookupOK (an object freed and defined again has generation 1: three revisions)
SPECIFICATION Spec
CONSTANTS OFFBYONE = FALSE
  NULLZERO = FALSE
  KEYGEN0 = TRUE
  DECRYPTMEMBERS = FALSE
  TRAILERMERGE = FALSE
  ZEROLENUNKNOWN = FALSE
  Objs = {1, 2}
  MaxRevs = 3
  Styles = {"one", "each", "runs"}
  ZeroFree = TRUE
  MaxPieces = 1
  STRICT_LENGTH = FALSE
CONSTRAINT PiecesBound
INVARIANTS LookupOK KeyOK TrailerOK FileOK ExtentOK CorrectOK DivergenceIs
CHECK_DEADLOCK FALSE
