-------------------------- MODULE MC_XRefHistory --------------------------
(* Exhaustive design check of XRefHistory as a state machine.               *)
(*                                                                           *)
(* mode "history": AddRevision builds every conforming history of at most   *)
(* MaxRevs revisions over the object numbers Objs (with every subsection    *)
(* style in Styles and, where it is a free choice, with and without the     *)
(* entry of object 0); StartRead, ReadTable, ReadXRefStm, ReadXRefStream    *)
(* and FollowPrev are the steps of xref.go readXRef on the file a           *)
(* conforming writer produces for it.  When the reader is done, its table   *)
(* must answer every probe as the reference semantics does, and it must     *)
(* hold the newest trailer.  (The seen set only matters for /Prev cycles    *)
(* and shared /XRefStm streams, which conforming files do not have: its     *)
(* `already seen' branches are never taken here.)                           *)
(*                                                                           *)
(* mode "extent": AddPiece builds stream bodies from pieces (ordinary byte, *)
(* blank, CR, LF, the keyword endstream); the invariants compare            *)
(* ImplExtent with the true extent for every declared length and every      *)
(* end-of-line marker before endstream.                                     *)
EXTENDS XRefHistory
CONSTANTS Objs, MaxRevs, Styles, MaxPieces,
          ZeroFree,       \* TRUE: listing object 0 again in an update is explored as a free choice
          STRICT_LENGTH   \* TRUE: no carve-out for ShortIntoTrailingWS (negative control)

TrailerKeys == {"ID", "Info", "XX"}
NoTrailer == [k \in TrailerKeys |-> 0]

VARIABLES mode, hist, phase, cur, part, xref, seen, trl, body
vars == <<mode, hist, phase, cur, part, xref, seen, trl, body>>

Init == /\ mode \in {"history", "extent", "trailer"}
        /\ hist = <<>> /\ phase = "build" /\ cur = 0 /\ part = "none"
        /\ xref = <<>> /\ seen = {} /\ trl = NoTrailer /\ body = <<>>

---------------------------------------------------------------------------
\* building the history

StateNow == IF Len(hist) = 0 THEN [n \in Objs |-> Absent] ELSE StateAfter(hist, Len(hist))

\* object 0 has to be listed when the free list changes (an object is freed
\* into it); otherwise listing it again is the writer's choice
ZeroChoices(ops, k) == IF mode = "trailer" THEN {k = 1} ELSE IF k = 1 \/ \E n \in Objs : ops[n] = "freeb" THEN {TRUE} ELSE IF ZeroFree THEN BOOLEAN ELSE {FALSE}
\* subsection styles matter for tables only
StyleChoices(kind, k) == IF mode = "trailer" \/ k = 1 \/ kind = "stream" THEN {"runs"} ELSE Styles

\* mode "history": every operation, trailers with every optional key;
\* mode "trailer": every choice of optional trailer keys per revision, over a
\* few histories that have tables, streams and hybrid sections (object 1 is
\* retired by the first revision and may come back hidden)
First == CHOOSE n \in Objs : \A m \in Objs : n <= m
OpsChoices(k) ==
  IF mode = "history" THEN [Objs -> OpNames]
  ELSE IF k = 1 THEN {[n \in Objs |-> IF n = First THEN "freer" ELSE "def"]}
  ELSE {[n \in Objs |-> "keep"], [n \in Objs |-> IF n = First THEN "hdef" ELSE "keep"]}
TrChoices == IF mode = "history" THEN {<<"Info", "XX">>} ELSE TrailerChoices
RevBound == IF mode = "history" THEN MaxRevs ELSE 3

AddRevision ==
  /\ mode \in {"history", "trailer"} /\ phase = "build" /\ Len(hist) < RevBound
  /\ \E kind \in Kinds, ops \in OpsChoices(Len(hist) + 1), tr \in TrChoices :
       LET k == Len(hist) + 1 IN
       /\ RevOK(StateNow, [kind |-> kind, ops |-> ops], k)
       /\ \E zero \in ZeroChoices(ops, k), style \in StyleChoices(kind, k) :
            hist' = Append(hist, [kind |-> kind, ops |-> ops, tr |-> tr, zero |-> zero, style |-> style])
  /\ UNCHANGED <<mode, phase, cur, part, xref, seen, trl, body>>

---------------------------------------------------------------------------
\* xref.go readXRef on FileOf(hist); sections are numbered by revision

File == FileOf(hist)
Sec(k) == SectionOf(hist, k)
\* Reader.get only needs the objects of the file
Objects == [objects |-> ObjectsOf(hist)]

\* findXRef: the last startxref names the newest section
StartRead ==
  /\ mode \in {"history", "trailer"} /\ phase = "build" /\ Len(hist) >= 1
  /\ phase' = "read" /\ cur' = Len(hist) /\ part' = "main"
  /\ seen' = {<<Len(hist), "main">>}
  /\ UNCHANGED <<mode, hist, xref, trl, body>>

\* `if first { copy the trailer entries }': the dictionary of the table (for a
\* hybrid section: of the table, not of the /XRefStm stream) or of the stream
\* (with TRAILERMERGE: the defective variant without the `first' flag)
Present(k) == IF HasKey(hist[cur], k) THEN cur ELSE 0
TakeTrailer ==
  trl' = IF TRAILERMERGE THEN [k \in TrailerKeys |-> IF trl[k] # 0 THEN trl[k] ELSE Present(k)]
         ELSE IF trl["ID"] = 0 THEN [k \in TrailerKeys |-> Present(k)]
         ELSE trl

\* case "xref": readXRefTable, then the /XRefStm of the same section
ReadTable ==
  /\ phase = "read" /\ part = "main" /\ Sec(cur).kind \in {"table", "hybrid"}
  /\ xref' = DecodeTable(xref, Sec(cur), 1, 0)
  /\ part' = IF Sec(cur).kind = "hybrid" THEN "xstm" ELSE "prev"
  /\ TakeTrailer
  /\ UNCHANGED <<mode, hist, phase, cur, seen, body>>

ReadXRefStm ==
  /\ phase = "read" /\ part = "xstm"
  /\ IF <<cur, "xstm">> \in seen
     THEN UNCHANGED <<xref, seen>>
     ELSE /\ seen' = seen \cup {<<cur, "xstm">>}
          /\ xref' = DecodeStream(xref, Sec(cur).xrefstm.entries, 1)
  /\ part' = "prev"
  /\ UNCHANGED <<mode, hist, phase, cur, trl, body>>

\* default: readXRefStream
ReadXRefStream ==
  /\ phase = "read" /\ part = "main" /\ Sec(cur).kind = "stream"
  /\ xref' = DecodeStream(xref, Sec(cur).entries, 1)
  /\ part' = "prev"
  /\ TakeTrailer
  /\ UNCHANGED <<mode, hist, phase, cur, seen, body>>

\* /Prev, guarded by the seen set
FollowPrev ==
  /\ phase = "read" /\ part = "prev"
  /\ IF cur > 1 /\ <<cur - 1, "main">> \notin seen
     THEN /\ cur' = cur - 1 /\ part' = "main" /\ seen' = seen \cup {<<cur - 1, "main">>}
          /\ UNCHANGED phase
     ELSE /\ phase' = "done" /\ UNCHANGED <<cur, part, seen>>
  /\ UNCHANGED <<mode, hist, xref, trl, body>>

---------------------------------------------------------------------------
\* stream bodies

Pieces == {<<120>>, <<32>>, <<13>>, <<10>>, KW}
AddPiece ==
  /\ mode = "extent" /\ Len(body) <= 9 * MaxPieces
  /\ \E p \in Pieces : body' = body \o p
  /\ UNCHANGED <<mode, hist, phase, cur, part, xref, seen, trl>>

Next == AddRevision \/ StartRead \/ ReadTable \/ ReadXRefStm \/ ReadXRefStream
        \/ FollowPrev \/ AddPiece
Spec == Init /\ [][Next]_vars

\* bounded number of pieces (state constraint)
\* (the keyword contains exactly one 's' = 115)
PiecesBound == Cardinality({i \in 1..Len(body) : body[i] \in {120, 32, 13, 10, 115}}) <= MaxPieces

---------------------------------------------------------------------------
\* properties

ProbeNums == Objs \cup {CHOOSE m \in 1..100 : m \notin Objs /\ (m - 1) \in Objs}
ProbeGens == {0, 1, 2, MaxGen}

\* the reader's table answers as the standard prescribes
LookupOK ==
  phase = "done" =>
    LET F == Objects IN \A n \in ProbeNums, g \in ProbeGens :
      /\ ImplGet(F, xref, n, g) = RefPhys(hist, n, g)
      \* and with the key of the newest definition, for every key scope
      /\ \A scope \in KeyScopes : ImplGetK(F, xref, n, g, scope) = RefPhysK(hist, n, g, scope)
\* every object the reader reaches was written under the key the reader uses
\* (what is written and what is read are separate: WrittenKey is the
\* writer's, the key field of ImplGetK the reader's)
KeyOK ==
  phase = "done" =>
    LET F == Objects IN \A n \in ProbeNums, g \in ProbeGens, scope \in KeyScopes :
      LET p == ImplGetK(F, xref, n, g, scope)
      IN (p # Null /\ p # Error) =>
           IF p.kind = "obj" THEN p.key = WrittenKey(scope, ObjectAt(F, p.off))
           ELSE p.key = Plain /\ p.ckey = WrittenKey(scope, CHOOSE o \in RangeOf(F.objects) : o.n = p.stm)
\* the trailer reported is the newest one
TrailerOK == phase = "done" => \A k \in TrailerKeys : trl[k] = RefTrailer(hist)[k]
\* the file built for the history means what the history means (PdfFile!Lookup)
FileOK ==
  (mode \in {"history", "trailer"} /\ phase = "build" /\ Len(hist) >= 1) =>
    LET F == File IN \A n \in ProbeNums, g \in ProbeGens : Lookup(F, n, g) = RefPhys(hist, n, g)

\* stream extent, for every end-of-line marker and every declared length
Eols == {<<10>>, <<13>>, <<13, 10>>, <<>>}    \* <<>>: no marker before endstream
After == <<10, 120, 32>> \o KW \o <<10>>
DataOf(eol) == body \o eol \o KW \o After
LKinds == {"int", "null", "none"}
DeclRange(D, lk) == IF lk = "int" THEN (-1)..Len(D) ELSE {-1}
ExtentOK ==
  mode = "extent" =>
    \A eol \in Eols : LET D == DataOf(eol) blen == Len(body) IN
      \A lk \in LKinds : \A v \in DeclRange(D, lk) :
        LET declared == RefDeclared(lk, v) IN
        (/\ Admissible(D, blen, declared)
         /\ STRICT_LENGTH \/ ~ShortIntoTrailingWS(D, blen, declared))
          => ImplExtent(D, ImplDeclared(lk, v)) = RefExtent(D, blen)
\* a correct length is right for every body, admissible or not
CorrectOK ==
  mode = "extent" => \A eol \in Eols : ImplExtent(DataOf(eol), ImplDeclared("int", Len(body))) = Len(body)
\* what the code does in the class carved out above
DivergenceIs ==
  mode = "extent" =>
    \A eol \in Eols : LET D == DataOf(eol) blen == Len(body) IN
      \A declared \in 0..blen :
        (Admissible(D, blen, declared) /\ ShortIntoTrailingWS(D, blen, declared)) => ImplExtent(D, declared) = declared
=============================================================================
