SPECIFICATION GenSpec
CONSTANTS SEEKABLE = FALSE
  OBJSTM = FALSE
  ENCRYPTED = FALSE
  MaxOps = 5
  Impl = "fixed"
CHECK_DEADLOCK FALSE
