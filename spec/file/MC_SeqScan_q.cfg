\* quick: the design the property demands (EOF of a candidate => Broken); all 13 kinds, 1..2 objects
SPECIFICATION Spec
CONSTANTS Kinds <- AllKinds
  MaxObjs = 2
  Tails <- BothTails
  Damages <- AllDamages
  EOF_IS_BROKEN = TRUE
  TRIM_TWICE = FALSE
  USED_HOISTED = FALSE
  SHARED_SEEN = FALSE
INVARIANTS TypeOK PropertyHolds StepsAgree DamageHarmless
CHECK_DEADLOCK FALSE
