SPECIFICATION Spec
CONSTANTS MaxNum = 3
  Vals = {"a", "b"}
  OBJSTM = TRUE
  SEEKABLE = TRUE
  MaxOps = 3
  Threshold = 2
  MaxMembers <- SmallMembers
INVARIANTS RoundTrip UnwrittenNull OffsetsExact NoOverlap SizeCovers DeferredAfterStream ObjStmConsistent TrailerOK
CHECK_DEADLOCK FALSE
