SPECIFICATION Spec
CONSTANTS SEEKABLE = TRUE
  OBJSTM = FALSE
  ENCRYPTED = TRUE
  MaxOps = 6
  Impl = "fixed"
INVARIANTS RoundTrip NoCorruption WrittenOnce NothingPending
CHECK_DEADLOCK FALSE
