SPECIFICATION GenSpec
CONSTANTS SEEKABLE = FALSE
  OBJSTM = TRUE
  ENCRYPTED = TRUE
  MaxOps = 6
  Impl = "fixed"
CHECK_DEADLOCK FALSE
