---------------------------- MODULE Gen_SeqScan ----------------------------
(* Case table from SeqScan: for every kind of object and every crash point *)
(* inside it, the class of the cut (token class, context, "at" a token      *)
(* boundary or "in" a token) with what the parser does as coded and what   *)
(* the property demands.  The harness maps every real truncation offset to *)
(* a line of this table (coverage of the model by real executions) and     *)
(* compares the real outcome with both columns.                            *)
EXTENDS SeqScan, Json, IOUtils
AllKinds == {"int", "real", "name", "kw", "str", "hex", "ref", "arr", "dict", "stream"}
\* checkObjects as coded: malformed => Broken, a bare EOF aborts
Coded(stops) == IF stops = {"malformed"} THEN "broken" ELSE IF stops = {"eof"} THEN "abort" ELSE "abort|broken"
Row(kind, avail) ==
  LET k == StopTok(kind, avail)
      t == ObjToks(kind)[k]
      part == TokStart(kind, k) < avail
      stops == ImplStops(t, part)
  IN [kind |-> kind, where |-> IF part THEN "in" ELSE "at", cls |-> t.cls, ctx |-> t.ctx,
      ascoded |-> IF k = 1 THEN "unlisted" ELSE Coded(stops),
      design  |-> IF k = 1 THEN "unlisted" ELSE "broken"]
Rows == UNION {{Row(kind, a) : a \in 1..(ObjLen(kind) - 1)} : kind \in AllKinds}
\* the same rule for every (token class, context, at/in), whatever the object
\* (real objects nest deeper than the generic ones of the model)
AllCls == {"ws", "int", "real", "name", "kw", "str", "hex", "aopen", "aclose", "dopen", "dclose", "R",
           "streamkw", "data", "endstream", "endobj"}
Rule(cls, ctx, part) ==
  LET stops == ImplStops(Tok(cls, ctx, 2), part)
  IN [kind |-> "*", where |-> IF part THEN "in" ELSE "at", cls |-> cls, ctx |-> ctx,
      ascoded |-> Coded(stops), design |-> "broken"]
Rules == {Rule(c, x, p) : c \in AllCls, x \in {"top", "dict", "arr", "stm"}, p \in BOOLEAN}
           \cup {[kind |-> "*", where |-> "in", cls |-> "hdr", ctx |-> "top", ascoded |-> "unlisted", design |-> "unlisted"]}
RECURSIVE SetToSeq0(_)
SetToSeq0(S) == IF S = {} THEN <<>> ELSE LET x == CHOOSE x \in S : TRUE IN <<x>> \o SetToSeq0(S \ {x})
ASSUME ndJsonSerialize(IOEnv.OUT, SetToSeq0(Rows) \o SetToSeq0(Rules))
=============================================================================
