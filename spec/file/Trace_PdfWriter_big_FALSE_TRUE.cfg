SPECIFICATION TSpec
CONSTANTS MaxNum = 8300
  Vals = {"a", "b"}
  OBJSTM = FALSE
  SEEKABLE = TRUE
  MaxOps = 60
  Threshold = 2
CHECK_DEADLOCK FALSE
