SPECIFICATION Spec
CONSTANTS SEEKABLE = FALSE
  OBJSTM = FALSE
  ENCRYPTED = FALSE
  MaxOps = 6
  Impl = "fixed"
INVARIANTS RoundTrip NoCorruption WrittenOnce NothingPending
CHECK_DEADLOCK FALSE
