\* generated by ResourceManager_mkcfg.sh
SPECIFICATION Spec
CONSTANTS
  Enc = {"e1","e2"}
  Emb = {"m1","m2"}
  SelfEmb = {"ms"}
  Keys = {"k1"}
  Fns = {"d1","d2"}
  EncKinds = {"val","nil","ref","fail","nilres","valres","failres","child","backref"}
  EmbKinds = {"val","obj","fail","other","cycle","defer"}
  SelfKinds = {"self","fail"}
  KeyKinds = {"val","obj","fail"}
  FnKinds = {"noop","fail","embed","more","embedat"}
  CallOps = {"Embed","EmbedFunc","GetReference","Store","StoreDeferred","StoreEncoded","Close"}
  MaxCalls = 3
  StepBound = 150
  CycleRecurses = TRUE
  ClosedUnchecked = TRUE
  LifoQueue = FALSE
  DropReservation = FALSE
INVARIANTS Terminates WrittenInv NoDupInv IdempotentInv FifoInv AfterCloseInv AnswersInv ReservedUnwritten ClosedClean
