SPECIFICATION GenSpec
CONSTANTS SEEKABLE = FALSE
  OBJSTM = TRUE
  ENCRYPTED = FALSE
  MaxOps = 6
  Impl = "fixed"
CHECK_DEADLOCK FALSE
