\* negative control: a /Length of 0 treated as unknown must violate the extent invariants (empty stream without EOL before endstream)
SPECIFICATION Spec
CONSTANTS OFFBYONE = FALSE
  NULLZERO = FALSE
  KEYGEN0 = FALSE
  DECRYPTMEMBERS = FALSE
  TRAILERMERGE = FALSE
  ZEROLENUNKNOWN = TRUE
  Objs = {1, 2, 3}
  MaxRevs = 2
  Styles = {"one", "each", "runs"}
  ZeroFree = TRUE
  MaxPieces = 4
  STRICT_LENGTH = FALSE
CONSTRAINT PiecesBound
INVARIANTS LookupOK KeyOK TrailerOK FileOK ExtentOK CorrectOK DivergenceIs
CHECK_DEADLOCK FALSE
