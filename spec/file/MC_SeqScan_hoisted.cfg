\* negative control: locateObjects with `used = true` hoisted before the switch (a refactoring that passes go-pdf's tests);
\* must FAIL PropertyHolds: an object that follows a marker-like line of a stream body and is the last thing before the cut is lost
SPECIFICATION Spec
CONSTANTS Kinds <- MarkerKinds
  MaxObjs = 3
  Tails <- BothTails
  Damages <- AllDamages
  EOF_IS_BROKEN = TRUE
  TRIM_TWICE = FALSE
  USED_HOISTED = TRUE
  SHARED_SEEN = FALSE
INVARIANTS TypeOK PropertyHolds
CHECK_DEADLOCK FALSE
