------------------------ MODULE Trace_PdfFileObserved ------------------------
(* Property C03 on files the real Writer produced.  A record carries the     *)
(* abstract file as observed by the independent strict parser               *)
(* (harness/indep/strict.ToJSON; no go-pdf code) and the values the program  *)
(* wrote.  TLC evaluates PdfFile!WellFormed (one conjunct per clause of the  *)
(* property) and that every written reference resolves, by the lookup rules  *)
(* of ISO 32000 7.5, to an object whose value equals the written one         *)
(* (streams: the dictionary without /Length /Filter /DecodeParms, and the    *)
(* SHA-256 of the decoded data).                                             *)
EXTENDS PdfFile, TraceLib, SequencesExt

Cases == Records

\* names as byte sequences
LengthKey == <<76, 101, 110, 103, 116, 104>>
FilterKey == <<70, 105, 108, 116, 101, 114>>
ParmsKey  == <<68, 101, 99, 111, 100, 101, 80, 97, 114, 109, 115>>
Framing == {LengthKey, FilterKey, ParmsKey}

\* a dictionary value without the framing keys
Strip(d) ==
  LET keep == {i \in 1..Len(d.k) : d.k[i] \notin Framing}
      idx == SetToSortSeq(keep, LAMBDA a, b : a < b)
  IN [t |-> "dict", k |-> [j \in 1..Len(idx) |-> d.k[idx[j]]], e |-> [j \in 1..Len(idx) |-> d.e[idx[j]]]]

ValueAt(file, lk) ==
  IF lk.kind = "obj" THEN ObjectAt(file, lk.off)
  ELSE LET c == NewestEntry(file.sections, lk.stm) IN ObjectAt(file, c.off).objstm.members[lk.idx + 1]

Extracted(file, w) ==
  LET lk == Lookup(file, w.n, w.g)
  IN /\ lk # Null
     /\ LET o == ValueAt(file, lk)
        IN IF w.kind = "stream"
           THEN /\ o.kind = "stream" /\ Has(o, "stream")
                /\ o.stream.sha_dec = w.sha
                /\ Strip(o.v.d) = Strip(w.v)
           ELSE o.kind # "stream" /\ o.v = w.v

\* ISO 32000-2 14.4: a PDF 2.0 file has a file identifier of two byte strings of
\* at least 16 bytes each; where an identifier is present it has two parts
IDOK(c) == /\ Len(c.idlens) \in {0, 2}
           /\ \A k \in 1..Len(c.idlens) : c.idlens[k] >= 0
           /\ c.version = "2.0" => Len(c.idlens) = 2 /\ \A k \in 1..2 : c.idlens[k] >= 16
CaseOK(c) == /\ c.stricterr = ""
             /\ IDOK(c)
             /\ WellFormed(c.file)
             \* further findings of the strict parser (xref stream layout ...); its
             \* "object0" remark (generation of the free entry 0) is beyond C03
             /\ \A k \in 1..Len(c.file.problems) : c.file.problems[k].clause = "object0"
             /\ \A i \in 1..Len(c.written) : Extracted(c.file, c.written[i])

VARIABLES i, bad, done
vars == <<i, bad, done>>
Init == i = 1 /\ bad = <<>> /\ done = FALSE
Step == /\ i <= Len(Cases) /\ i' = i + 1
        /\ bad' = IF CaseOK(Cases[i]) THEN bad ELSE Append(bad, i)
        /\ UNCHANGED done
Finish == /\ i = Len(Cases) + 1 /\ ~done /\ done' = TRUE /\ WriteVerdict(bad) /\ UNCHANGED <<i, bad>>
Next == Step \/ Finish
Spec == Init /\ [][Next]_vars
=============================================================================
