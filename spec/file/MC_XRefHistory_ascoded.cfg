\* negative control: the offByOne tolerance of decodeXRefSection as coded (F11) must violate LookupOK
SPECIFICATION Spec
CONSTANTS OFFBYONE = TRUE
  NULLZERO = FALSE
  KEYGEN0 = FALSE
  DECRYPTMEMBERS = FALSE
  TRAILERMERGE = FALSE
  ZEROLENUNKNOWN = FALSE
  Objs = {1, 2, 3}
  MaxRevs = 2
  Styles = {"one", "each", "runs"}
  ZeroFree = TRUE
  MaxPieces = 4
  STRICT_LENGTH = FALSE
CONSTRAINT PiecesBound
INVARIANTS LookupOK KeyOK TrailerOK FileOK ExtentOK CorrectOK DivergenceIs
CHECK_DEADLOCK FALSE
