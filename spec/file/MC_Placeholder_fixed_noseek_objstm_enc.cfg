SPECIFICATION Spec
CONSTANTS SEEKABLE = FALSE
  OBJSTM = TRUE
  ENCRYPTED = TRUE
  MaxOps = 6
  Impl = "fixed"
INVARIANTS RoundTrip NoCorruption WrittenOnce NothingPending
CHECK_DEADLOCK FALSE
