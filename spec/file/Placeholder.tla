----------------------------- MODULE Placeholder -----------------------------
(***************************************************************************)
(* Life cycle of pdf.Placeholder (types.go: NewPlaceholder, doFormat case   *)
(* *Placeholder, Placeholder.Set) on top of the Writer's bookkeeping: a     *)
(* value that is not yet known may be written any number of times, in a     *)
(* Put, in a list handed to WriteCompressed, in the dictionary of a stream, *)
(* before or after it is set, while a stream is open or not, on seekable    *)
(* and non-seekable sinks, with and without encryption.  The three methods  *)
(* of doFormat:                                                             *)
(*   1  the value is known: it is written in place                          *)
(*   2  seekable sink: white space is reserved and its file position        *)
(*      recorded; Set seeks back and fills every recorded position          *)
(*   3  otherwise an indirect reference is written; Set puts the object     *)
(* What C02 demands of it: once the file is closed, every place a           *)
(* placeholder was written reads as the value it was set to (directly or    *)
(* through the one reference), strings decrypt with the key of the object   *)
(* they are part of, and nothing else in the file was overwritten.          *)
(*                                                                         *)
(* Impl selects the implementation that is modelled:                        *)
(*   "fixed"    the code as repaired                                        *)
(*   "asfound"  the code of the pinned tree: method 2 records the Writer's  *)
(*              position also when the text goes into the buffer of an      *)
(*              object stream (Set then overwrites the head of whatever     *)
(*              object lies there); the value is kept as formatted plain    *)
(*              text (a string set through a placeholder is never           *)
(*              encrypted, whether filled in by Set or written after Set);  *)
(*              a placeholder with a reference returns from Set before the  *)
(*              recorded positions are looked at (harmless as found, where  *)
(*              no placeholder has both; the repaired method 3 for buffered *)
(*              text makes that possible, so the repaired Set does both)    *)
(* "asfound" is the negative control: TLC must find the first two.          *)
(***************************************************************************)
EXTENDS Naturals, Sequences, FiniteSets, TLC

CONSTANTS SEEKABLE, OBJSTM, ENCRYPTED, MaxOps, Impl

P == {1, 2}
\* "arr": an array holding a string (what needs a key is not only a bare string)
Vals == {"int", "str", "arr"}
NeedsKey(v) == v \in {"str", "arr"}

VARIABLES mode,      \* "idle" | "stream" | "closed"
          file,      \* physical objects in file order
          ph,        \* P -> state of the placeholder
          deferred,  \* requests queued while a stream is open
          cur,       \* the open stream
          nextRef,
          hist       \* the calls made, with their outcomes
vars == <<mode, file, ph, deferred, cur, nextRef, hist>>

\* set: Set has succeeded; known: the value is kept for later writes (method 1)
NoPH == [made |-> FALSE, set |-> FALSE, known |-> FALSE, v |-> "", recs |-> {}, ref |-> 0]
Hole(p) == [k |-> "hole", p |-> p, v |-> "", key |-> 0, r |-> 0]
Val(p, v, key) == [k |-> "val", p |-> p, v |-> v, key |-> key, r |-> 0]
Ref(p, r) == [k |-> "ref", p |-> p, v |-> "", key |-> 0, r |-> r]
Obj(n, kind, parts) == [num |-> n, kind |-> kind, ok |-> TRUE, parts |-> parts]

\* the key a string inside object n must be encrypted with (members of object
\* streams are not encrypted one by one: the container's data is)
RightKey(n, inStm) == IF ENCRYPTED /\ ~inStm THEN n ELSE 0

Init == /\ mode = "idle" /\ file = <<>> /\ ph = [p \in P |-> NoPH]
        /\ deferred = <<>> /\ cur = [open |-> FALSE] /\ nextRef = 1 /\ hist = <<>>

-----------------------------------------------------------------------------
\* doFormat, case *Placeholder.  st = [ph, nextRef]; at = [i, j, s, n, direct,
\* inStm]: the slot is slot s of part j of the physical object that will get
\* index i; n is the number of the enclosing object; direct: the text goes
\* straight to the file (not into a buffer).  Returns [st, slot].
Fmt(st, p, at) ==
  LET x == st.ph[p] IN
  IF x.known
  THEN [st |-> st, slot |-> Val(p, x.v, IF Impl = "asfound" THEN 0 ELSE RightKey(at.n, at.inStm))]
  ELSE IF Impl = "fixed" /\ x.ref # 0 THEN [st |-> st, slot |-> Ref(p, x.ref)]   \* a reference handed out is kept
  ELSE IF SEEKABLE /\ (at.direct \/ Impl = "asfound")
  THEN LET rec == IF at.direct THEN [i |-> at.i, j |-> at.j, s |-> at.s, n |-> at.n, inStm |-> at.inStm]
                  ELSE [i |-> at.i, j |-> 0, s |-> 0, n |-> 0, inStm |-> FALSE]   \* the Writer's position: the head of object i
       IN [st |-> [st EXCEPT !.ph[p].recs = @ \cup {rec}], slot |-> Hole(p)]
  ELSE IF x.ref # 0 THEN [st |-> st, slot |-> Ref(p, x.ref)]
  ELSE [st |-> [st EXCEPT !.ph[p].ref = st.nextRef, !.nextRef = st.nextRef + 1], slot |-> Ref(p, st.nextRef)]

\* a dictionary with c entries holding placeholder p, as part j of object i
RECURSIVE FmtSlots(_, _, _, _, _)
FmtSlots(st, p, c, at, acc) ==
  IF c = 0 THEN [st |-> st, slots |-> acc]
  ELSE LET r == Fmt(st, p, [at EXCEPT !.s = Len(acc) + 1])
       IN FmtSlots(r.st, p, c - 1, at, Append(acc, r.slot))

\* Put of {X: p (, Y: p)} as object n at the end of the file
DoPut(st, f, n, p, c) ==
  LET r == FmtSlots(st, p, IF c = 3 THEN 1 ELSE c, [i |-> Len(f) + 1, j |-> 1, s |-> 0, n |-> n, direct |-> TRUE, inStm |-> FALSE], <<>>)
  IN [st |-> r.st, f |-> Append(f, Obj(n, "obj", <<[num |-> n, slots |-> r.slots]>>))]
\* Put of a known value (method 3's object, written by Set)
DoPutVal(st, f, n, p, v) ==
  [st |-> st, f |-> Append(f, Obj(n, "obj", <<[num |-> n, slots |-> <<Val(p, v, RightKey(n, FALSE))>>]>>))]
\* the dictionary of stream n
DoStream(st, f, n, p) ==
  LET r == FmtSlots(st, p, 1, [i |-> Len(f) + 1, j |-> 1, s |-> 0, n |-> n, direct |-> TRUE, inStm |-> FALSE], <<>>)
  IN [st |-> r.st, f |-> Append(f, Obj(n, "stream", <<[num |-> n, slots |-> r.slots]>>))]

\* replay of the queue when the open stream is closed
RECURSIVE Replay(_, _, _)
Replay(st, f, q) ==
  IF q = <<>> THEN [st |-> st, f |-> f]
  ELSE LET h == Head(q)
           r == IF h.op = "put" THEN DoPut(st, f, h.n, h.p, h.c) ELSE DoPutVal(st, f, h.n, h.p, h.v)
       IN Replay(r.st, r.f, Tail(q))

\* Set's seek-and-fill: every recorded position gets the text
RECURSIVE Fill(_, _, _, _)
Fill(f, recs, p, v) ==
  IF recs = {} THEN f
  ELSE LET rec == CHOOSE x \in recs : TRUE
           f1 == IF rec.s = 0 THEN [f EXCEPT ![rec.i].ok = FALSE]     \* not a reserved place: something is overwritten
                 ELSE [f EXCEPT ![rec.i].parts[rec.j].slots[rec.s] =
                          Val(p, v, IF Impl = "asfound" THEN 0 ELSE RightKey(rec.n, rec.inStm))]
       IN Fill(f1, recs \ {rec}, p, v)

St == [ph |-> ph, nextRef |-> nextRef]
Log(e) == hist' = Append(hist, e)
Step == Len(hist) < MaxOps
Usable == mode \in {"idle", "stream"}

-----------------------------------------------------------------------------
NewPH(p) == /\ Usable /\ Step /\ ~ph[p].made
            /\ (p = 2 => ph[1].made)
            /\ ph' = [ph EXCEPT ![p].made = TRUE]
            /\ Log([op |-> "new", p |-> p, c |-> 0, v |-> "", res |-> "ok"])
            /\ UNCHANGED <<mode, file, deferred, cur, nextRef>>

Put(p, c) ==
  /\ Usable /\ Step /\ ph[p].made
  /\ Log([op |-> "put", p |-> p, c |-> c, v |-> "", res |-> "ok"])
  /\ IF mode = "stream"
     THEN /\ deferred' = Append(deferred, [op |-> "put", n |-> nextRef, p |-> p, c |-> c, v |-> ""])
          /\ nextRef' = nextRef + 1
          /\ UNCHANGED <<mode, file, ph, cur>>
     ELSE LET r == DoPut([St EXCEPT !.nextRef = nextRef + 1], file, nextRef, p, c)
          IN /\ file' = r.f /\ ph' = r.st.ph /\ nextRef' = r.st.nextRef
             /\ UNCHANGED <<mode, deferred, cur>>

\* WriteCompressed([a, b], {X: p}, {Y: 7})
WC(p) ==
  /\ mode = "idle" /\ Step /\ ph[p].made
  /\ Log([op |-> "wc", p |-> p, c |-> 1, v |-> "", res |-> "ok"])
  /\ LET a == nextRef
         b == nextRef + 1
     IN IF ~OBJSTM
        THEN LET r == DoPut([St EXCEPT !.nextRef = nextRef + 2], file, a, p, 1)
                 f2 == Append(r.f, Obj(b, "obj", <<[num |-> b, slots |-> <<>>]>>))
             IN file' = f2 /\ ph' = r.st.ph /\ nextRef' = r.st.nextRef
        ELSE \* the container's number is allocated first, the members are
             \* formatted into a buffer, then the container is written
             LET s == nextRef + 2
                 r == FmtSlots([St EXCEPT !.nextRef = nextRef + 3], p, 1,
                               [i |-> Len(file) + 1, j |-> 1, s |-> 0, n |-> a, direct |-> FALSE, inStm |-> TRUE], <<>>)
             IN /\ file' = Append(file, Obj(s, "objstm", <<[num |-> a, slots |-> r.slots], [num |-> b, slots |-> <<>>]>>))
                /\ ph' = r.st.ph /\ nextRef' = r.st.nextRef
  /\ UNCHANGED <<mode, deferred, cur>>

OpenStream(p) ==
  /\ mode = "idle" /\ Step /\ ph[p].made
  /\ Log([op |-> "open", p |-> p, c |-> 1, v |-> "", res |-> "ok"])
  /\ mode' = "stream" /\ cur' = [open |-> TRUE, n |-> nextRef, p |-> p, started |-> FALSE]
  /\ nextRef' = nextRef + 1
  /\ UNCHANGED <<file, ph, deferred>>
\* enough data to leave the buffer: header and dictionary are written now
StreamWrite ==
  /\ mode = "stream" /\ Step /\ ~cur.started
  /\ Log([op |-> "write", p |-> 0, c |-> 0, v |-> "", res |-> "ok"])
  /\ LET r == DoStream(St, file, cur.n, cur.p)
     IN file' = r.f /\ ph' = r.st.ph /\ nextRef' = r.st.nextRef
  /\ cur' = [cur EXCEPT !.started = TRUE]
  /\ UNCHANGED <<mode, deferred>>
CloseStream ==
  /\ mode = "stream" /\ Step
  /\ Log([op |-> "closestm", p |-> 0, c |-> 0, v |-> "", res |-> "ok"])
  /\ LET r0 == IF cur.started THEN [st |-> St, f |-> file] ELSE DoStream(St, file, cur.n, cur.p)
         r == Replay(r0.st, r0.f, deferred)
     IN file' = r.f /\ ph' = r.st.ph /\ nextRef' = r.st.nextRef
  /\ mode' = "idle" /\ cur' = [open |-> FALSE] /\ deferred' = <<>>

\* Placeholder.Set
SetOK(p, v) ==
  LET x == ph[p]
      putNow == x.ref # 0 /\ mode = "idle"
      putLater == x.ref # 0 /\ mode = "stream"
      \* with a reference, Set returns after the Put: as found always, as
      \* repaired when no position is recorded
      early == x.ref # 0 /\ (Impl = "asfound" \/ x.recs = {})
      f1 == IF putNow THEN DoPutVal(St, file, x.ref, p, v).f ELSE file
      f2 == IF early THEN f1 ELSE Fill(f1, x.recs, p, v)
  IN /\ file' = f2
     /\ deferred' = IF putLater THEN Append(deferred, [op |-> "putval", n |-> x.ref, p |-> p, c |-> 0, v |-> v]) ELSE deferred
     /\ ph' = IF early THEN [ph EXCEPT ![p].v = v, ![p].set = TRUE]
              ELSE [ph EXCEPT ![p].v = v, ![p].set = TRUE, ![p].known = TRUE, ![p].recs = {}]
Set(p, v) ==
  /\ Usable /\ Step /\ ph[p].made
  /\ IF ph[p].set
     THEN /\ Log([op |-> "set", p |-> p, c |-> 0, v |-> v, res |-> "err"])     \* value already set / object already written
          /\ UNCHANGED <<file, ph, deferred>>
     ELSE /\ Log([op |-> "set", p |-> p, c |-> 0, v |-> v, res |-> "ok"])
          /\ SetOK(p, v)
  /\ UNCHANGED <<mode, cur, nextRef>>

Close == /\ mode = "idle" /\ Step
         /\ Log([op |-> "close", p |-> 0, c |-> 0, v |-> "", res |-> "ok"])
         /\ mode' = "closed" /\ UNCHANGED <<file, ph, deferred, cur, nextRef>>

Next == \/ \E p \in P : NewPH(p)
        \/ \E p \in P, c \in {1, 2, 3} : Put(p, c)      \* 3: [p 5 /N], one place followed by other tokens
        \/ \E p \in P : WC(p)
        \/ \E p \in P : OpenStream(p)
        \/ StreamWrite \/ CloseStream
        \/ \E p \in P, v \in Vals : Set(p, v)
        \/ Close
Spec == Init /\ [][Next]_vars

-----------------------------------------------------------------------------
\* reading the closed file
ObjsNumbered(n) == {i \in 1..Len(file) : file[i].kind # "objstm" /\ file[i].num = n}
SlotReads(sl, n, inStm) ==
  CASE sl.k = "hole" -> "hole"
    [] sl.k = "val"  -> IF NeedsKey(sl.v) /\ sl.key # RightKey(n, inStm) THEN "undecryptable" ELSE sl.v
    [] sl.k = "ref"  -> IF Cardinality(ObjsNumbered(sl.r)) # 1 THEN "null"
                        ELSE LET o == file[CHOOSE i \in ObjsNumbered(sl.r) : TRUE]
                                 t == o.parts[1].slots[1]
                             IN IF t.k # "val" THEN "bad"
                                ELSE IF NeedsKey(t.v) /\ t.key # RightKey(sl.r, FALSE) THEN "undecryptable" ELSE t.v
Closed == mode = "closed"
\* every place a placeholder that has been set was written reads as its value
RoundTrip == Closed =>
  \A i \in 1..Len(file) : \A j \in 1..Len(file[i].parts) : \A s \in 1..Len(file[i].parts[j].slots) :
     LET sl == file[i].parts[j].slots[s] IN
     ph[sl.p].set => SlotReads(sl, file[i].parts[j].num, file[i].kind = "objstm") = ph[sl.p].v
\* Set overwrites reserved places only
NoCorruption == \A i \in 1..Len(file) : file[i].ok
\* no object is written twice
WrittenOnce == \A i, k \in 1..Len(file) : (i # k /\ file[i].kind # "objstm" /\ file[k].kind # "objstm") => file[i].num # file[k].num
\* after a successful Set nothing is left to fill
NothingPending == \A p \in P : ph[p].set /\ Impl = "fixed" => ph[p].recs = {}
=============================================================================
