------------------------------- MODULE PdfFile -------------------------------
(* The abstract PDF file of ISO 32000 section 7.5: cross-reference sections  *)
(* (newest first), the indirect objects that physically stand in the file,   *)
(* and what a reference resolves to.  The record shapes are those of         *)
(* harness/indep/strict.ToJSON, so that TLC can evaluate the predicates on   *)
(* files observed by the independent strict parser (pattern P-D), and those  *)
(* that XRefHistory!FileOf builds from a revision history.                   *)
(*                                                                           *)
(*   file    = [sections, objects, size, startxref, lastsection, header, eof]*)
(*   section = [kind: "table"|"stream"|"hybrid", off, size, subs, entries,   *)
(*              xrefstm (hybrid only): section]                              *)
(*   subs    = sequence of <<first, count>>; entries in the same order       *)
(*   entry   = [n, t |-> "f", next, g] | [n, t |-> "n", off, g]              *)
(*           | [n, t |-> "c", stm, idx]                                      *)
(*   object  = [n, g, off, kind, (stream: [len, declared, lenok, eolbefore]),*)
(*              (objstm: [n, first, pairs, members, problems])]              *)
(* Offsets are relative to the '%' of the header, as written in the file.    *)
EXTENDS Integers, Sequences, FiniteSets

NoEntry == [t |-> "none"]
Null    == [kind |-> "null"]

RangeOf(q) == {q[i] : i \in 1..Len(q)}
Has(r, f) == f \in DOMAIN r

---------------------------------------------------------------------------
(* Lookup, from 7.5.4 (tables), 7.5.6 (updates), 7.5.8 (streams, hybrid):    *)
(* the newest section that has an entry for the number decides; within a     *)
(* hybrid section the table is consulted before the /XRefStm stream.         *)

\* the parts of a section in the order a reader consults them
Parts(s) == IF s.kind = "hybrid" /\ Has(s, "xrefstm") THEN <<s.entries, s.xrefstm.entries>>
            ELSE <<s.entries>>

EntryIn(ents, n) ==
  IF \E i \in 1..Len(ents) : ents[i].n = n
  THEN ents[CHOOSE i \in 1..Len(ents) : ents[i].n = n /\ \A j \in 1..(i-1) : ents[j].n # n]
  ELSE NoEntry

SectionEntry(s, n) ==
  LET ps == Parts(s)
      hit == {k \in 1..Len(ps) : EntryIn(ps[k], n) # NoEntry}
  IN IF hit = {} THEN NoEntry
     ELSE EntryIn(ps[CHOOSE k \in hit : \A j \in hit : k <= j], n)

\* sections are listed newest first
NewestEntry(secs, n) ==
  LET hit == {k \in 1..Len(secs) : SectionEntry(secs[k], n) # NoEntry}
  IN IF hit = {} THEN NoEntry
     ELSE SectionEntry(secs[CHOOSE k \in hit : \A j \in hit : k <= j], n)

TopObjects(file) == RangeOf(file.objects)

ObjectAt(file, off) ==
  IF \E o \in TopObjects(file) : o.off = off
  THEN CHOOSE o \in TopObjects(file) : o.off = off
  ELSE Null

\* what the reference <<n, g>> resolves to: Null, [kind |-> "obj", off] for an
\* object of its own, [kind |-> "mem", stm, idx] for a compressed object
Lookup(file, n, g) ==
  LET e == NewestEntry(file.sections, n)
  IN IF n < 0 \/ n >= file.size \/ e = NoEntry \/ e.t = "f" THEN Null
     ELSE IF e.t = "n"
       THEN LET o == ObjectAt(file, e.off)
            IN IF e.g = g /\ o # Null /\ o.n = n /\ o.g = g THEN [kind |-> "obj", off |-> e.off] ELSE Null
       ELSE \* compressed: generation 0, held by an object stream that is an
            \* object of its own with generation 0
            LET c == NewestEntry(file.sections, e.stm)
                o == IF c # NoEntry /\ c.t = "n" THEN ObjectAt(file, c.off) ELSE Null
            IN IF /\ g = 0 /\ o # Null /\ o.n = e.stm /\ o.g = 0 /\ Has(o, "objstm")
                  /\ e.idx + 1 <= Len(o.objstm.members)
                  /\ o.objstm.members[e.idx + 1].n = n
               THEN [kind |-> "mem", stm |-> e.stm, idx |-> e.idx] ELSE Null

---------------------------------------------------------------------------
(* Well-formedness: one conjunct per clause of property C03.                 *)

AllParts(file) == UNION {RangeOf(Parts(file.sections[k])) : k \in 1..Len(file.sections)}
AllEntries(file) == UNION {RangeOf(p) : p \in AllParts(file)}

\* header and %%EOF present, startxref names the last section
HeaderOK(file) == file.header.off >= 0 /\ file.eof > file.startxrefpos
StartXRefOK(file) == /\ Len(file.sections) >= 1
                     /\ file.startxref = file.sections[1].off
                     /\ file.lastsection = file.sections[1].off

\* every in-use entry points exactly at the `N G obj` header of that object
EntryOK(file, e) ==
  e.t = "n" => /\ e.n # 0
               /\ \E o \in TopObjects(file) : o.off = e.off /\ o.n = e.n /\ o.g = e.g
EntriesOK(file) == \A e \in AllEntries(file) : EntryOK(file, e)

\* every number below /Size has exactly one entry (per chain, newest wins):
\* at least one in the chain, none twice within one section, none >= /Size
NoDup(ents) == \A i, j \in 1..Len(ents) : ents[i].n = ents[j].n => i = j
SectionNums(s) == UNION {{p[i].n : i \in 1..Len(p)} : p \in RangeOf(Parts(s))}
CoverageOK(file) ==
  /\ \A n \in 0..(file.size - 1) : NewestEntry(file.sections, n) # NoEntry
  /\ \A e \in AllEntries(file) : e.n < file.size
  /\ \A k \in 1..Len(file.sections) :
       LET ps == Parts(file.sections[k])
       IN /\ \A i \in 1..Len(ps) : NoDup(ps[i])
          /\ Len(ps) = 2 => {ps[1][i].n : i \in 1..Len(ps[1])} \cap {ps[2][i].n : i \in 1..Len(ps[2])} = {}

\* subsections describe the entries
SubsOK(s) ==
  LET total == IF Len(s.subs) = 0 THEN 0
               ELSE LET Sum[i \in 0..Len(s.subs)] == IF i = 0 THEN 0 ELSE Sum[i-1] + s.subs[i][2] IN Sum[Len(s.subs)]
  IN total = Len(s.entries)
AllSubsOK(file) == \A k \in 1..Len(file.sections) :
  /\ SubsOK(file.sections[k])
  /\ Has(file.sections[k], "xrefstm") => SubsOK(file.sections[k].xrefstm)

\* /Length is exact and an end-of-line marker precedes endstream
LengthExact(file) == \A o \in TopObjects(file) :
  Has(o, "stream") => o.stream.lenok /\ o.stream.declared = o.stream.len
EndstreamEOL(file) == \A o \in TopObjects(file) :
  Has(o, "stream") => Len(o.stream.eolbefore) > 0
LengthOK(file) == LengthExact(file) /\ EndstreamEOL(file)

\* object streams: /N = number of pairs = number of members, offsets increase,
\* members are neither streams nor bare references, the container has
\* generation 0 and is not compressed; compressed entries name the right slot
ObjStmOK(file) ==
  /\ \A o \in TopObjects(file) : Has(o, "objstm") =>
       LET s == o.objstm
       IN /\ s.n = Len(s.pairs) /\ s.n = Len(s.members)
          /\ Len(s.problems) = 0
          /\ o.g = 0
          /\ \A i \in 1..Len(s.pairs) : s.pairs[i][1] = s.members[i].n /\ s.pairs[i][2] = s.members[i].off
          /\ \A i \in 2..Len(s.pairs) : s.pairs[i-1][2] < s.pairs[i][2]
          /\ \A i \in 1..Len(s.members) : s.members[i].kind \notin {"stream", "ref"}
          /\ NewestEntry(file.sections, o.n).t # "c"
  /\ \A e \in AllEntries(file) : e.t = "c" =>
       \* as in force when the entry was written: checked against the final
       \* table, which is the same unless the container was replaced later
       \E o \in TopObjects(file) : /\ o.n = e.stm /\ o.g = 0 /\ Has(o, "objstm")
                                   /\ e.idx + 1 <= Len(o.objstm.members)
                                   /\ o.objstm.members[e.idx + 1].n = e.n

WellFormed(file) ==
  /\ HeaderOK(file)
  /\ StartXRefOK(file)
  /\ EntriesOK(file)
  /\ CoverageOK(file)
  /\ AllSubsOK(file)
  /\ LengthOK(file)
  /\ ObjStmOK(file)

\* the same without the end-of-line marker before endstream, which ISO 32000
\* 7.3.8.1 only recommends (property C03 asks for it, a conforming file may
\* lack it where /Length is right)
WellFormedLax(file) ==
  /\ HeaderOK(file)
  /\ StartXRefOK(file)
  /\ EntriesOK(file)
  /\ CoverageOK(file)
  /\ AllSubsOK(file)
  /\ LengthExact(file)
  /\ ObjStmOK(file)

\* the same, naming the first clause that fails (for diagnostics)
FirstFailure(file) ==
  IF ~HeaderOK(file) THEN "header"
  ELSE IF ~StartXRefOK(file) THEN "startxref"
  ELSE IF ~EntriesOK(file) THEN "entry"
  ELSE IF ~CoverageOK(file) THEN "coverage"
  ELSE IF ~AllSubsOK(file) THEN "subsections"
  ELSE IF ~LengthOK(file) THEN "length"
  ELSE IF ~ObjStmOK(file) THEN "objstm"
  ELSE "none"
=============================================================================
