SPECIFICATION Spec
CONSTANTS SEEKABLE = TRUE
  OBJSTM = TRUE
  ENCRYPTED = FALSE
  MaxOps = 6
  Impl = "fixed"
INVARIANTS RoundTrip NoCorruption WrittenOnce NothingPending
CHECK_DEADLOCK FALSE
