------------------------- MODULE ResourceManagerRef -------------------------
(* What a client of pdf.ResourceManager (resource.go) may rely on, stated   *)
(* over the OBSERVABLE history of a session only (no knowledge of how the   *)
(* manager works).  ResourceManager.tla (the machine shaped like the code)  *)
(* checks these on its own history; Trace_ResourceManager.tla judges the    *)
(* histories of the real code with them.                                    *)
(*                                                                          *)
(* A history is a sequence of top-level calls                               *)
(*   [op, x, res, ev]                                                       *)
(* op  \in {"Embed", "EmbedFunc", "GetReference", "Store", "StoreDeferred", *)
(*          "StoreEncoded", "Close"},  x = the object (Embedder, key,       *)
(*          Encoder; "" for Close)                                          *)
(* res = [t |-> "ref", n |-> number] | [t |-> "val"] (a direct value) |     *)
(*       [t |-> "zero"] (the zero reference) | [t |-> "ok"] (Close) |       *)
(*       [t |-> "err"] | [t |-> "panic"] | [t |-> "diverge"]                *)
(* ev  = what happened during the call, in the order of completion:         *)
(*   [k |-> "emb", x, d, r]   Embed method / embed function of x returned   *)
(*                            (r = "ok" | "err"), d = nesting depth         *)
(*   [k |-> "enc", x, d, r]   Encode of x returned r = "val"|"nil"|"ref"|"err" *)
(*   [k |-> "fn",  x, d, r]   deferred function x returned r = "ok" | "err" *)
(*   [k |-> "defer", x]       EmbedHelper.Defer(x) was called               *)
(*   [k |-> "sdefer", x]      StoreDeferred(x) enqueued the store of x      *)
(*   [k |-> "put", n]         object n arrived at the Writer                *)
EXTENDS Naturals, Sequences, FiniteSets

RefOps == {"GetReference", "Store", "StoreDeferred", "StoreEncoded"}
IsRef(r) == r.t = "ref"

(* flattening: all events with the index of their call *)
EvIdx(h) == UNION {{<<i, j>> : j \in 1..Len(h[i].ev)} : i \in 1..Len(h)}
Ev(h, p) == h[p[1]].ev[p[2]]
Before(p, q) == p[1] < q[1] \/ (p[1] = q[1] /\ p[2] < q[2])

PutsUpTo(h, i) == {Ev(h, p).n : p \in {q \in EvIdx(h) : q[1] <= i /\ Ev(h, q).k = "put"}}
HandedUpTo(h, i) == {h[a].res.n : a \in {b \in 1..i : IsRef(h[b].res)}}
ClosedOK(h, i) == h[i].op = "Close" /\ h[i].res.t = "ok"
FirstClose(h) == IF \E i \in 1..Len(h) : ClosedOK(h, i)
                 THEN CHOOSE i \in 1..Len(h) : ClosedOK(h, i) /\ \A j \in 1..(i - 1) : ~ClosedOK(h, j)
                 ELSE 0

(* R1: when Close returns nil, every reference handed out so far has been   *)
(* written (so a reservation that is never fulfilled makes Close fail)      *)
Written(h) == \A i \in 1..Len(h) : ClosedOK(h, i) => HandedUpTo(h, i) \subseteq PutsUpTo(h, i)

(* R5: the Writer never receives an object number twice *)
NoDuplicatePut(h) ==
  \A p \in EvIdx(h), q \in EvIdx(h) :
     (Ev(h, p).k = "put" /\ Ev(h, q).k = "put" /\ Ev(h, p).n = Ev(h, q).n) => p = q

(* R2: Embed and Store are idempotent *)
EmbedOnce(h) ==
  \A p \in EvIdx(h), q \in EvIdx(h) :
     (Ev(h, p).k = "emb" /\ Ev(h, q).k = "emb" /\ Ev(h, p).x = Ev(h, q).x /\ Ev(h, p).r = "ok" /\ Before(p, q)) => FALSE
EmbedSame(h) ==
  \A i \in 1..Len(h), j \in 1..Len(h) :
     (h[i].op \in {"Embed", "EmbedFunc"} /\ h[j].op = h[i].op /\ h[i].x = h[j].x
        /\ h[i].res.t \in {"ref", "val"} /\ h[j].res.t \in {"ref", "val"}) => h[i].res = h[j].res
EncodeOnce(h) ==      \* once Encode has produced the object, it is not asked again
  \A p \in EvIdx(h), q \in EvIdx(h) :
     (Ev(h, p).k = "enc" /\ Ev(h, q).k = "enc" /\ Ev(h, p).x = Ev(h, q).x /\ Ev(h, p).r = "val" /\ Before(p, q)) => FALSE
OneReference(h) ==    \* an Encoder has one reference, whoever asks
  \A i \in 1..Len(h), j \in 1..Len(h) :
     (h[i].op \in RefOps /\ h[j].op \in RefOps /\ h[i].x = h[j].x /\ IsRef(h[i].res) /\ IsRef(h[j].res))
        => h[i].res.n = h[j].res.n
DistinctReferences(h) ==   \* different Encoders never share a reference
  \A i \in 1..Len(h), j \in 1..Len(h) :
     (h[i].op \in RefOps /\ h[j].op \in RefOps /\ h[i].x # h[j].x /\ IsRef(h[i].res) /\ IsRef(h[j].res))
        => h[i].res.n # h[j].res.n
Idempotent(h) == EmbedOnce(h) /\ EmbedSame(h) /\ EncodeOnce(h) /\ OneReference(h) /\ DistinctReferences(h)

(* R3: deferred work runs during Close, first in first out; work enqueued   *)
(* while Close runs is run too.  Q = the queue in enqueue order; Rn = what  *)
(* ran directly from Close (depth 0), in order.                             *)
RECURSIVE SeqOfSet(_, _)
SeqOfSet(h, S) ==    \* the events S in history order
  IF S = {} THEN <<>>
  ELSE LET p == CHOOSE q \in S : \A r \in S : q = r \/ Before(q, r) IN <<Ev(h, p)>> \o SeqOfSet(h, S \ {p})
Enqueued(h) == SeqOfSet(h, {p \in EvIdx(h) : Ev(h, p).k \in {"defer", "sdefer"}})
RanFromClose(h) == SeqOfSet(h, {p \in EvIdx(h) : h[p[1]].op = "Close" /\ Ev(h, p).k \in {"fn", "enc"} /\ Ev(h, p).d = 0})
Same(q, r) == (q.k = "defer" /\ r.k = "fn" /\ q.x = r.x) \/ (q.k = "sdefer" /\ r.k = "enc" /\ q.x = r.x)
(* r is run in queue order: greedy matching of r against q; a stored        *)
(* encoder may be skipped (already written), a deferred function may not    *)
RECURSIVE InOrder(_, _)
InOrder(q, r) ==
  IF r = <<>> THEN TRUE
  ELSE IF q = <<>> THEN FALSE
  ELSE IF Same(Head(q), Head(r)) THEN InOrder(Tail(q), Tail(r))
  ELSE IF Head(q).k = "sdefer" THEN InOrder(Tail(q), r)
  ELSE FALSE
FnRunsOutsideClose(h) == \E p \in EvIdx(h) : Ev(h, p).k = "fn" /\ h[p[1]].op # "Close"
Count(s, P(_)) == Cardinality({i \in 1..Len(s) : P(s[i])})
Fifo(h) ==
  /\ ~FnRunsOutsideClose(h)
  /\ InOrder(Enqueued(h), RanFromClose(h))
  \* by the time Close returns nil every deferred function has run
  /\ \A i \in 1..Len(h) : ClosedOK(h, i) =>
        LET hi == SubSeq(h, 1, i) IN
        Count(Enqueued(hi), LAMBDA e : e.k = "defer") = Count(RanFromClose(hi), LAMBDA e : e.k = "fn")

(* R4: after Close has returned nil nothing is embedded, encoded, written   *)
(* or reserved any more                                                     *)
AfterClose(h) ==
  LET c == FirstClose(h) IN
  c # 0 => \A i \in (c + 1)..Len(h) :
              /\ \A j \in 1..Len(h[i].ev) : h[i].ev[j].k \notin {"emb", "enc", "fn", "put"}
              /\ IsRef(h[i].res) => h[i].res.n \in HandedUpTo(h, c) \cup PutsUpTo(h, c)

(* the manager answers: no call hangs, and it panics at most on a call made *)
(* after Close (where the API has no error result to give)                  *)
Answers(h) ==
  \A i \in 1..Len(h) :
     /\ h[i].res.t # "diverge"
     /\ h[i].res.t = "panic" => (FirstClose(h) # 0 /\ FirstClose(h) < i /\ h[i].op \in {"GetReference", "StoreDeferred"})

HistoryOK(h) == Written(h) /\ NoDuplicatePut(h) /\ Idempotent(h) /\ Fifo(h) /\ AfterClose(h) /\ Answers(h)
=============================================================================
