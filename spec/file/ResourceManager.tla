--------------------------- MODULE ResourceManager ---------------------------
(* pdf.ResourceManager / pdf.EmbedHelper (resource.go) as a state machine.  *)
(*                                                                          *)
(* State of the manager as in the code: embedded (key -> value or           *)
(* reference), reserved (Encoders holding a reference that is not written   *)
(* yet), deferred (queue of functions), isClosed; plus the Writer's next    *)
(* object number.  One action per code path:                                *)
(*   Call                 the client: Embed, EmbedFunc, GetReference, Store,*)
(*                        StoreDeferred, StoreEncoded, Close in any order   *)
(*   EmbedHit/Closed/Cycle/Enter, EmbFinish      EmbedHelper.EmbedAt and    *)
(*                        EmbedHelperEmbedFunc                              *)
(*   StoreCached/Closed/Cycle/Enter, EncFinish   Store and putEncoded       *)
(*   GetRef, StoreDeferredInv, StoreEncodedInv                              *)
(*   CloseAlready/Next/Ret/End, FnFinish         Close and its queue        *)
(*   BodyStep, BodyDefer, BodyRet    the code of the client's Embedders,    *)
(*                        Encoders and deferred functions calling back      *)
(* The client's objects behave according to `world`, chosen from a          *)
(* catalogue when an object first runs (so TLC enumerates only worlds that  *)
(* matter):                                                                 *)
(*   Encoders   val | nil | ref (returns a Reference: error) | fail |       *)
(*              nilres, valres, failres (GetReference(self) first) |        *)
(*              child (Store(other) first) | backref (GetReference(other))  *)
(*   Embedders  val | obj (Alloc + Put, returns the reference) | fail |     *)
(*              other (Embed(other) first) | cycle (Embed(self) first) |    *)
(*              defer (Defer(d1) first); the Embedder "ms": self (AllocSelf *)
(*              + Put) | fail                                               *)
(*   deferred   noop | fail | embed (Embed(m1)) | more (d1 enqueues d2) |   *)
(*              embedat (Alloc + EmbedAt(ref, ms))                          *)
(* A callee's error is passed on by the caller.                             *)
(*                                                                          *)
(* Switches: CycleRecurses and ClosedUnchecked = TRUE give resource.go AS   *)
(* CODED (an Embedder or Encoder that reaches itself recurses for ever;     *)
(* GetReference, Store, StoreDeferred, StoreEncoded do not look at          *)
(* isClosed); FALSE gives the manager the properties demand (the re-entrant *)
(* call fails; after Close these calls fail, GetReference/StoreDeferred --  *)
(* which have no error result -- panic unless the reference exists).        *)
(* LifoQueue and DropReservation are mutations (negative controls).         *)
EXTENDS ResourceManagerRef, TLC

CONSTANTS Enc, Emb, SelfEmb, Keys, Fns,          \* the client's objects (strings)
          EncKinds, EmbKinds, SelfKinds, KeyKinds, FnKinds,
          CallOps, MaxCalls, StepBound,
          CycleRecurses, ClosedUnchecked, LifoQueue, DropReservation

Objects == Enc \cup Emb \cup SelfEmb \cup Keys \cup Fns
Other(x) == CASE x = "e1" -> "e2" [] x = "e2" -> "e1" [] x = "m1" -> "m2" [] x = "m2" -> "m1"
              [] x = "d1" -> "d2" [] x = "d2" -> "d1" [] OTHER -> x
KindsFor(x) == IF x \in Enc THEN EncKinds ELSE IF x \in Emb THEN EmbKinds ELSE IF x \in SelfEmb THEN SelfKinds
               ELSE IF x \in Keys THEN KeyKinds ELSE FnKinds

VARIABLES world, embedded, reserved, deferred, closed, next,
          stack, ret, inprog, cur, hist, steps, phase
vars == <<world, embedded, reserved, deferred, closed, next, stack, ret, inprog, cur, hist, steps, phase>>

R(n) == [t |-> "ref", n |-> n]
V == [t |-> "val"]
Zero == [t |-> "zero"]
OkNil == [t |-> "ok"]
NoRet == [has |-> FALSE]
Ok(v) == [has |-> TRUE, ok |-> TRUE, v |-> v]
Err == [has |-> TRUE, ok |-> FALSE, v |-> [t |-> "err"]]
Panic == [has |-> TRUE, ok |-> FALSE, v |-> [t |-> "panic"]]

Top == stack[Len(stack)]
Below == SubSeq(stack, 1, Len(stack) - 1)
Depth == Cardinality({i \in 1..Len(stack) : stack[i].f = "body"})
Running == phase = "run"
Tick == steps' = steps + 1
HasRef(x) == x \in DOMAIN embedded /\ embedded[x].t = "ref"
Log(e) == cur' = Append(cur, e)

Inv(o, x) == [f |-> "inv", o |-> o, x |-> x, at |-> 0]
InvAt(x, n) == [f |-> "inv", o |-> "embed", x |-> x, at |-> n]
EmbBody(x, kind) ==
  CASE kind = "other" -> [todo |-> <<[o |-> "embed", x |-> Other(x)]>>, fin |-> "obj"]
    [] kind = "cycle" -> [todo |-> <<[o |-> "embed", x |-> x]>>, fin |-> "val"]
    [] kind = "defer" -> [todo |-> <<[o |-> "defer", x |-> "d1"]>>, fin |-> "val"]
    [] OTHER -> [todo |-> <<>>, fin |-> kind]                  \* val | obj | self | fail
EncBody(x, kind) ==
  CASE kind = "nilres" -> [todo |-> <<[o |-> "getref", x |-> x]>>, fin |-> "nil"]
    [] kind = "valres" -> [todo |-> <<[o |-> "getref", x |-> x]>>, fin |-> "val"]
    [] kind = "failres" -> [todo |-> <<[o |-> "getref", x |-> x]>>, fin |-> "fail"]
    [] kind = "child" -> [todo |-> <<[o |-> "store", x |-> Other(x)]>>, fin |-> "val"]
    [] kind = "backref" -> [todo |-> <<[o |-> "getref", x |-> Other(x)]>>, fin |-> "val"]
    [] OTHER -> [todo |-> <<>>, fin |-> kind]                  \* val | nil | ref | fail
FnBody(x, kind) ==
  CASE kind = "embed" -> [todo |-> <<[o |-> "embed", x |-> "m1"]>>, fin |-> "ok"]
    [] kind = "more" -> [todo |-> IF x = "d1" THEN <<[o |-> "defer", x |-> "d2"]>> ELSE <<>>, fin |-> "ok"]
    [] kind = "embedat" -> [todo |-> <<[o |-> "embedat", x |-> "ms"]>>, fin |-> "ok"]
    [] kind = "fail" -> [todo |-> <<>>, fin |-> "fail"]
    [] OTHER -> [todo |-> <<>>, fin |-> "ok"]
BodyOf(b, x, kind) == IF b = "emb" THEN EmbBody(x, kind) ELSE IF b = "enc" THEN EncBody(x, kind) ELSE FnBody(x, kind)
BodyFrame(b, x, kind, self) ==
  [f |-> "body", b |-> b, x |-> x, todo |-> BodyOf(b, x, kind).todo, fin |-> BodyOf(b, x, kind).fin,
   self |-> self, d |-> Depth]

Init ==
  /\ world = [x \in Objects |-> "?"]
  /\ embedded = <<>> /\ reserved = {} /\ deferred = <<>> /\ closed = FALSE /\ next = 1
  /\ stack = <<>> /\ ret = NoRet /\ inprog = {} /\ cur = <<>> /\ hist = <<>>
  /\ steps = 0 /\ phase = "run"

(* ---- the client ---- *)
CallObjects(op) == CASE op = "Embed" -> Emb \cup SelfEmb [] op = "EmbedFunc" -> Keys
                     [] op = "Close" -> {""} [] OTHER -> Enc
InvOp(op) == CASE op = "Embed" -> "embed" [] op = "EmbedFunc" -> "embedfunc" [] op = "GetReference" -> "getref"
               [] op = "Store" -> "store" [] op = "StoreDeferred" -> "sdefer" [] op = "StoreEncoded" -> "senc"
Call ==
  /\ Running /\ stack = <<>> /\ Len(hist) < MaxCalls
  /\ \E op \in CallOps : \E x \in CallObjects(op) :
       stack' = <<[f |-> "top", op |-> op, x |-> x],
                  IF op = "Close" THEN [f |-> "close"] ELSE Inv(InvOp(op), x)>>
  /\ Tick /\ UNCHANGED <<world, embedded, reserved, deferred, closed, next, ret, inprog, cur, hist, phase>>

CallReturn ==
  /\ Running /\ Len(stack) = 1 /\ ret.has
  /\ hist' = Append(hist, [op |-> Top.op, x |-> Top.x, res |-> ret.v, ev |-> cur])
  /\ stack' = <<>> /\ ret' = NoRet /\ cur' = <<>>
  /\ Tick /\ UNCHANGED <<world, embedded, reserved, deferred, closed, next, inprog, phase>>

InvReady(os) == Running /\ stack # <<>> /\ Top.f = "inv" /\ Top.o \in os /\ ~ret.has
Return(r) == stack' = Below /\ ret' = r
UnchangedRM == UNCHANGED <<embedded, reserved, deferred, closed, next>>

(* ---- EmbedHelper.EmbedAt / EmbedHelperEmbedFunc ---- *)
EmbedOps == {"embed", "embedfunc"}
EmbedHit ==        \* already embedded: the cached value, even after Close
  /\ InvReady(EmbedOps) /\ Top.x \in DOMAIN embedded
  /\ Return(Ok(embedded[Top.x]))
  /\ Tick /\ UnchangedRM /\ UNCHANGED <<world, inprog, cur, hist, phase>>
EmbedClosed ==
  /\ InvReady(EmbedOps) /\ Top.x \notin DOMAIN embedded /\ closed
  /\ Return(Err)
  /\ Tick /\ UnchangedRM /\ UNCHANGED <<world, inprog, cur, hist, phase>>
EmbedCycle ==      \* demanded: an Embedder that reaches itself gets an error
  /\ InvReady(EmbedOps) /\ Top.x \notin DOMAIN embedded /\ ~closed
  /\ ~CycleRecurses /\ Top.x \in inprog
  /\ Return(Err)
  /\ Tick /\ UnchangedRM /\ UNCHANGED <<world, inprog, cur, hist, phase>>
EmbedEnter ==      \* r.Embed(e) / f(e, obj) is called; embedded[r] is set only afterwards
  /\ InvReady(EmbedOps) /\ Top.x \notin DOMAIN embedded /\ ~closed
  /\ CycleRecurses \/ Top.x \notin inprog
  /\ \E kind \in (IF world[Top.x] = "?" THEN KindsFor(Top.x) ELSE {world[Top.x]}) :
       /\ world' = [world EXCEPT ![Top.x] = kind]
       /\ stack' = Below \o <<BodyFrame("emb", Top.x, kind, Top.at)>>
  /\ inprog' = inprog \cup {Top.x}
  /\ Tick /\ UnchangedRM /\ UNCHANGED <<ret, cur, hist, phase>>

BodyReady(b) == Running /\ stack # <<>> /\ Top.f = "body" /\ Top.b = b
EmbFinish ==
  /\ BodyReady("emb") /\ Top.todo = <<>> /\ ~ret.has
  /\ inprog' = inprog \ {Top.x}
  /\ CASE Top.fin = "fail" ->
            /\ Return(Err) /\ UnchangedRM
            /\ Log([k |-> "emb", x |-> Top.x, d |-> Top.d, r |-> "err"])
       [] Top.fin = "val" ->
            /\ Return(Ok(V)) /\ embedded' = (Top.x :> V) @@ embedded
            /\ Log([k |-> "emb", x |-> Top.x, d |-> Top.d, r |-> "ok"])
            /\ UNCHANGED <<reserved, deferred, closed, next>>
       [] Top.fin \in {"obj", "self"} ->      \* Alloc (or AllocSelf) + Writer.Put, the reference is the result
            LET n == IF Top.fin = "self" /\ Top.self # 0 THEN Top.self ELSE next IN
            /\ next' = IF n = next THEN next + 1 ELSE next
            /\ Return(Ok(R(n))) /\ embedded' = (Top.x :> R(n)) @@ embedded
            /\ cur' = cur \o <<[k |-> "put", n |-> n], [k |-> "emb", x |-> Top.x, d |-> Top.d, r |-> "ok"]>>
            /\ UNCHANGED <<reserved, deferred, closed>>
  /\ Tick /\ UNCHANGED <<world, hist, phase>>

(* ---- the client's code calling back ---- *)
BodyStep ==
  /\ Running /\ stack # <<>> /\ Top.f = "body" /\ Top.todo # <<>> /\ ~ret.has
  /\ Head(Top.todo).o # "defer"
  /\ LET op == Head(Top.todo)
         fr == [Top EXCEPT !.todo = Tail(@)] IN
     IF op.o = "embedat"                         \* ref := e.Alloc(); e.EmbedAt(ref, x)
     THEN stack' = Below \o <<fr, InvAt(op.x, next)>> /\ next' = next + 1
     ELSE stack' = Below \o <<fr, Inv(op.o, op.x)>> /\ UNCHANGED next
  /\ Tick /\ UNCHANGED <<world, embedded, reserved, deferred, closed, ret, inprog, cur, hist, phase>>
BodyDefer ==       \* EmbedHelper.Defer
  /\ Running /\ stack # <<>> /\ Top.f = "body" /\ Top.todo # <<>> /\ ~ret.has
  /\ Head(Top.todo).o = "defer"
  /\ deferred' = Append(deferred, [k |-> "d", x |-> Head(Top.todo).x])
  /\ Log([k |-> "defer", x |-> Head(Top.todo).x])
  /\ stack' = Below \o <<[Top EXCEPT !.todo = Tail(@)]>>
  /\ Tick /\ UNCHANGED <<world, embedded, reserved, closed, next, ret, inprog, hist, phase>>
BodyRet ==         \* a callee returned: go on, or pass its error on
  /\ Running /\ stack # <<>> /\ Top.f = "body" /\ ret.has
  /\ IF ret.ok THEN stack' = stack /\ ret' = NoRet
     ELSE stack' = Below \o <<[Top EXCEPT !.todo = <<>>, !.fin = "fail"]>> /\ ret' = NoRet
  /\ Tick /\ UnchangedRM /\ UNCHANGED <<world, inprog, cur, hist, phase>>

(* ---- GetReference ---- *)
GetRef ==
  /\ InvReady({"getref"})
  /\ IF HasRef(Top.x) THEN Return(Ok(embedded[Top.x])) /\ UNCHANGED <<embedded, reserved, next>>
     ELSE IF closed /\ ~ClosedUnchecked THEN Return(Panic) /\ UNCHANGED <<embedded, reserved, next>>
     ELSE /\ Return(Ok(R(next))) /\ next' = next + 1
          /\ embedded' = (Top.x :> R(next)) @@ embedded
          /\ reserved' = IF DropReservation THEN reserved ELSE reserved \cup {Top.x}
  /\ Tick /\ UNCHANGED <<world, deferred, closed, inprog, cur, hist, phase>>

StoreDeferredInv ==    \* GetReference, then the store is queued
  /\ InvReady({"sdefer"})
  /\ LET refuse == closed /\ ~ClosedUnchecked
         n == IF HasRef(Top.x) THEN embedded[Top.x].n ELSE next IN
     IF refuse /\ ~HasRef(Top.x)
     THEN Return(Panic) /\ UNCHANGED <<embedded, reserved, next, deferred, cur>>
     ELSE /\ Return(Ok(R(n)))
          /\ next' = IF n = next THEN next + 1 ELSE next
          /\ embedded' = (Top.x :> R(n)) @@ embedded
          /\ reserved' = IF HasRef(Top.x) THEN reserved ELSE reserved \cup {Top.x}
          /\ deferred' = IF refuse THEN deferred ELSE Append(deferred, [k |-> "sd", x |-> Top.x])
          /\ Log([k |-> "sdefer", x |-> Top.x])
  /\ Tick /\ UNCHANGED <<world, closed, inprog, hist, phase>>

(* ---- Store, putEncoded, StoreEncoded ---- *)
StoreCached ==
  /\ InvReady({"store"}) /\ HasRef(Top.x) /\ Top.x \notin reserved
  /\ Return(Ok(embedded[Top.x]))
  /\ Tick /\ UnchangedRM /\ UNCHANGED <<world, inprog, cur, hist, phase>>
StoreClosed ==
  /\ InvReady({"store"}) /\ ~(HasRef(Top.x) /\ Top.x \notin reserved)
  /\ closed /\ ~ClosedUnchecked
  /\ Return(Err)
  /\ Tick /\ UnchangedRM /\ UNCHANGED <<world, inprog, cur, hist, phase>>
StoreCycle ==
  /\ InvReady({"store"}) /\ ~(HasRef(Top.x) /\ Top.x \notin reserved)
  /\ ~(closed /\ ~ClosedUnchecked)
  /\ ~CycleRecurses /\ Top.x \in inprog
  /\ Return(Err)
  /\ Tick /\ UnchangedRM /\ UNCHANGED <<world, inprog, cur, hist, phase>>
StoreEnter ==      \* enc.Encode(rm) is called
  /\ InvReady({"store"}) /\ ~(HasRef(Top.x) /\ Top.x \notin reserved)
  /\ ~(closed /\ ~ClosedUnchecked)
  /\ CycleRecurses \/ Top.x \notin inprog
  /\ \E kind \in (IF world[Top.x] = "?" THEN KindsFor(Top.x) ELSE {world[Top.x]}) :
       /\ world' = [world EXCEPT ![Top.x] = kind]
       /\ stack' = Below \o <<BodyFrame("enc", Top.x, kind, 0)>>
  /\ inprog' = inprog \cup {Top.x}
  /\ Tick /\ UnchangedRM /\ UNCHANGED <<ret, cur, hist, phase>>
EncFinish ==
  /\ BodyReady("enc") /\ Top.todo = <<>> /\ ~ret.has
  /\ inprog' = inprog \ {Top.x}
  /\ CASE Top.fin = "fail" ->
            /\ Return(Err) /\ UnchangedRM /\ Log([k |-> "enc", x |-> Top.x, d |-> Top.d, r |-> "err"])
       [] Top.fin = "ref" ->        \* "encode must not return a reference"
            /\ Return(Err) /\ UnchangedRM /\ Log([k |-> "enc", x |-> Top.x, d |-> Top.d, r |-> "ref"])
       [] Top.fin = "nil" ->        \* nothing written: the reserved reference if there is one, else zero
            /\ Return(Ok(IF HasRef(Top.x) THEN embedded[Top.x] ELSE Zero)) /\ UnchangedRM
            /\ Log([k |-> "enc", x |-> Top.x, d |-> Top.d, r |-> "nil"])
       [] Top.fin = "val" ->        \* putEncoded: at the reserved reference or a fresh one
            LET n == IF HasRef(Top.x) THEN embedded[Top.x].n ELSE next IN
            /\ next' = IF n = next THEN next + 1 ELSE next
            /\ embedded' = (Top.x :> R(n)) @@ embedded
            /\ reserved' = reserved \ {Top.x}
            /\ Return(Ok(R(n)))
            /\ cur' = cur \o <<[k |-> "enc", x |-> Top.x, d |-> Top.d, r |-> "val"], [k |-> "put", n |-> n]>>
            /\ UNCHANGED <<deferred, closed>>
  /\ Tick /\ UNCHANGED <<world, hist, phase>>

PutSoFar == {cur[j].n : j \in {i \in 1..Len(cur) : cur[i].k = "put"}} \cup PutsUpTo(hist, Len(hist))
StoreEncodedInv ==
  /\ InvReady({"senc"})
  /\ IF closed /\ ~ClosedUnchecked THEN Return(Err) /\ UNCHANGED <<embedded, reserved, next, cur>>
     ELSE LET n == IF HasRef(Top.x) THEN embedded[Top.x].n ELSE next IN
          IF n \in PutSoFar                   \* the Writer refuses a second object n (errDuplicateRef)
          THEN Return(Err) /\ UNCHANGED <<embedded, reserved, next, cur>>
          ELSE /\ next' = IF n = next THEN next + 1 ELSE next
               /\ embedded' = (Top.x :> R(n)) @@ embedded
               /\ reserved' = reserved \ {Top.x}
               /\ Return(Ok(R(n))) /\ Log([k |-> "put", n |-> n])
  /\ Tick /\ UNCHANGED <<world, deferred, closed, inprog, hist, phase>>

(* ---- Close ---- *)
InClose == Running /\ stack # <<>> /\ Top.f = "close"
CloseAlready ==
  /\ InClose /\ ~ret.has /\ closed
  /\ Return(Ok(OkNil))
  /\ Tick /\ UnchangedRM /\ UNCHANGED <<world, inprog, cur, hist, phase>>
CloseNext ==       \* the head of the queue is removed and run with a fresh EmbedHelper
  /\ InClose /\ ~ret.has /\ ~closed /\ deferred # <<>>
  /\ LET i == IF LifoQueue THEN Len(deferred) ELSE 1
         it == deferred[i] IN
     /\ deferred' = SubSeq(deferred, 1, i - 1) \o SubSeq(deferred, i + 1, Len(deferred))
     /\ IF it.k = "sd" THEN stack' = Append(stack, Inv("store", it.x)) /\ UNCHANGED world
        ELSE \E kind \in (IF world[it.x] = "?" THEN KindsFor(it.x) ELSE {world[it.x]}) :
               /\ world' = [world EXCEPT ![it.x] = kind]
               /\ stack' = Append(stack, BodyFrame("fn", it.x, kind, 0))
  /\ Tick /\ UNCHANGED <<embedded, reserved, closed, next, ret, inprog, cur, hist, phase>>
FnFinish ==
  /\ BodyReady("fn") /\ Top.todo = <<>> /\ ~ret.has
  /\ Return(IF Top.fin = "fail" THEN Err ELSE Ok(OkNil))
  /\ Log([k |-> "fn", x |-> Top.x, d |-> Top.d, r |-> IF Top.fin = "fail" THEN "err" ELSE "ok"])
  /\ Tick /\ UnchangedRM /\ UNCHANGED <<world, inprog, hist, phase>>
CloseRet ==        \* an error of a deferred function ends Close; the rest of the queue stays
  /\ InClose /\ ret.has
  /\ IF ret.ok THEN stack' = stack /\ ret' = NoRet ELSE Return(Err)
  /\ Tick /\ UnchangedRM /\ UNCHANGED <<world, inprog, cur, hist, phase>>
CloseEnd ==        \* "reference reserved but never written", else the manager is closed
  /\ InClose /\ ~ret.has /\ ~closed /\ deferred = <<>>
  /\ IF reserved # {} THEN Return(Err) /\ UNCHANGED closed
     ELSE Return(Ok(OkNil)) /\ closed' = TRUE
  /\ Tick /\ UNCHANGED <<world, embedded, reserved, deferred, next, inprog, cur, hist, phase>>

Finish ==
  /\ phase = "run" /\ stack = <<>>
  /\ phase' = "done"
  /\ UNCHANGED <<world, embedded, reserved, deferred, closed, next, stack, ret, inprog, cur, hist, steps>>
Done == phase = "done" /\ UNCHANGED vars

Next == \/ Call \/ CallReturn \/ EmbedHit \/ EmbedClosed \/ EmbedCycle \/ EmbedEnter \/ EmbFinish
        \/ BodyStep \/ BodyDefer \/ BodyRet \/ GetRef \/ StoreDeferredInv
        \/ StoreCached \/ StoreClosed \/ StoreCycle \/ StoreEnter \/ EncFinish \/ StoreEncodedInv
        \/ CloseAlready \/ CloseNext \/ FnFinish \/ CloseRet \/ CloseEnd \/ Finish \/ Done
Spec == Init /\ [][Next]_vars

-----------------------------------------------------------------------------
(* the properties, on the observable history *)
Terminates == steps <= StepBound /\ Len(stack) <= StepBound
AtRest == stack = <<>>
WrittenInv == AtRest => Written(hist)
NoDupInv == AtRest => NoDuplicatePut(hist)
IdempotentInv == AtRest => Idempotent(hist)
FifoInv == AtRest => Fifo(hist)
AfterCloseInv == AtRest => AfterClose(hist)
AnswersInv == AtRest => Answers(hist)
(* consistency of the code-shaped state with the history *)
ReservedUnwritten == AtRest => \A x \in reserved : HasRef(x) /\ embedded[x].n \notin PutsUpTo(hist, Len(hist))
ClosedClean == (AtRest /\ closed) => (reserved = {} /\ deferred = <<>>)
=============================================================================
