---------------------------- MODULE Gen_IOFault ----------------------------
(* The layer operations the model's programs are made of, per document      *)
(* shape of MC_IOFault.  The harness maps every real fault site (the        *)
(* go-pdf function that issued the failing ReadAt / Write / Seek) to one of *)
(* these and reports which of them real faults have exercised; for the      *)
(* operations whose errors the code ignores (ign = TRUE) it counts how      *)
(* often the real call indeed returned without an error.                    *)
EXTENDS MC_IOFault, Json, IOUtils
RECURSIVE SeqToSet(_)
SeqToSet(q) == IF q = <<>> THEN {} ELSE {Head(q)} \cup SeqToSet(Tail(q))
ReadOps(d) == UNION {{x.t : x \in SeqToSet(ProgOf(d, Calls(d)[j]))} : j \in 1..Len(Calls(d))} \cup {"find", "trim"}
WriteOps(d) == {x.t : x \in SeqToSet(WStream(d.seek))} \cup {"bw", "flush"}
Rows == {[side |-> "read", op |-> t, ign |-> t \in {"probe", "len", "trim"}] : t \in UNION {ReadOps(d) : d \in AllDocs}}
        \cup {[side |-> "write", op |-> t, ign |-> t = "flushI"] : t \in UNION {WriteOps(d) : d \in AllDocs}}
RECURSIVE SetToSeq0(_)
SetToSeq0(S) == IF S = {} THEN <<>> ELSE LET x == CHOOSE x \in S : TRUE IN <<x>> \o SetToSeq0(S \ {x})
ASSUME ndJsonSerialize(IOEnv.OUT, SetToSeq0(Rows))
=============================================================================
