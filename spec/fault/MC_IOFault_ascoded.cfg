\* negative control: the code at the pinned commit; must FAIL NoSwallowedOpen (F7a, F7b)
SPECIFICATION Spec
CONSTANTS Docs <- AllDocs
  Modes <- AllModes
  MaxK = 24
  RECOVER_SWALLOWS = TRUE
  HELPERS_IGNORE = TRUE
  SOURCE_AWARE = TRUE
  BUFIO_STICKY = TRUE
INVARIANTS TypeOK WriteProperty FaultFree NoSwallowedOpen
CHECK_DEADLOCK FALSE
