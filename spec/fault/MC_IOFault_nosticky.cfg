\* negative control: a bufio.Writer that forgets its error; must FAIL WriteProperty
SPECIFICATION Spec
CONSTANTS Docs <- SmallDocs
  Modes <- AllModes
  MaxK = 16
  RECOVER_SWALLOWS = FALSE
  HELPERS_IGNORE = FALSE
  SOURCE_AWARE = TRUE
  BUFIO_STICKY = FALSE
INVARIANTS TypeOK WriteProperty
CHECK_DEADLOCK FALSE
