INIT Init
NEXT Next
CONSTANTS Docs = {}
  Modes = {}
  MaxK = 0
  RECOVER_SWALLOWS = TRUE
  HELPERS_IGNORE = TRUE
  SOURCE_AWARE = TRUE
  BUFIO_STICKY = TRUE
CHECK_DEADLOCK FALSE
