------------------------------ MODULE IOFault ------------------------------
(* C19.  I/O failures surface as I/O failures.                              *)
(*                                                                          *)
(* Read side: a layered latch machine.  Every API call of a scenario        *)
(*   Open(mode) ; Get(o) for every object ; Decode(o) for every stream      *)
(* is a little program of abstract reads; the byte source fails according   *)
(* to a fault plan (failFrom(k): every ReadAt from the k-th on, failOnly(k):*)
(* only the k-th), either delivering nothing or part of the data with the   *)
(* error.  The layers between the source and the caller:                    *)
(*   scan   scanner.refill: the first non-EOF error is latched; data that   *)
(*          arrived with it is still delivered, the error comes with the    *)
(*          next refill (scanner.go)                                        *)
(*   raw    findHeaderOffset, lastOccurence: the error is returned          *)
(*   probe  endstreamAt: ReadAt errors are ignored, the declared /Length is *)
(*          then distrusted and the extent recovered by a search            *)
(*   len    an indirect /Length is resolved through Get; an error is        *)
(*          ignored (ReadStreamData), then recovery as above                *)
(*   trim   trimTrailingEOL: ReadAt errors are ignored                      *)
(*   data   streamReader -> sourceErrChecker (sticky) -> filters            *)
(*          (asMalformedFilter re-labels every error as malformed) ->       *)
(*          sourceAwareReader (the sticky source error overrides whatever   *)
(*          the filters report, EOF included)                               *)
(*   opt    Optional(): hides malformed errors only                         *)
(* and NewReader's steps FindHeader, Version, FindXRef, Section, Encrypt,   *)
(* Catalog, DecodeCatalog, Info with the shouldExit policy of each mode.    *)
(*                                                                          *)
(* Write side: the Writer's calls as programs of sink operations: writes    *)
(* through bufio.Writer (sticky error), Placeholder.Set flushing (result    *)
(* ignored), seeking and writing on the raw sink, the final Flush in Close. *)
(*                                                                          *)
(* The switches select the code as it is at the pinned commit (all TRUE) or *)
(* the behaviour the property demands:                                      *)
(*   RECOVER_SWALLOWS  shouldExit ignores every error in ErrorHandling-     *)
(*                     Recover (TRUE) / lets non-malformed errors exit      *)
(*   HELPERS_IGNORE    probe/len/trim ignore read errors (TRUE) / return    *)
(*                     them                                                 *)
(*   SOURCE_AWARE      sourceAwareReader present                            *)
(*   BUFIO_STICKY      bufio.Writer keeps its first error                   *)
EXTENDS Integers, Sequences, FiniteSets, TLC, IOFaultRef

CONSTANTS Docs,              \* document shapes (records, see MC_IOFault)
          Modes,             \* subset of {"recover", "report", "stop"}
          MaxK,              \* fault positions 1..MaxK (beyond the scenario's reads: no fault)
          RECOVER_SWALLOWS, HELPERS_IGNORE, SOURCE_AWARE, BUFIO_STICKY

\* ------------------------------------------------------------ fault plans
Faulty(plan, k, i) == IF plan = "failFrom" THEN i >= k ELSE i = k

\* ------------------------------------------------------ read side programs
\* object kinds: "plain"; "stm" stream with direct /Length; "stmE" same, body
\* ends in an EOL; "istmE" indirect /Length (held by another object), body
\* ends in an EOL; "fstm" filtered stream (direct /Length)
IsStream(o) == o \in {"stm", "stmE", "istmE", "fstm"}
EndsEOL(o) == o \in {"stmE", "istmE"}
Op(t) == [t |-> t]
\* reading the indirect object that holds a stream: header+dictionary, then
\* the /Length business
GetProg(o) ==
  IF ~IsStream(o) THEN <<Op("scan")>>
  ELSE IF o = "istmE" THEN <<Op("scan"), Op("len"), Op("probe")>>
  ELSE <<Op("scan"), Op("probe")>>
\* recovery of the stream extent after the declared /Length was distrusted:
\* Find(endstreamPat) on the scanner (a refill unless the stream is still in
\* the buffer), then trimTrailingEOL
RecoveryProg(op) == IF "st" \in DOMAIN op THEN <<[t |-> "find", st |-> op.st], [t |-> "trim", st |-> op.st]>>
                    ELSE <<Op("find"), Op("trim")>>
DecodeProg(o) == <<Op("data"), Op("data")>>
OpenProg(d) ==
  <<[t |-> "raw", st |-> "FindHeader"], [t |-> "scan", st |-> "Version"],
    [t |-> "raw", st |-> "FindXRef"], [t |-> "scan", st |-> "FindXRef"], [t |-> "scan", st |-> "Section"]>>
  \o (IF d.xref = "stream" THEN <<[t |-> "probe", st |-> "Section"], [t |-> "data", st |-> "Section"]>> ELSE <<>>)
  \o (IF d.enc THEN <<[t |-> "scan", st |-> "Encrypt"]>> ELSE <<>>)
  \o <<[t |-> "scan", st |-> "Catalog"]>>
  \o (IF d.info THEN <<[t |-> "scan", st |-> "Info"], [t |-> "opt", st |-> "Info"]>> ELSE <<>>)

\* the scenario: sequence of calls
Calls(d) == <<[c |-> "open", o |-> 0]>>
            \o [i \in 1..Len(d.objs) |-> [c |-> "get", o |-> i]]
            \o SelectSeq([i \in 1..Len(d.objs) |-> [c |-> "decode", o |-> i]], LAMBDA x : IsStream(d.objs[x.o]))
ProgOf(d, call) == IF call.c = "open" THEN OpenProg(d)
                   ELSE IF call.c = "get" THEN GetProg(d.objs[call.o])
                   ELSE DecodeProg(d.objs[call.o])

\* shouldExit(err) for an error that is not a MalformedFileError
ExitsOnIOError(mode) == IF mode = "recover" THEN ~RECOVER_SWALLOWS ELSE TRUE

\* ------------------------------------------------------------------ state
VARIABLES side,     \* "?", "read", "write"
          fin,      \* the scenario is over
          doc, mode, plan, k, part,   \* the scenario and the fault (part: data comes with the error)
          nio,      \* source / sink operations performed so far
          failed,   \* some source / sink operation has failed
          ci,       \* current call (index into Calls / WCalls), 0 when between
          prog, pc, \* its program and position
          latch,    \* scanner.err set, not yet returned
          srcErr,   \* sourceErrChecker.srcErr
          short,    \* per object: Get returned a stream whose extent lost its final EOL
          lost,     \* Open swallowed an error at these steps
          out,      \* outcomes of the finished calls
          berr      \* write side: bufio.Writer holds an error
vars == <<side, fin, doc, mode, plan, k, part, nio, failed, ci, prog, pc, latch, srcErr, short, lost, out, berr>>

Init == /\ side = "?" /\ fin = FALSE /\ doc = [xref |-> "table", enc |-> FALSE, info |-> FALSE, objs |-> <<>>, seek |-> FALSE]
        /\ mode = "stop" /\ plan = "failOnly" /\ k = 0 /\ part = FALSE
        /\ nio = 0 /\ failed = FALSE /\ ci = 0 /\ prog = <<>> /\ pc = 0 /\ latch = FALSE /\ srcErr = FALSE
        /\ short = {} /\ lost = {} /\ out = <<>> /\ berr = FALSE

Choose(s, d, m, p, kk, pt) ==
  /\ side = "?"
  /\ side' = s /\ fin' = FALSE /\ doc' = d /\ mode' = m /\ plan' = p /\ k' = kk /\ part' = pt
  /\ UNCHANGED <<nio, failed, ci, prog, pc, latch, srcErr, short, lost, out, berr>>

\* --------------------------------------------------------------- read side
OK == [cls |-> "ok", same |-> TRUE, carries |-> FALSE, malformed |-> FALSE]
Differs == [cls |-> "ok", same |-> FALSE, carries |-> FALSE, malformed |-> FALSE]
IOErr == [cls |-> "err", same |-> FALSE, carries |-> TRUE, malformed |-> FALSE]
Relabelled == [cls |-> "err", same |-> FALSE, carries |-> TRUE, malformed |-> TRUE]   \* asMalformedFilter
OwnErr == [cls |-> "err", same |-> FALSE, carries |-> FALSE, malformed |-> TRUE]      \* e.g. "no pages", flate: unexpected EOF

RCalls == Calls(doc)
StartCall == /\ side = "read" /\ ~fin /\ ci = 0 /\ Len(out) < Len(RCalls)
             /\ ci' = Len(out) + 1
             /\ prog' = ProgOf(doc, RCalls[Len(out) + 1]) /\ pc' = 1
             /\ latch' = FALSE /\ srcErr' = FALSE
             /\ UNCHANGED <<side, fin, doc, mode, plan, k, part, nio, failed, short, lost, out, berr>>
\* a call ends with outcome o; a failed Open ends the scenario
Finish(o) == /\ out' = Append(out, o) /\ ci' = 0 /\ prog' = <<>> /\ pc' = 0
             /\ fin' = (RCalls[ci].c = "open" /\ o.cls = "err") /\ UNCHANGED side
Continue == pc' = pc + 1 /\ UNCHANGED <<out, ci, prog, side, fin>>
ReadFails == Faulty(plan, k, nio + 1)
Cur == prog[pc]
InOpen == RCalls[ci].c = "open"

\* Open: an I/O error at a step.  FindHeader..Encrypt return it in every
\* mode; Catalog and Info go through shouldExit
OpenError(st) ==
  IF st \in {"Catalog", "Info"} /\ ~ExitsOnIOError(mode)
  THEN lost' = lost \cup {st} /\ Continue
  ELSE Finish(IOErr) /\ UNCHANGED lost
CallError == IF InOpen THEN OpenError(Cur.st) ELSE Finish(IOErr) /\ UNCHANGED lost

\* scanner.refill (also Find): a latched error is returned without reading
Scan == /\ side = "read" /\ ci # 0 /\ pc <= Len(prog) /\ Cur.t \in {"scan", "find"}
        /\ IF latch
           THEN CallError /\ UNCHANGED <<nio, failed, latch>>
           ELSE \/ \* the stream is still in the buffer: Find needs no refill
                   /\ Cur.t = "find" /\ Continue /\ UNCHANGED <<nio, failed, latch, lost>>
                \/ /\ nio' = nio + 1
                   /\ IF ReadFails
                      THEN /\ failed' = TRUE
                           /\ IF part THEN latch' = TRUE /\ Continue /\ UNCHANGED lost   \* data delivered, error kept
                              ELSE CallError /\ UNCHANGED latch
                      ELSE Continue /\ UNCHANGED <<failed, latch, lost>>
        /\ UNCHANGED <<doc, mode, plan, k, part, srcErr, short, berr>>
Raw == /\ side = "read" /\ ci # 0 /\ pc <= Len(prog) /\ Cur.t = "raw"
       /\ nio' = nio + 1
       /\ IF ReadFails THEN failed' = TRUE /\ CallError ELSE Continue /\ UNCHANGED <<failed, lost>>
       /\ UNCHANGED <<doc, mode, plan, k, part, latch, srcErr, short, berr>>
\* endstreamAt / resolving an indirect /Length: on a read error the declared
\* length is given up (as coded) and the recovery program is spliced in
Helper == /\ side = "read" /\ ci # 0 /\ pc <= Len(prog) /\ Cur.t \in {"probe", "len"}
          /\ nio' = nio + 1
          /\ IF ReadFails
             THEN /\ failed' = TRUE
                  /\ IF HELPERS_IGNORE
                     THEN /\ prog' = SubSeq(prog, 1, pc) \o RecoveryProg(Cur) \o
                                      SelectSeq(SubSeq(prog, pc + 1, Len(prog)), LAMBDA x : x.t # "probe")
                          /\ pc' = pc + 1 /\ UNCHANGED <<out, ci, side, fin, lost>>
                     ELSE CallError
             ELSE Continue /\ UNCHANGED <<failed, lost>>
          /\ UNCHANGED <<doc, mode, plan, k, part, latch, srcErr, short, berr>>
\* trimTrailingEOL: a successful read removes an EOL from the body although
\* the marker before "endstream" is gone already; a failed read trims nothing
Trim == /\ side = "read" /\ ci # 0 /\ pc <= Len(prog) /\ Cur.t = "trim"
        /\ nio' = nio + 1
        /\ IF ReadFails
           THEN failed' = TRUE /\ UNCHANGED short
           ELSE /\ UNCHANGED failed
                /\ short' = IF ~InOpen /\ EndsEOL(doc.objs[RCalls[ci].o]) THEN short \cup {RCalls[ci].o} ELSE short
        /\ Continue
        /\ UNCHANGED <<doc, mode, plan, k, part, latch, srcErr, lost, berr>>
\* stream data through sourceErrChecker, the filters and sourceAwareReader
FilterSays == {Relabelled, OwnErr, Differs}      \* relabelled error / the filter's own error / premature EOF
Data == /\ side = "read" /\ ci # 0 /\ pc <= Len(prog) /\ Cur.t = "data"
        /\ nio' = nio + 1
        /\ IF ReadFails
           THEN /\ failed' = TRUE /\ srcErr' = TRUE
                /\ \E f \in (IF ~InOpen /\ doc.objs[RCalls[ci].o] # "fstm" THEN {IOErr} ELSE FilterSays) :
                      LET o == IF SOURCE_AWARE THEN IOErr ELSE f
                      IN IF InOpen THEN (IF o.cls = "err" THEN Finish(o) ELSE Continue) /\ UNCHANGED lost
                         ELSE Finish(o) /\ UNCHANGED lost
           ELSE Continue /\ UNCHANGED <<failed, srcErr, lost>>
        /\ UNCHANGED <<doc, mode, plan, k, part, latch, short, berr>>
\* Optional(): passes I/O errors, hides malformed ones (nothing to hide here:
\* the step performs no read of its own)
Opt == /\ side = "read" /\ ci # 0 /\ pc <= Len(prog) /\ Cur.t = "opt"
       /\ Continue
       /\ UNCHANGED <<doc, mode, plan, k, part, nio, failed, latch, srcErr, short, lost, berr>>
\* the program is through
EndCall ==
  /\ side = "read" /\ ci # 0 /\ pc = Len(prog) + 1
  /\ LET call == RCalls[ci]
         o == IF call.c = "open"
              THEN IF "Catalog" \in lost THEN OwnErr          \* "no pages in PDF document catalog"
                   ELSE IF "Info" \in lost THEN Differs       \* Reader without Info
                   ELSE OK
              ELSE IF call.c = "decode" /\ call.o \in short THEN Differs
              ELSE OK
     IN Finish(o)
  /\ UNCHANGED <<doc, mode, plan, k, part, nio, failed, latch, srcErr, short, lost, berr>>
EndRead == /\ side = "read" /\ ~fin /\ ci = 0 /\ Len(out) = Len(RCalls)
           /\ fin' = TRUE
           /\ UNCHANGED <<side, doc, mode, plan, k, part, nio, failed, ci, prog, pc, latch, srcErr, short, lost, out, berr>>

\* -------------------------------------------------------------- write side
\* Writer calls as programs of sink-level operations.  bw: a write into
\* bufio.Writer (reaches the sink only when the buffer spills); flushI:
\* Placeholder.Set's Flush, result ignored; seek / raw: on the sink itself;
\* flush: Close.
WStream(seek) == IF seek THEN <<Op("bw"), Op("bw"), Op("flushI"), Op("seek"), Op("seek"), Op("raw"), Op("seek"), Op("bw")>>
                 ELSE <<Op("bw"), Op("bw"), Op("bw")>>
WCalls == <<[c |-> "NewWriter", p |-> <<Op("bw")>>]>>
          \o [i \in 1..Len(doc.objs) |->
                IF IsStream(doc.objs[i]) THEN [c |-> "Stream", p |-> WStream(doc.seek)] ELSE [c |-> "Put", p |-> <<Op("bw")>>]]
          \o <<[c |-> "Close", p |-> <<Op("bw"), Op("bw"), Op("flush")>>]>>
WOK == [cls |-> "ok", carries |-> FALSE]
WErr == [cls |-> "err", carries |-> TRUE]
WStart == /\ side = "write" /\ ~fin /\ ci = 0 /\ Len(out) < Len(WCalls)
          /\ ci' = Len(out) + 1 /\ prog' = WCalls[Len(out) + 1].p /\ pc' = 1
          /\ UNCHANGED <<side, fin, doc, mode, plan, k, part, nio, failed, latch, srcErr, short, lost, out, berr>>
\* the harness stops at the first Writer call that returns an error
WFinish(o) == /\ out' = Append(out, o) /\ ci' = 0 /\ prog' = <<>> /\ pc' = 0
              /\ fin' = (o.cls = "err") /\ UNCHANGED side
SinkFails == Faulty(plan, k, nio + 1)
WBuf == /\ side = "write" /\ ci # 0 /\ pc <= Len(prog) /\ Cur.t \in {"bw", "flush", "flushI"}
        /\ IF berr
           THEN \* bufio returns its error without touching the sink
                /\ (IF Cur.t = "flushI" THEN Continue ELSE WFinish(WErr))
                /\ UNCHANGED <<nio, failed, berr>>
           ELSE \/ /\ Cur.t = "bw" /\ Continue /\ UNCHANGED <<nio, failed, berr>>     \* stays in the buffer
                \/ /\ nio' = nio + 1                                                \* spills / flushes
                   /\ IF SinkFails
                      THEN /\ failed' = TRUE /\ berr' = BUFIO_STICKY
                           /\ (IF Cur.t = "flushI" THEN Continue ELSE WFinish(WErr))
                      ELSE Continue /\ UNCHANGED <<failed, berr>>
        /\ UNCHANGED <<doc, mode, plan, k, part, latch, srcErr, short, lost>>
WRaw == /\ side = "write" /\ ci # 0 /\ pc <= Len(prog) /\ Cur.t \in {"seek", "raw"}
        /\ nio' = nio + 1
        /\ IF SinkFails THEN failed' = TRUE /\ WFinish(WErr) ELSE Continue /\ UNCHANGED failed
        /\ UNCHANGED <<doc, mode, plan, k, part, latch, srcErr, short, lost, berr>>
WEndCall == /\ side = "write" /\ ci # 0 /\ pc = Len(prog) + 1
            /\ WFinish(WOK)
            /\ UNCHANGED <<doc, mode, plan, k, part, nio, failed, latch, srcErr, short, lost, berr>>
WEnd == /\ side = "write" /\ ~fin /\ ci = 0 /\ Len(out) = Len(WCalls)
        /\ fin' = TRUE
        /\ UNCHANGED <<side, doc, mode, plan, k, part, nio, failed, ci, prog, pc, latch, srcErr, short, lost, out, berr>>

Next == \/ \E s \in {"read", "write"}, d \in Docs, m \in Modes, p \in {"failFrom", "failOnly"}, kk \in 1..MaxK, pt \in BOOLEAN :
             Choose(s, d, m, p, kk, pt)
        \/ StartCall \/ Scan \/ Raw \/ Helper \/ Trim \/ Data \/ Opt \/ EndCall \/ EndRead
        \/ WStart \/ WBuf \/ WRaw \/ WEndCall \/ WEnd
Spec == Init /\ [][Next]_vars

\* ------------------------------------------------------------- invariants
IsWrite == side = "write"
\* every finished call of the read side has an admissible outcome
ReadProperty == side = "read" => \A i \in 1..Len(out) : RefReadOutcomeOK(out[i])
\* one invariant per defect class, for the negative controls
NoSwallowedOpen == side = "read" => \A i \in 1..Len(out) : (RCalls[i].c = "open") => RefReadOutcomeOK(out[i])
NoSilentlyShortStream == side = "read" => \A i \in 1..Len(out) : (RCalls[i].c = "decode") => RefReadOutcomeOK(out[i])
\* write side: a failed sink operation is reported no later than Close
WriteProperty == (IsWrite /\ fin) => RefWriteOK(failed, out)
\* without a fault every call gives the fault-free outcome
FaultFree == (side = "read" /\ ~failed) => \A i \in 1..Len(out) : out[i] = OK
TypeOK == /\ side \in {"?", "read", "write"}
          /\ nio \in 0..200
=============================================================================
