--------------------------- MODULE Trace_IOFault ---------------------------
(* Judges runs of the real code under injected I/O faults against property  *)
(* C19 (module IOFaultRef; nothing implementation-shaped is used).          *)
(* One record = one run of a scenario with one fault plan:                  *)
(*   read side   [side |-> "read", hit, calls: <<[cls, same, carries,       *)
(*                malformed]>>]   one entry per API call made (NewReader,   *)
(*                Get, DecodeStream+drain, Decode), compared with the       *)
(*                fault-free run of the same scenario                       *)
(*   write side  [side |-> "write", hit, rhit, same, outs: <<[cls,          *)
(*                carries]>>]  the Writer calls up to the first failing one *)
(*                or Close; hit: a Write or Seek of the sink failed; rhit:  *)
(*                a Read of the sink (Writer.Get) failed; same: the bytes   *)
(*                in the sink equal those of the fault-free session         *)
(* hit (read side): the planned source operation was reached and failed.    *)
EXTENDS IOFaultRef, TraceLib

Cases == Records
RunOK(r) ==
  IF r.side = "read"
  THEN /\ \A j \in 1..Len(r.calls) : RefReadOutcomeOK(r.calls[j])
       /\ ~r.hit => \A j \in 1..Len(r.calls) : r.calls[j].same     \* no fault, no difference
  ELSE /\ RefWriteOK(r.hit, r.outs)
       \* a failed READ of the sink (Writer.Get reading an object back) is a
       \* matter of the read-side clause: the call fails carrying the error, or
       \* nothing shows
       /\ (~r.hit /\ r.rhit) => \A j \in 1..Len(r.outs) : r.outs[j].cls = "ok" \/ r.outs[j].carries
       /\ (~r.hit /\ ~r.rhit) => \A j \in 1..Len(r.outs) : r.outs[j].cls = "ok"
       \* a session that ends without an error has produced the fault-free bytes
       /\ (\A j \in 1..Len(r.outs) : r.outs[j].cls = "ok") => r.same

VARIABLES i, bad, done
tvars == <<i, bad, done>>
TInit == i = 1 /\ bad = <<>> /\ done = FALSE
Step == /\ i <= Len(Cases)
        /\ i' = i + 1
        /\ bad' = IF RunOK(Cases[i]) THEN bad ELSE Append(bad, i)
        /\ UNCHANGED done
Finish == /\ i = Len(Cases) + 1 /\ ~done
          /\ done' = TRUE
          /\ WriteVerdict(bad)
          /\ UNCHANGED <<i, bad>>
TNext == Step \/ Finish
TSpec == TInit /\ [][TNext]_tvars
=============================================================================
