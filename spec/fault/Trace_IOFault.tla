--------------------------- MODULE Trace_IOFault ---------------------------
(* Judges runs of the real code under injected I/O faults against property  *)
(* C19 (module IOFaultRef; nothing implementation-shaped is used).          *)
(* One record = one run of a scenario with one fault plan:                  *)
(*   read side   [side |-> "read", hit, calls: <<[cls, same, carries,       *)
(*                malformed]>>]   one entry per API call made (NewReader,   *)
(*                Get, DecodeStream+drain, Decode), compared with the       *)
(*                fault-free run of the same scenario                       *)
(*   write side  [side |-> "write", hit, outs: <<[cls, carries]>>]  the     *)
(*                Writer calls up to the first failing one or Close         *)
(* hit: the planned source / sink operation was reached and failed.         *)
EXTENDS IOFaultRef, TraceLib

Cases == Records
RunOK(r) ==
  IF r.side = "read"
  THEN /\ \A j \in 1..Len(r.calls) : RefReadOutcomeOK(r.calls[j])
       /\ ~r.hit => \A j \in 1..Len(r.calls) : r.calls[j].same     \* no fault, no difference
  ELSE /\ RefWriteOK(r.hit, r.outs)
       /\ ~r.hit => \A j \in 1..Len(r.outs) : r.outs[j].cls = "ok"

VARIABLES i, bad, done
tvars == <<i, bad, done>>
TInit == i = 1 /\ bad = <<>> /\ done = FALSE
Step == /\ i <= Len(Cases)
        /\ i' = i + 1
        /\ bad' = IF RunOK(Cases[i]) THEN bad ELSE Append(bad, i)
        /\ UNCHANGED done
Finish == /\ i = Len(Cases) + 1 /\ ~done
          /\ done' = TRUE
          /\ WriteVerdict(bad)
          /\ UNCHANGED <<i, bad>>
TNext == Step \/ Finish
TSpec == TInit /\ [][TNext]_tvars
=============================================================================
