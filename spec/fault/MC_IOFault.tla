---------------------------- MODULE MC_IOFault ----------------------------
(* Bounded exhaustive model of IOFault: a handful of document shapes that   *)
(* between them contain every layer, all three ReaderErrorHandling modes,   *)
(* both fault plans with and without partial data, every fault position.    *)
EXTENDS IOFault
D(x, e, i, os, sk) == [xref |-> x, enc |-> e, info |-> i, objs |-> os, seek |-> sk]
SmallDocs == {D("table", FALSE, TRUE, <<"plain", "stmE">>, TRUE),
              D("stream", TRUE, FALSE, <<"fstm", "plain">>, FALSE)}
AllDocs == {D("table", FALSE, TRUE, <<"plain", "stmE">>, TRUE),
            D("table", FALSE, FALSE, <<"istmE", "plain">>, FALSE),
            D("stream", TRUE, TRUE, <<"fstm", "plain", "stm">>, TRUE),
            D("stream", FALSE, TRUE, <<"stmE", "fstm">>, FALSE),
            D("table", TRUE, TRUE, <<"plain", "istmE", "fstm">>, FALSE)}
AllModes == {"recover", "report", "stop"}
=============================================================================
