\* negative control: no sourceAwareReader on top of the filters; must FAIL ReadProperty
SPECIFICATION Spec
CONSTANTS Docs <- SmallDocs
  Modes <- AllModes
  MaxK = 16
  RECOVER_SWALLOWS = FALSE
  HELPERS_IGNORE = FALSE
  SOURCE_AWARE = FALSE
  BUFIO_STICKY = TRUE
INVARIANTS TypeOK ReadProperty
CHECK_DEADLOCK FALSE
