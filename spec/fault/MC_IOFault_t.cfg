\* thorough: five document shapes
SPECIFICATION Spec
CONSTANTS Docs <- AllDocs
  Modes <- AllModes
  MaxK = 24
  RECOVER_SWALLOWS = FALSE
  HELPERS_IGNORE = FALSE
  SOURCE_AWARE = TRUE
  BUFIO_STICKY = TRUE
INVARIANTS TypeOK ReadProperty WriteProperty FaultFree
CHECK_DEADLOCK FALSE
