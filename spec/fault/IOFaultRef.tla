----------------------------- MODULE IOFaultRef -----------------------------
(* Property C19 as predicates over the outcome of one API call under an     *)
(* injected fault.  Written from the property text; no knowledge of the     *)
(* layers.  Used by IOFault (design model) and Trace_IOFault (real code).   *)
EXTENDS Integers, Sequences

\* Read side.  An outcome is [cls, same, carries, malformed]:
\*   cls        "ok" / "err"
\*   same       the call returned exactly what it returns without the fault
\*              (same data; or, where the fault-free call fails, the same failure)
\*   carries    errors.Is(err, injected error)
\*   malformed  pdf.IsMalformed(err)
\* "every affected call either still returns exactly what it returns without
\*  the fault or returns an error that carries the source's error and is not
\*  classified as a malformed-file error"
RefReadOutcomeOK(o) == \/ o.same
                       \/ o.cls = "err" /\ o.carries /\ ~o.malformed

\* Write side.  outs = outcomes [cls, carries] of the Writer calls made, in
\* order, the last one being Close unless an earlier call failed.
\* "if the sink fails at any write or seek, some Writer call no later than
\*  Close returns an error carrying the sink's error"
RefWriteOK(sinkFailed, outs) ==
  sinkFailed => \E i \in 1..Len(outs) : outs[i].cls = "err" /\ outs[i].carries
=============================================================================
