\* quick: the design the property demands
SPECIFICATION Spec
CONSTANTS Docs <- SmallDocs
  Modes <- AllModes
  MaxK = 16
  RECOVER_SWALLOWS = FALSE
  HELPERS_IGNORE = FALSE
  SOURCE_AWARE = TRUE
  BUFIO_STICKY = TRUE
INVARIANTS TypeOK ReadProperty WriteProperty FaultFree
CHECK_DEADLOCK FALSE
