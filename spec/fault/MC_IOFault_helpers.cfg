\* negative control: helper reads ignore errors as at the pinned commit, shouldExit repaired; must FAIL NoSilentlyShortStream (F7c)
SPECIFICATION Spec
CONSTANTS Docs <- SmallDocs
  Modes <- AllModes
  MaxK = 16
  RECOVER_SWALLOWS = FALSE
  HELPERS_IGNORE = TRUE
  SOURCE_AWARE = TRUE
  BUFIO_STICKY = TRUE
INVARIANTS TypeOK NoSwallowedOpen NoSilentlyShortStream
CHECK_DEADLOCK FALSE
