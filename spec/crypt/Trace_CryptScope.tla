-------------------------- MODULE Trace_CryptScope --------------------------
(* Judges the observed CryptScope state of real files (pattern P-D).        *)
(*                                                                          *)
(* kind = "written": a file the real Writer produced, read by the           *)
(* independent strict parser and decrypted by the independent security      *)
(* handler (harness/indep/strict, harness/indep/secure), never by go-pdf:   *)
(*   [cipher, emd, auth, items: [num, gen, where, in, plain, len, cipher,   *)
(*    key, iv, ct, ok], leaks]                                              *)
(* cipher of an item is what the observer found ("none": the bytes in the   *)
(* file are the plaintext; "RC4"/"AES": they decrypt to the plaintext; "?": *)
(* neither); key = "own" when the key of Algorithm 1 / 1.A for the          *)
(* enclosing indirect object (num, gen) decrypts it, otherwise the name of  *)
(* the deviating derivation that did; plain is a digest of the plaintext    *)
(* that was handed to the Writer, ct of the ciphertext, iv the AES          *)
(* initialisation vector; leaks lists plaintexts found in the raw bytes     *)
(* outside the exempt streams.                                              *)
(* kind = "foreign": a file encrypted by indep/secure and written by        *)
(* indep/ser, opened with the real Reader: [opened, contentOK].             *)
(*                                                                          *)
(* Acceptance uses the reference operators of CryptScope only.              *)
EXTENDS CryptScope, TraceLib

Cases == Records

Conv(c, o, k) ==
  [obj |-> <<o.num, o.gen>>, where |-> o.where, plain |-> o.plain, in |-> o.in, idx |-> k,
   enc |-> IF o.cipher = "none" THEN NoEnc
           ELSE [cipher |-> o.cipher,
                 key |-> IF o.key = "own" THEN RefKeyOf(c.cipher, o.num, o.gen) ELSE [fk |-> "K", deviating |-> o.key],
                 iv |-> o.iv]]

\* equal plaintexts (long enough for a chance collision to be out of the
\* question) in different objects have different ciphertexts
DistinctObserved(its) ==
  \A i, j \in 1..Len(its) :
     (i < j /\ its[i].cipher # "none" /\ its[j].cipher # "none" /\ its[i].plain = its[j].plain /\ its[i].len >= 6
        /\ <<its[i].num, its[i].gen>> # <<its[j].num, its[j].gen>>)
     => its[i].ct # its[j].ct

WrittenOK(c) ==
  LET cf == [cipher |-> c.cipher, emd |-> c.emd, meta |-> TRUE]
      I == {Conv(c, c.items[k], k) : k \in 1..Len(c.items)}
  IN /\ c.cipher \in {"RC4", "AESV2", "AESV3"}
     /\ c.auth                                        \* authenticated by the independent handler
     /\ \A k \in 1..Len(c.items) : c.items[k].ok      \* Decrypted = Written
     /\ NoLeak(cf, I)
     /\ ExemptPlain(cf, I)
     /\ KeyScope(cf, I)
     /\ IVUnique(I)
     /\ MembersContained(I)
     /\ DistinctObserved(c.items)
     /\ c.leaks = <<>>

CaseOK(c) == IF c.kind = "written" THEN WrittenOK(c)
             ELSE c.kind = "foreign" /\ c.opened /\ c.contentOK

VARIABLES i, bad, fin
tvars == <<i, bad, fin>>
TInit == CInit /\ i = 1 /\ bad = <<>> /\ fin = FALSE
TStep == /\ i <= Len(Cases)
         /\ i' = i + 1
         /\ bad' = IF CaseOK(Cases[i]) THEN bad ELSE Append(bad, i)
         /\ UNCHANGED <<fin, cvars>>
TFinish == /\ i = Len(Cases) + 1 /\ ~fin
           /\ fin' = TRUE
           /\ WriteVerdict(bad)
           /\ UNCHANGED <<i, bad, cvars>>
TNext == TStep \/ TFinish
TSpec == TInit /\ [][TNext]_<<tvars, cvars>>
=============================================================================
