------------------------------- MODULE StdSec -------------------------------
(* The standard security handler of go-pdf as a decision procedure         *)
(* (property C09).  Cryptography is ideal: a check succeeds exactly when   *)
(* the prepared candidate equals the prepared password the entry was made  *)
(* from; a wrong key yields garbage.                                       *)
(*                                                                         *)
(* Passwords.  A password is a sequence of at most three segment tokens:   *)
(*     <<>>            the empty password                                  *)
(*     <<h>>           bytes 1..32 of the encoded password (class h)       *)
(*     <<h, t>>        ... followed by bytes 33..127 (class t)             *)
(*     <<h, t, z>>     ... followed by anything beyond byte 127            *)
(* The standard's preparation keeps a prefix:                              *)
(*     R <= 4  PDFDocEncoding, truncated/padded to 32 bytes  -> <<h>>      *)
(*     R  = 6  SASLprep, UTF-8, truncated to 127 bytes       -> <<h, t>>   *)
(* Two spellings that are equal after preparation (NFKC forms, characters  *)
(* mapped to nothing, a 31 byte password followed by the first padding     *)
(* byte, ...) are the same token; the harness concretises a token by       *)
(* several spellings.  Bad stands for a string that cannot be prepared     *)
(* (not PDFDocEncodable / prohibited by SASLprep).                         *)
(*                                                                         *)
(* Writer side (Impl, writer.go NewWriter + crypto.go createStdSecHandler) *)
(*   Choose, Refuse, Create                                                *)
(* Reader side (Impl, reader.go NewReader + crypto.go parseEncryptDict /   *)
(* authenticate), one action per code path:                                *)
(*   Supply, ReadTrailer, Prepare, OwnerCheck, UserCheck, StageFailed      *)
(* Reference (Ref...): the statement of C09 / ISO 32000-2 7.6.4.           *)
EXTENDS Perms, Sequences, TLC

CONSTANTS
  Passwords,     \* passwords enumerated for user, owner and supplied
  PermSets,      \* permission sets enumerated
  Versions,      \* PDF versions enumerated: 10 .. 17, 20
  OWNER_FIRST,   \* TRUE = as coded: owner check before user check
  TRY_EMPTY      \* TRUE = as coded: the empty password is tried first

Empty == <<>>
Bad == <<"!">>
Smaller(a, b) == IF a < b THEN a ELSE b
Preparable(pw) == pw # Bad
KeptSegments(R) == IF R <= 4 THEN 1 ELSE 2
Prep(R, pw) == SubSeq(pw, 1, Smaller(Len(pw), KeptSegments(R)))

NoKey == "nokey"
FileKey == "filekey"

-----------------------------------------------------------------------------
(* Writer: which scheme NewWriter selects for a version                    *)

\* [V, cipher, bits]
ImplScheme(v) == IF v >= 20 THEN [V |-> 5, cipher |-> "AES", bits |-> 256]
                 ELSE IF v >= 16 THEN [V |-> 4, cipher |-> "AES", bits |-> 128]
                 ELSE IF v >= 14 THEN [V |-> 2, cipher |-> "RC4", bits |-> 128]
                 ELSE [V |-> 1, cipher |-> "RC4", bits |-> 40]
\* createStdSecHandler
ImplRevision(V, perms) == IF V < 2 /\ CanR2(perms) THEN 2
                          ELSE IF V <= 3 THEN 3
                          ELSE IF V = 4 THEN 4 ELSE 6

\* Observation, not demanded by C09 (left to C10): Table 21 wants R = 3 as
\* soon as one of the revision 3 permission bits (9, 11, 12) is 0;
\* createStdSecHandler picks R = 2 whenever the *meaning* of the request is
\* representable at revision 2 and still clears those bits in /P (46 of the
\* 54 permission sets with CanR2).
StrictTable21R(V, P) == IF V < 2 /\ {9, 11, 12} \subseteq P THEN 2
                        ELSE IF V <= 3 THEN 3 ELSE IF V = 4 THEN 4 ELSE 6

UseEncryption(rq) == rq.user # Empty \/ rq.owner # Empty
\* NewWriter / createStdSecHandler return an error instead of a Writer
ImplRefuses(rq) ==
  \/ UseEncryption(rq) /\ rq.version = 10                 \* VersionError
  \/ UseEncryption(rq) /\ ~rq.emd /\ rq.version < 16      \* plaintext metadata needs 1.6
  \/ UseEncryption(rq) /\ (~Preparable(rq.user) \/ ~Preparable(rq.owner))

NoFile == [enc |-> FALSE]
\* the Encrypt dictionary, symbolically.  O "locks" the prepared user
\* password under the prepared owner password (Algorithm 3); for R = 6 O/OE
\* lock the file key and the Perms block repeats P and EncryptMetadata.
ImplCreate(rq) ==
  IF ~UseEncryption(rq) THEN NoFile
  ELSE LET sch == ImplScheme(rq.version)
           R == ImplRevision(sch.V, rq.perms)
           owner == IF rq.owner = Empty THEN rq.user ELSE rq.owner
           P == ImplToP(rq.perms)
       IN [enc |-> TRUE, V |-> sch.V, R |-> R, cipher |-> sch.cipher, bits |-> sch.bits,
           O |-> [lock |-> Prep(R, owner), payload |-> Prep(R, rq.user)],
           U |-> [lock |-> Prep(R, rq.user)],
           P |-> P, emd |-> rq.emd,
           permsBlock |-> [P |-> P, emd |-> rq.emd]]

\* items of the written document and whether each is individually encrypted
Items == {"string", "streamDictString", "streamBody", "compressedString", "metadataBody", "encryptDictString"}
ImplStored(f, version, item) ==
  CASE item = "encryptDictString" -> "plain"                 \* Writer.Close: enc = nil for the trailer
    [] item = "metadataBody" -> IF f.emd THEN "enc" ELSE "plain"   \* refIsPlaintext
    [] item = "compressedString" -> IF version >= 15 THEN "inEncContainer" ELSE "enc"
    [] OTHER -> "enc"
\* how the reader treats the same items
ImplTreats(f, version, item) ==
  CASE item = "encryptDictString" -> "plain"                 \* Reader.unencrypted / trailer scanner
    [] item = "metadataBody" -> IF f.emd THEN "enc" ELSE "plain"
    [] item = "compressedString" -> IF version >= 15 THEN "inEncContainer" ELSE "enc"
    [] OTHER -> "enc"
Recovered(f, version, k, item) ==
  LET st == ImplStored(f, version, item)
  IN IF ~f.enc THEN TRUE
     ELSE /\ st = ImplTreats(f, version, item)
          /\ (st # "plain" => k = FileKey)

-----------------------------------------------------------------------------
(* Reader: the checks                                                      *)

\* Algorithm 7 (decrypt O, then Algorithm 6 with the result) resp. 12
ImplOwnerOK(f, cand) ==
  /\ cand = f.O.lock
  /\ IF f.R <= 4 THEN f.O.payload = f.U.lock
     ELSE f.permsBlock = [P |-> f.P, emd |-> f.emd]        \* checkPerms
\* Algorithm 6 resp. 11
ImplUserOK(f, cand) ==
  /\ cand = f.U.lock
  /\ (f.R > 4 => f.permsBlock = [P |-> f.P, emd |-> f.emd])

Stages == {"empty", "supplied"}
FirstStage == IF TRY_EMPTY THEN "empty" ELSE "supplied"
FirstCheck == IF OWNER_FIRST THEN "owner" ELSE "user"
SecondCheck == IF OWNER_FIRST THEN "user" ELSE "owner"
Candidate(stage, s) == IF stage = "empty" THEN Empty ELSE s

Pending == [kind |-> "pending", perms |-> {}]
OpenedWith(ps) == [kind |-> "opened", perms |-> ps]
AuthErr == [kind |-> "autherr", perms |-> {}]
OtherErr == [kind |-> "error", perms |-> {}]

\* one step of parseEncryptDict/authenticate from control point pc:
\* either [done |-> FALSE, pc] or [done |-> TRUE, out, key, access]
Final(o, k, a) == [done |-> TRUE, out |-> o, key |-> k, access |-> a]
Goto(p) == [done |-> FALSE, pc |-> p]
ImplStep(f, s, pc) ==
  LET stage == pc[1]
      cand == Prep(f.R, Candidate(stage, s))
      check(who) ==
        IF who = "owner"
          THEN IF ImplOwnerOK(f, cand) THEN Final(OpenedWith(AllPerms), FileKey, "owner") ELSE Goto(<<stage, "x">>)
          ELSE IF ImplUserOK(f, cand) THEN Final(OpenedWith(ImplFromP(f.R, f.P)), FileKey, "user") ELSE Goto(<<stage, "x">>)
  IN CASE pc[2] = "prepare" ->
            IF Preparable(Candidate(stage, s)) THEN Goto(<<stage, FirstCheck>>)
            ELSE Final(OtherErr, NoKey, "none")                       \* errInvalidPassword
       [] pc[2] = FirstCheck ->
            LET r == check(FirstCheck) IN IF r.done THEN r ELSE Goto(<<stage, SecondCheck>>)
       [] pc[2] = SecondCheck ->
            LET r == check(SecondCheck) IN IF r.done THEN r ELSE Goto(<<stage, "failed">>)
       [] pc[2] = "failed" ->
            IF stage = "empty" /\ s # Empty THEN Goto(<<"supplied", "prepare">>)
            ELSE Final(AuthErr, NoKey, "none")

\* the whole decision as a function (used by Gen_StdSec and to cross-check
\* the actions below)
RECURSIVE ImplRun(_, _, _)
ImplRun(f, s, pc) == LET r == ImplStep(f, s, pc) IN IF r.done THEN r ELSE ImplRun(f, s, r.pc)
ImplRead(f, s) ==
  IF ~f.enc THEN Final(OpenedWith(AllPerms), NoKey, "none")
  ELSE IF ~TRY_EMPTY /\ s = Empty THEN Final(AuthErr, NoKey, "none")
  ELSE ImplRun(f, s, <<FirstStage, "prepare">>)

-----------------------------------------------------------------------------
(* Reference: what C09 states.  R is the revision of the file.             *)

RefOwner(u, o) == IF o = Empty THEN u ELSE o
Same(R, a, b) == Preparable(a) /\ Preparable(b) /\ Prep(R, a) = Prep(R, b)
\* set of acceptable outcomes
RefDecision(R, u, o, s, perms) ==
  IF u = Empty /\ o = Empty THEN {OpenedWith(AllPerms)}                \* not encrypted
  ELSE IF Prep(R, u) = Empty
    \* "an empty user password needs no password at all"; owner access
    \* need not be reported when the empty password already opens the file
    THEN {OpenedWith(Closure(perms))} \cup (IF Same(R, s, RefOwner(u, o)) THEN {OpenedWith(AllPerms)} ELSE {})
  ELSE IF ~Preparable(s) THEN {AuthErr, OtherErr}                       \* only required to fail
  ELSE IF Same(R, s, RefOwner(u, o)) THEN {OpenedWith(AllPerms)}        \* owner access
  ELSE IF Same(R, s, u) THEN {OpenedWith(Closure(perms))}               \* user access
  ELSE {AuthErr}

\* requests a Writer may turn down: encryption did not exist in PDF 1.0,
\* EncryptMetadata false needs a crypt filter version (PDF 1.6 in go-pdf's
\* reading), and a password must be preparable
RefMayRefuse(rq) ==
  /\ UseEncryption(rq)
  /\ \/ rq.version = 10
     \/ ~rq.emd /\ rq.version < 16
     \/ ~Preparable(rq.user) \/ ~Preparable(rq.owner)

\* revisions ISO 32000-2 Table 20/21 admits for a file of the given version
RefRevisions(v) == IF v >= 20 THEN {6} ELSE IF v >= 16 THEN {4} ELSE IF v >= 14 THEN {3} ELSE {2, 3}

-----------------------------------------------------------------------------
(* State machine                                                           *)

VARIABLES phase,   \* "idle" | "chosen" | "refused" | "written" | "reading" | "done"
          req,     \* what the caller asked the Writer for
          file,    \* the written Encrypt dictionary (symbolic)
          sup,     \* the password given to the Reader
          pc,      \* control point inside parseEncryptDict/authenticate
          key,     \* stdSecHandler.key
          access,  \* "none" | "owner" | "user"
          out      \* result of NewReader
vars == <<phase, req, file, sup, pc, key, access, out>>

NoReq == [user |-> Empty, owner |-> Empty, perms |-> {}, version |-> 0, emd |-> TRUE]
Init == /\ phase = "idle" /\ req = NoReq /\ file = NoFile /\ sup = Empty
        /\ pc = <<"-", "-">> /\ key = NoKey /\ access = "none" /\ out = Pending

Choose == /\ phase = "idle"
          /\ \E u \in Passwords, o \in Passwords, p \in PermSets, v \in Versions, e \in BOOLEAN :
               req' = [user |-> u, owner |-> o, perms |-> p, version |-> v, emd |-> e]
          /\ phase' = "chosen"
          /\ UNCHANGED <<file, sup, pc, key, access, out>>
Refuse == /\ phase = "chosen" /\ ImplRefuses(req)
          /\ phase' = "refused"
          /\ UNCHANGED <<req, file, sup, pc, key, access, out>>
Create == /\ phase = "chosen" /\ ~ImplRefuses(req)
          /\ file' = ImplCreate(req)
          /\ phase' = "written"
          /\ UNCHANGED <<req, sup, pc, key, access, out>>

Supply == /\ phase = "written"
          /\ \E s \in Passwords \cup {Bad} : sup' = s
          /\ phase' = "reading" /\ pc' = <<"trailer", "-">>
          /\ UNCHANGED <<req, file, key, access, out>>

Finish(r) == /\ out' = r.out /\ key' = r.key /\ access' = r.access
             /\ phase' = "done" /\ pc' = <<"-", "-">>
Continue(r) == /\ pc' = r.pc /\ UNCHANGED <<phase, key, access, out>>
Take(r) == IF r.done THEN Finish(r) ELSE Continue(r)

\* NewReader: no /Encrypt => PermAll; otherwise parseEncryptDict
ReadTrailer == /\ phase = "reading" /\ pc[1] = "trailer"
               /\ IF ~file.enc THEN Finish(Final(OpenedWith(AllPerms), NoKey, "none"))
                  ELSE IF ~TRY_EMPTY /\ sup = Empty THEN Finish(Final(AuthErr, NoKey, "none"))
                  ELSE Continue(Goto(<<FirstStage, "prepare">>))
               /\ UNCHANGED <<req, file, sup>>
Stage(st, what) == phase = "reading" /\ pc = <<st, what>>
\* padPasswd / utf8Passwd
Prepare(st) == /\ Stage(st, "prepare") /\ Take(ImplStep(file, sup, pc)) /\ UNCHANGED <<req, file, sup>>
\* authenticateOwner / authenticateOwner6
OwnerCheck(st) == /\ Stage(st, "owner") /\ Take(ImplStep(file, sup, pc)) /\ UNCHANGED <<req, file, sup>>
\* authenticateUser / authenticateUser6
UserCheck(st) == /\ Stage(st, "user") /\ Take(ImplStep(file, sup, pc)) /\ UNCHANGED <<req, file, sup>>
\* `if err != nil && password != ""` resp. the final AuthenticationError
StageFailed(st) == /\ Stage(st, "failed") /\ Take(ImplStep(file, sup, pc)) /\ UNCHANGED <<req, file, sup>>

TryEmpty == Prepare("empty") \/ OwnerCheck("empty") \/ UserCheck("empty") \/ StageFailed("empty")
TrySupplied == Prepare("supplied") \/ OwnerCheck("supplied") \/ UserCheck("supplied") \/ StageFailed("supplied")

Next == Choose \/ Refuse \/ Create \/ Supply \/ ReadTrailer \/ TryEmpty \/ TrySupplied
Spec == Init /\ [][Next]_vars

-----------------------------------------------------------------------------
(* Properties                                                              *)

Outs == {Pending, AuthErr, OtherErr} \cup {OpenedWith(ps) : ps \in SUBSET Flags}
TypeOK == /\ phase \in {"idle", "chosen", "refused", "written", "reading", "done"}
          /\ key \in {NoKey, FileKey}
          /\ access \in {"none", "owner", "user"}
          /\ out \in Outs

Done == phase = "done"
FileR == IF file.enc THEN file.R ELSE 0

\* the outcome is one the property admits
OutcomeOK == Done => out \in RefDecision(FileR, req.user, req.owner, sup, req.perms)
\* the three clauses of the statement, spelled out
RightPasswordOpens ==
  (Done /\ file.enc /\ (Same(FileR, sup, req.user) \/ Same(FileR, sup, RefOwner(req.user, req.owner))))
     => out.kind = "opened"
EmptyUserNeedsNone == (Done /\ file.enc /\ Prep(FileR, req.user) = Empty) => out.kind = "opened"
WrongPasswordFails ==
  (Done /\ file.enc /\ Prep(FileR, req.user) # Empty /\ Preparable(sup)
        /\ ~Same(FileR, sup, req.user) /\ ~Same(FileR, sup, RefOwner(req.user, req.owner)))
     => (out = AuthErr /\ key = NoKey)
UserAccessPerms == (Done /\ access = "user") => out.perms = Closure(req.perms)
OwnerAccessPerms == (Done /\ access = "owner") => out.perms = AllPerms
\* stdSecHandler.key is set only by a successful check
KeyOnlyByCheck == /\ (key = FileKey) <=> (access \in {"owner", "user"})
                  /\ key = FileKey => (Done /\ out.kind = "opened" /\ file.enc)
                  /\ (Done /\ out.kind \in {"autherr", "error"}) => key = NoKey
\* content: opened => every item is recovered; failed => nothing encrypted is
ContentOK == (Done /\ out.kind = "opened") => \A it \in Items : Recovered(file, req.version, key, it)
NoContentOnFailure ==
  (Done /\ out.kind # "opened") =>
     \A it \in Items : ImplStored(file, req.version, it) # "plain" => ~Recovered(file, req.version, key, it)
\* the permission algebra on what was written
PermsOK == (phase = "written" /\ file.enc) =>
              /\ RoundTrip(file.R, req.perms)
              /\ WrittenMeansClosure(file.R, req.perms)
              /\ ReaderAgreesOnWritten(file.R, file.P)
\* the scheme chosen is one the standard admits for the version
SchemeOK == (phase = "written" /\ file.enc) => file.R \in RefRevisions(req.version)
\* the Writer refuses only what the reference lets it refuse
RefusalOK == phase = "refused" => RefMayRefuse(req)
\* the actions and the functional form agree, and no read gets stuck
RunAgrees == Done => LET r == ImplRead(file, sup)
                     IN r.out = out /\ r.key = key /\ r.access = access
NotStuck == phase \in {"reading", "chosen", "written", "idle"} => ENABLED Next
=============================================================================
