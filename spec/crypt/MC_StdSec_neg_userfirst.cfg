\* negative control (userfirst): must FAIL
SPECIFICATION Spec
CONSTANTS
  Passwords <- Classes4
  PermSets <- FewPermSets
  Versions <- AllVersions
  OWNER_FIRST = FALSE
  TRY_EMPTY = TRUE
  FORGET = ""
INVARIANTS TypeOK OutcomeOK UserAccessPerms PermsOK
CHECK_DEADLOCK FALSE
