----------------------------- MODULE Gen_StdSec -----------------------------
(* Case table for the conformance harness: for every request the Writer    *)
(* accepts (user, owner, permissions, version, EncryptMetadata) and every  *)
(* supplied password, the scheme the model's Writer selects, the outcome   *)
(* of the code-shaped decision procedure (impl) and the set of outcomes    *)
(* the reference admits (ref).  The harness concretises the password       *)
(* tokens per revision and executes each line on pdf.NewWriter /           *)
(* pdf.NewReader.  One TLC run per version (the harness shards).           *)
EXTENDS MC_StdSec, Json, IOUtils, SequencesExt

Requests == {rq \in [user : Passwords, owner : Passwords, perms : PermSets, version : Versions, emd : BOOLEAN] :
               ~ImplRefuses(rq)}
Supplied == Passwords \cup {Bad}

OutJ(o) == [kind |-> o.kind, perms |-> SetToSeq(o.perms)]
Case(rq, s) ==
  LET f == ImplCreate(rq)
      r == ImplRead(f, s)
      R == IF f.enc THEN f.R ELSE 0
  IN [user |-> rq.user, owner |-> rq.owner, sup |-> s, perms |-> SetToSeq(rq.perms),
      version |-> rq.version, emd |-> rq.emd,
      enc |-> f.enc, R |-> R, V |-> IF f.enc THEN f.V ELSE 0,
      cipher |-> IF f.enc THEN f.cipher ELSE "none", bits |-> IF f.enc THEN f.bits ELSE 0,
      impl |-> OutJ(r.out), access |-> r.access,
      ref |-> LET rs == SetToSeq(RefDecision(R, rq.user, rq.owner, s, rq.perms))
              IN [i \in 1..Len(rs) |-> OutJ(rs[i])]]

ReqSeq == SetToSeq(Requests)
SupSeq == SetToSeq(Supplied)
N == Len(ReqSeq) * Len(SupSeq)
ASSUME ndJsonSerialize(IOEnv.OUT,
         [i \in 1..N |-> Case(ReqSeq[((i - 1) \div Len(SupSeq)) + 1], SupSeq[((i - 1) % Len(SupSeq)) + 1])])
VARIABLE x
GInit == Init /\ x = 0
GNext == UNCHANGED <<vars, x>>
=============================================================================
