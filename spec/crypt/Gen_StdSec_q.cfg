\* one shard of the case table (the harness writes the cfg per version); this file documents the shape
INIT GInit
NEXT GNext
CONSTANTS
  Passwords <- Classes4
  PermSets <- AllPermSets
  Versions = {14}
  OWNER_FIRST = TRUE
  TRY_EMPTY = TRUE
  FORGET = ""
