------------------------------- MODULE Perms -------------------------------
(* Access permissions of the standard security handler (ISO 32000-2        *)
(* 7.6.4.2, Table 22) as set algebra.                                      *)
(*                                                                         *)
(*   Flags          the seven permissions go-pdf exposes (pdf.Perm)        *)
(*   Closure(p)     reference: the documented implications                 *)
(*                  Print => PrintDegraded, Annotate => Forms,             *)
(*                  Modify => Assemble                                     *)
(*   RefFromP(R,P)  reference: which operations Table 22 grants for the    *)
(*                  bits of /P at revision R                               *)
(*   ImplToP(p)     code-shaped: crypto.go stdSecPermToP                   *)
(*   ImplFromP(R,P) code-shaped: crypto.go stdSecPToPerm                   *)
(*   CanR2(p)       code-shaped: Perm.canR2                                *)
(*                                                                         *)
(* /P is modelled by the set of its *set* bits among the permission bits   *)
(* PBits (PDF bit numbers, 1-based); bits 1 and 2 are always clear and all *)
(* remaining bits always set in what the writer produces.                  *)
EXTENDS Naturals, FiniteSets

CONSTANT FORGET   \* "" = faithful; otherwise the name of the implication the
                  \* reader side forgets (negative controls only):
                  \* "assemble" (bit 11 tested without looking at bit 4) |
                  \* "forms" (bit 9 tested without looking at bit 6)

Flags == {"Copy", "PrintDegraded", "Print", "Forms", "Annotate", "Assemble", "Modify"}
AllPerms == Flags
PBits == {3, 4, 5, 6, 9, 11, 12}

-----------------------------------------------------------------------------
(* Reference *)

Closure(p) == p \cup (IF "Print" \in p THEN {"PrintDegraded"} ELSE {})
                \cup (IF "Annotate" \in p THEN {"Forms"} ELSE {})
                \cup (IF "Modify" \in p THEN {"Assemble"} ELSE {})

\* Table 22, read literally.  Revision 2 knows bits 3-6 only.
RefFromP(R, P) ==
  IF R = 2 THEN
       (IF 3 \in P THEN {"Print", "PrintDegraded"} ELSE {})
  \cup (IF 4 \in P THEN {"Modify", "Assemble"} ELSE {})
  \cup (IF 5 \in P THEN {"Copy"} ELSE {})
  \cup (IF 6 \in P THEN {"Annotate", "Forms"} ELSE {})
  ELSE
       (IF 3 \in P THEN {"PrintDegraded"} ELSE {})          \* bit 3: print, possibly degraded
  \cup (IF 3 \in P /\ 12 \in P THEN {"Print"} ELSE {})      \* bit 12 qualifies bit 3
  \cup (IF 4 \in P THEN {"Modify"} ELSE {})
  \cup (IF 4 \in P \/ 11 \in P THEN {"Assemble"} ELSE {})   \* bit 11: "even if bit 4 is clear"
  \cup (IF 5 \in P THEN {"Copy"} ELSE {})
  \cup (IF 6 \in P THEN {"Annotate"} ELSE {})
  \cup (IF 6 \in P \/ 9 \in P THEN {"Forms"} ELSE {})       \* bit 9: "even if bit 6 is clear"

-----------------------------------------------------------------------------
(* Code-shaped *)

\* stdSecPermToP: the forbidden bits; P is their complement
ImplForbidden(p) ==
       (IF "Copy" \notin p THEN {5} ELSE {})
  \cup (IF "Print" \notin p
          THEN {12} \cup (IF "PrintDegraded" \notin p THEN {3} ELSE {})
          ELSE {})
  \cup (IF "Annotate" \notin p
          THEN {6} \cup (IF "Forms" \notin p THEN {9} ELSE {})
          ELSE {})
  \cup (IF "Assemble" \notin p THEN {11} ELSE {})
  \cup (IF "Modify" \notin p THEN {4} ELSE {})
ImplToP(p) == PBits \ ImplForbidden(p)

\* stdSecPToPerm
ImplFromP(R, P) ==
  LET noPrint == IF R = 2
                   THEN (IF 3 \notin P THEN {"Print", "PrintDegraded"} ELSE {})
                 ELSE IF 3 \notin P /\ 12 \notin P THEN {"Print", "PrintDegraded"}
                 ELSE IF 3 \in P /\ 12 \notin P THEN {"Print"}
                 ELSE {}
      noMod == (IF 4 \notin P THEN {"Modify"} ELSE {})
               \cup (IF 11 \notin P /\ (4 \notin P \/ FORGET = "assemble") THEN {"Assemble"} ELSE {})
      noCopy == IF 5 \notin P THEN {"Copy"} ELSE {}
      noAnn == (IF 6 \notin P THEN {"Annotate"} ELSE {})
               \cup (IF 9 \notin P /\ (6 \notin P \/ FORGET = "forms") THEN {"Forms"} ELSE {})
  IN Flags \ (noPrint \cup noMod \cup noCopy \cup noAnn)

\* Perm.canR2: the permission set does not need a revision 3 bit
CanR2(p) == /\ ~("Print" \notin p /\ "PrintDegraded" \in p)
            /\ ~("Annotate" \notin p /\ "Forms" \in p)
            /\ ~("Modify" \notin p /\ "Assemble" \in p)

-----------------------------------------------------------------------------
(* Properties of the bit algebra (checked by MC_StdSec for every set the   *)
(* writer can be given and every revision it can choose)                   *)

\* what the reader reports for a written P is the closure of the request
RoundTrip(R, p) == ImplFromP(R, ImplToP(p)) = Closure(p)
\* ... and that is also what the standard says the written P means
WrittenMeansClosure(R, p) == RefFromP(R, ImplToP(p)) = Closure(p)
\* every report is closed
ReportsClosed(R, P) == Closure(ImplFromP(R, P)) = ImplFromP(R, P)
\* P values the writer can produce
WriterP == {ImplToP(p) : p \in SUBSET Flags}
\* on those the reader agrees with Table 22.  (Outside WriterP it does not:
\* bit 3 clear with bit 12 set is read as "full printing", and at R = 2 the
\* revision 3 bits 9 and 11 are honoured.  The property quantifies over
\* documents the Writer produced, so this is recorded, not demanded.)
ReaderAgreesOnWritten(R, P) == ImplFromP(R, P) = RefFromP(R, P)
LenientEncodings(R) == {P \in SUBSET PBits : ImplFromP(R, P) # RefFromP(R, P)}
=============================================================================
