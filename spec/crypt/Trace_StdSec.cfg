SPECIFICATION TSpec
CONSTANTS
  Passwords = {}
  PermSets = {}
  Versions = {}
  OWNER_FIRST = TRUE
  TRY_EMPTY = TRUE
  FORGET = ""
CHECK_DEADLOCK FALSE
