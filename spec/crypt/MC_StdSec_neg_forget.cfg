\* negative control (forget): must FAIL
SPECIFICATION Spec
CONSTANTS
  Passwords <- Classes4
  PermSets <- FewPermSets
  Versions <- AllVersions
  OWNER_FIRST = TRUE
  TRY_EMPTY = TRUE
  FORGET = "assemble"
INVARIANTS TypeOK OutcomeOK UserAccessPerms PermsOK
CHECK_DEADLOCK FALSE
