----------------------------- MODULE MC_StdSec -----------------------------
(* Bounded exhaustive model of StdSec.  The enumeration of (user, owner,   *)
(* permissions, version, EncryptMetadata) and of the supplied password are *)
(* actions of StdSec itself (Choose, Supply), so TLC's workers share it.   *)
EXTENDS StdSec

\* {empty, A, B, C}: one-segment passwords, preparation is the identity
Classes4 == {<<>>, <<"A">>, <<"B">>, <<"C">>}
\* passwords that differ only beyond byte 32 resp. beyond byte 127
Structured == {<<>>, <<"A">>, <<"B">>, <<"A", "x">>, <<"A", "y">>, <<"B", "x">>,
               <<"A", "x", "p">>, <<"A", "x", "q">>}
AllPermSets == SUBSET Flags
\* one representative per orbit of the three independent implication pairs
FewPermSets == {{}, {"Copy"}, {"Print"}, {"PrintDegraded"}, {"Forms"}, {"Annotate", "Modify"},
                {"Assemble", "Copy"}, {"Modify", "Print", "Forms"}, Flags}
AllVersions == {10, 11, 12, 13, 14, 15, 16, 17, 20}
=============================================================================
