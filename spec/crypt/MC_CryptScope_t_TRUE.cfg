\* thorough: object numbers 1..3, two value ids, programs of up to 5 calls
SPECIFICATION CSpec
CONSTANTS MaxNum = 3
  Vals = {"a", "b"}
  OBJSTM = TRUE
  SEEKABLE = FALSE
  MaxOps = 5
  Threshold = 2
  CIPHERS = {"RC4", "AESV2", "AESV3"}
  IV_MODE = "fresh"
  KEY_MODE = "object"
  MEMBER_MODE = "container"
  META_MODE = "flag"
INVARIANTS AllOK
CHECK_DEADLOCK FALSE
