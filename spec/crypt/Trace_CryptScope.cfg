SPECIFICATION TSpec
CONSTANTS MaxNum = 1
  Vals = {}
  OBJSTM = TRUE
  SEEKABLE = TRUE
  MaxOps = 0
  Threshold = 2
  CIPHERS = {}
  IV_MODE = "fresh"
  KEY_MODE = "object"
  MEMBER_MODE = "container"
  META_MODE = "flag"
CHECK_DEADLOCK FALSE
