\* negative control: must FAIL
SPECIFICATION CSpec
CONSTANTS MaxNum = 3
  Vals = {"a"}
  OBJSTM = TRUE
  SEEKABLE = FALSE
  MaxOps = 3
  Threshold = 2
  CIPHERS = {"RC4", "AESV2", "AESV3"}
  IV_MODE = "fixed"
  KEY_MODE = "object"
  MEMBER_MODE = "container"
  META_MODE = "flag"
INVARIANTS IVUniqueOK
CHECK_DEADLOCK FALSE
