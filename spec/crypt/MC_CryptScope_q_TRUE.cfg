SPECIFICATION CSpec
CONSTANTS MaxNum = 3
  Vals = {"a"}
  OBJSTM = TRUE
  SEEKABLE = FALSE
  MaxOps = 4
  Threshold = 2
  CIPHERS = {"RC4", "AESV2", "AESV3"}
  IV_MODE = "fresh"
  KEY_MODE = "object"
  MEMBER_MODE = "container"
  META_MODE = "flag"
INVARIANTS NoLeakOK ExemptPlainOK KeyScopeOK IVUniqueOK DistinctCipherOK MembersContainedOK Covered
CHECK_DEADLOCK FALSE
