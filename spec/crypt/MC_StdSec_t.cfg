\* thorough, second model: passwords that agree in the first 32 / 127 bytes
\* (the revision decides whether they are the same password), fewer permission sets
SPECIFICATION Spec
CONSTANTS
  Passwords <- Structured
  PermSets <- FewPermSets
  Versions <- AllVersions
  OWNER_FIRST = TRUE
  TRY_EMPTY = TRUE
  FORGET = ""
INVARIANTS TypeOK OutcomeOK RightPasswordOpens EmptyUserNeedsNone WrongPasswordFails
  UserAccessPerms OwnerAccessPerms KeyOnlyByCheck ContentOK NoContentOnFailure PermsOK SchemeOK RefusalOK
  RunAgrees NotStuck
CHECK_DEADLOCK FALSE
