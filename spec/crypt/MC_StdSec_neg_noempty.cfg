\* negative control (noempty): must FAIL
SPECIFICATION Spec
CONSTANTS
  Passwords <- Classes4
  PermSets <- FewPermSets
  Versions <- AllVersions
  OWNER_FIRST = TRUE
  TRY_EMPTY = FALSE
  FORGET = ""
INVARIANTS TypeOK OutcomeOK UserAccessPerms PermsOK
CHECK_DEADLOCK FALSE
