---------------------------- MODULE Trace_StdSec ----------------------------
(* Judges records of the real code against the reference decision of       *)
(* StdSec.  One record = one document written by pdf.NewWriter and one     *)
(* attempt to open it with pdf.NewReader:                                  *)
(*   [version, emd, user, owner, sup, perms,    what was asked for (model   *)
(*                                              passwords: token sequences) *)
(*    written,   the Writer produced a document (FALSE: NewWriter or a      *)
(*               later call returned an error; outcome = "refused")         *)
(*    enc, R,                                   /Encrypt present, its /R    *)
(*    outcome,   "opened" | "autherr" (errors.As *AuthenticationError)      *)
(*               | "error" (any other failure)                              *)
(*    reader,    NewReader returned a Reader                                *)
(*    permsOut,  MetaInfo.Permissions as flag names (when opened)           *)
(*    contentOK] every string and stream read back equals what was written  *)
(* Acceptance uses Ref... operators only (RefDecision, RefRevisions,       *)
(* Closure via RefDecision, Prep).                                         *)
EXTENDS StdSec, TraceLib

Cases == Records

CaseOK(c) ==
  LET u == c.user
      o == c.owner
      s == c.sup
      R == IF c.enc THEN c.R ELSE 0
      res == IF c.outcome = "opened" THEN OpenedWith(ToSet(c.permsOut))
             ELSE [kind |-> c.outcome, perms |-> {}]
      rq == [user |-> u, owner |-> o, perms |-> ToSet(c.perms), version |-> c.version, emd |-> c.emd]
  IN IF ~c.written
       \* the Writer may refuse only what the reference lets it refuse:
       \* encryption at PDF 1.0, plaintext metadata before 1.6, passwords
       \* the standard's preparation rejects
       THEN RefMayRefuse(rq)
       ELSE
     /\ c.outcome \in {"opened", "autherr", "error"}
     \* a document is encrypted exactly when a password was given
     /\ c.enc = (u # Empty \/ o # Empty)
     /\ c.enc => c.R \in RefRevisions(c.version)
     \* right passwords open, wrong ones fail with AuthenticationError,
     \* permissions are the closure (user) resp. everything (owner)
     /\ res \in RefDecision(R, u, o, s, ToSet(c.perms))
     \* opened: a reader and, for an encrypted document, every string/stream
     \* as written (an unencrypted document is the business of C02)
     /\ c.outcome = "opened" => (c.reader /\ (c.enc => c.contentOK))
     \* failed: no reader, hence no content
     /\ c.outcome # "opened" => ~c.reader

VARIABLES i, bad, fin
tvars == <<i, bad, fin>>
TInit == Init /\ i = 1 /\ bad = <<>> /\ fin = FALSE
TStep == /\ i <= Len(Cases)
         /\ i' = i + 1
         /\ bad' = IF CaseOK(Cases[i]) THEN bad ELSE Append(bad, i)
         /\ UNCHANGED <<fin, vars>>
TFinish == /\ i = Len(Cases) + 1 /\ ~fin
           /\ fin' = TRUE
           /\ WriteVerdict(bad)
           /\ UNCHANGED <<i, bad, vars>>
TNext == TStep \/ TFinish
TSpec == TInit /\ [][TNext]_<<tvars, vars>>
=============================================================================
