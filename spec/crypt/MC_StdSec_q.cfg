\* quick and thorough: {empty,A,B,C}^3 x 128 permission sets x versions 1.0 .. 2.0 x EncryptMetadata
SPECIFICATION Spec
CONSTANTS
  Passwords <- Classes4
  PermSets <- AllPermSets
  Versions <- AllVersions
  OWNER_FIRST = TRUE
  TRY_EMPTY = TRUE
  FORGET = ""
INVARIANTS TypeOK OutcomeOK RightPasswordOpens EmptyUserNeedsNone WrongPasswordFails
  UserAccessPerms OwnerAccessPerms KeyOnlyByCheck ContentOK NoContentOnFailure PermsOK SchemeOK RefusalOK
  RunAgrees NotStuck
CHECK_DEADLOCK FALSE
