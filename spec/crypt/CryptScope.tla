----------------------------- MODULE CryptScope -----------------------------
(* What pdf.Writer encrypts (property C10), on top of the bookkeeping model  *)
(* of the Writer (file/PdfWriter.tla): every string and stream the Writer    *)
(* emits is an item                                                          *)
(*    [obj, where, plain, in, enc]                                           *)
(* with enc = NONE or [cipher, key, iv].  Cryptography is symbolic: a        *)
(* ciphertext is an injective function of (plaintext, key, iv); a key is the *)
(* record of exactly the inputs Algorithm 1 of ISO 32000-2 7.6.3 hashes.     *)
(*                                                                           *)
(* Impl (crypto.go KeyForRef/EncryptBytes/EncryptStream, writer.go           *)
(* OpenStream/WriteCompressed/Close, metadata_stream.go):                    *)
(*   Configure          NewWriter picks the cipher from the version          *)
(*   EmitMetadata       NewWriter commits the XMP stream; refIsPlaintext     *)
(*   program actions    Put, OpenStream, StreamWrite, CloseStream,           *)
(*                      WriteCompressed (members: container encrypted        *)
(*                      instead), OpenStreamIdentity (/Crypt /Identity)      *)
(*   Close              Info, then w.enc = nil for xref data and trailer     *)
(* Ref: the exemptions of 7.6.2 and the key of Algorithm 1 / 1.A.            *)
(* The MODE constants select defective variants (negative controls only).    *)
EXTENDS PdfWriter

CONSTANTS CIPHERS,      \* ciphers enumerated by Configure: subset of {"RC4", "AESV2", "AESV3"}
          IV_MODE,      \* "fresh" as coded | "fixed": one IV for all strings
          KEY_MODE,     \* "object" as coded | "nogen": generation not hashed
          MEMBER_MODE,  \* "container" as coded | "individual": strings of object stream members encrypted too
          META_MODE     \* "flag" as coded | "plain": metadata never encrypted

VARIABLES cfg,     \* [cipher, emd, meta]; cipher = "unset" before NewWriter
          ident,   \* streams opened with a leading /Crypt /Identity filter
          metaDone
cvars == <<vars, cfg, ident, metaDone>>

\* "RC4": PDF 1.1-1.5, "AESV2": 1.6-1.7, "AESV3": 2.0
NoEnc == [cipher |-> "none"]
IsAES(c) == c \in {"AESV2", "AESV3"}

-----------------------------------------------------------------------------
(* Reference *)

\* Algorithm 1: MD5 over the file key, the low three bytes of the object
\* number, the low two bytes of the generation, and "sAlT" for AES;
\* Algorithm 1.A: the file key itself
RefKeyOf(cipher, num, gen) ==
  IF cipher = "AESV3" THEN [fk |-> "K"]
  ELSE [fk |-> "K", num |-> num % 16777216, gen |-> gen % 65536, salt |-> IsAES(cipher)]

\* 7.6.2: not encrypted are the trailer (file identifier), the encryption
\* dictionary, cross-reference streams, strings inside object streams (the
\* stream is), streams with an Identity crypt filter, and the document
\* metadata when EncryptMetadata is false
RefExempt(c, where) ==
  \/ where \in {"trailer", "encryptDict", "xref", "member", "identity"}
  \/ where = "metadata" /\ ~c.emd

\* symbolic ciphertext (after the IV)
Ct(it) == <<it.plain, it.enc.key, IF it.enc.cipher = "AES" THEN it.enc.iv ELSE <<>> >>

NoLeak(c, I) == \A it \in I : ~RefExempt(c, it.where) => it.enc # NoEnc
ExemptPlain(c, I) == \A it \in I : RefExempt(c, it.where) => it.enc = NoEnc
\* the key of an item is the key of the enclosing indirect object
KeyScope(c, I) ==
  \A it \in I : it.enc # NoEnc =>
     /\ it.enc.cipher = IF IsAES(c.cipher) THEN "AES" ELSE "RC4"
     /\ it.enc.key = RefKeyOf(c.cipher, it.obj[1], it.obj[2])
IVUnique(I) == \A a, b \in I : (a # b /\ a.enc # NoEnc /\ b.enc # NoEnc /\ a.enc.cipher = "AES" /\ b.enc.cipher = "AES")
                                  => a.enc.iv # b.enc.iv
DistinctCipher(I) ==
  \A a, b \in I : (a.enc # NoEnc /\ b.enc # NoEnc /\ a.obj # b.obj /\ a.plain = b.plain) => Ct(a) # Ct(b)
\* a member of an object stream is protected by its container
MembersContained(I) ==
  \A m \in I : m.where = "member" =>
     \E k \in I : k.where = "container" /\ k.obj[1] = m.in /\ k.enc # NoEnc

-----------------------------------------------------------------------------
(* Impl: the items of the emitted objects *)

ImplKeyOf(num, gen) ==
  IF cfg.cipher = "AESV3" THEN [fk |-> "K"]
  ELSE [fk |-> "K", num |-> num % 16777216, gen |-> IF KEY_MODE = "nogen" THEN 0 ELSE gen % 65536,
        salt |-> IsAES(cfg.cipher)]
\* EncryptBytes / EncryptStream: a fresh random IV per call
ImplEnc(num, gen, ivid, isString) ==
  IF IsAES(cfg.cipher)
    THEN [cipher |-> "AES", key |-> ImplKeyOf(num, gen), iv |-> IF IV_MODE = "fixed" /\ isString THEN <<0>> ELSE ivid]
    ELSE [cipher |-> "RC4", key |-> ImplKeyOf(num, gen), iv |-> <<>>]
Item(num, gen, where, plain, container, enc) ==
  [obj |-> <<num, gen>>, where |-> where, plain |-> plain, in |-> container, enc |-> enc]

HasString(v) == v \in Vals \cup {"info"}
MetaPlain == META_MODE = "plain" \/ ~cfg.emd        \* refIsPlaintext[metaRef]
ItemsOfObject(i) ==
  LET e == emitted[i] IN
  CASE e.kind = "plain" ->
         IF HasString(e.val) THEN {Item(e.num, e.gen, "string", <<"s", e.val>>, 0, ImplEnc(e.num, e.gen, <<i, 1>>, TRUE))} ELSE {}
    [] e.kind = "stream" /\ e.val = "meta" ->
         {Item(e.num, e.gen, "metadata", <<"b", "meta">>, 0,
               IF MetaPlain THEN NoEnc ELSE ImplEnc(e.num, e.gen, <<i, 2>>, FALSE))}
    [] e.kind = "stream" /\ e.val # "meta" ->
         {Item(e.num, e.gen, "dictString", <<"d", e.val>>, 0, ImplEnc(e.num, e.gen, <<i, 1>>, TRUE)),
          IF <<e.num, e.gen>> \in ident
            THEN Item(e.num, e.gen, "identity", <<"b", e.val>>, 0, NoEnc)       \* leadingCrypt: no default encryption
            ELSE Item(e.num, e.gen, "body", <<"b", e.val>>, 0, ImplEnc(e.num, e.gen, <<i, 2>>, FALSE))}
    [] e.kind = "objstm" ->
         {Item(e.num, 0, "container", <<"c", ToString(i)>>, 0, ImplEnc(e.num, 0, <<i, 2>>, FALSE))}
         \cup {Item(e.members[k][1], 0, "member", <<"s", e.members[k][2]>>, e.num,
                    IF MEMBER_MODE = "individual" THEN ImplEnc(e.members[k][1], 0, <<i, 2 + k>>, TRUE) ELSE NoEnc)
               : k \in 1..Len(e.members)}
\* Writer.Close sets w.enc = nil before the cross-reference data and trailer
TrailerItems ==
  IF mode # "closed" THEN {}
  ELSE {Item(0, 0, "trailer", <<"id">>, 0, NoEnc), Item(0, 0, "encryptDict", <<"OU">>, 0, NoEnc)}
       \cup (IF trailer.kind = "stream" THEN {Item(trailer.xnum, 0, "xref", <<"x">>, 0, NoEnc)} ELSE {})
ImplItems == UNION {ItemsOfObject(i) : i \in 1..Len(emitted)} \cup TrailerItems

-----------------------------------------------------------------------------
(* State machine *)

Unset == [cipher |-> "unset", emd |-> TRUE, meta |-> FALSE]
CInit == Init /\ cfg = Unset /\ ident = {} /\ metaDone = FALSE
Configured == cfg.cipher # "unset"

\* NewWriter: cipher by version; the metadata stream needs PDF 1.4, leaving
\* it unencrypted needs PDF 1.6
Configure(c, e, m) ==
  /\ ~Configured
  /\ (~e => (m /\ c # "RC4"))
  /\ cfg' = [cipher |-> c, emd |-> e, meta |-> m]
  /\ UNCHANGED <<vars, ident, metaDone>>
\* NewWriter commits the document metadata stream before any program action
EmitMetadata ==
  /\ Configured /\ cfg.meta /\ ~metaDone /\ nops = 0 /\ mode = "idle"
  /\ metaDone' = TRUE
  /\ xref' = [xref EXCEPT ![nextRef] = AtPos(pos, 0)]
  /\ emitted' = Append(emitted, [pos |-> pos, num |-> nextRef, gen |-> 0, kind |-> "stream", val |-> "meta",
                                 members |-> <<>>, len |-> 1, lenRef |-> 0])
  /\ nextRef' = nextRef + 1 /\ pos' = pos + HDR + 1 + HDR
  /\ UNCHANGED <<mode, deferred, cur, written, nops, lastErr, trailer, cfg, ident>>
Ready == Configured /\ (cfg.meta => metaDone)

Keep == Ready /\ UNCHANGED <<cfg, ident, metaDone>>
\* the write programs considered here do not reuse object numbers (the error
\* paths of the Writer are the subject of file/PdfWriter.tla, property C02)
Fresh(n) == xref[n] = NONE /\ \A i \in 1..Len(deferred) : deferred[i][1] # n
\* OpenStream(ref, dict, FilterCryptIdentity{}, ...): the document level
\* encryption wrap is skipped for the data, not for the dictionary's strings
OpenStreamIdentity(n, g, v) ==
  /\ Ready /\ OBJSTM /\ Fresh(n)     \* crypt filters need PDF 1.5
  /\ OpenStream(n, g, v, "none")
  /\ ident' = ident \cup {<<n, g>>}
  /\ UNCHANGED <<cfg, metaDone>>

CAlloc == Keep /\ Alloc
CPut(n, g, v) == Keep /\ Fresh(n) /\ Put(n, g, v)
COpenStream(n, g, v, lg) == Keep /\ Fresh(n) /\ OpenStream(n, g, v, lg)
CStreamWrite(k) == Keep /\ StreamWrite(k)
CCloseStream == Keep /\ CloseStream
CWC2(a, b, v) == Keep /\ Fresh(a) /\ Fresh(b) /\ a # nextRef /\ b # nextRef /\ WC2(a, b, v)
CWC1(a, v) == Keep /\ Fresh(a) /\ a # nextRef /\ WC1(a, v)
CClose == Keep /\ Close

CNext == \/ \E c \in CIPHERS, e \in BOOLEAN, m \in BOOLEAN : Configure(c, e, m)
         \/ EmitMetadata
         \/ CAlloc
         \/ \E n \in ProgNums, g \in {0, 1}, v \in Vals : CPut(n, g, v)
         \/ \E n \in ProgNums, g \in {0, 1}, v \in Vals, lg \in {"none", "right"} : COpenStream(n, g, v, lg)
         \/ \E n \in ProgNums, g \in {0, 1}, v \in Vals : OpenStreamIdentity(n, g, v)
         \/ \E k \in {0, 2} : CStreamWrite(k)
         \/ CCloseStream
         \/ \E a, b \in ProgNums, v \in Vals : CWC2(a, b, v)
         \/ \E a \in ProgNums, v \in Vals : CWC1(a, v)
         \/ CClose
CSpec == CInit /\ [][CNext]_cvars

-----------------------------------------------------------------------------
(* Properties of the Impl items, at every state (a partially written file  *)
(* leaks nothing either)                                                   *)
Ok(P) == Configured => P
NoLeakOK == Ok(NoLeak(cfg, ImplItems))
ExemptPlainOK == Ok(ExemptPlain(cfg, ImplItems))
KeyScopeOK == Ok(KeyScope(cfg, ImplItems))
IVUniqueOK == Ok(IVUnique(ImplItems))
DistinctCipherOK == Ok(DistinctCipher(ImplItems))
MembersContainedOK == Ok(MembersContained(ImplItems))
\* all of them with the items computed once (what the MC configurations check)
AllOK == Ok(LET I == ImplItems
            IN /\ NoLeak(cfg, I) /\ ExemptPlain(cfg, I) /\ KeyScope(cfg, I) /\ IVUnique(I)
               /\ DistinctCipher(I) /\ MembersContained(I)
               /\ \A w \in written : w[3] \in Vals => \E it \in I : it.obj = <<w[1], w[2]>> /\ it.plain[2] = w[3])
\* every written value has its items (nothing is silently left out)
Covered == Ok(\A w \in written : w[3] \in Vals =>
                 \E it \in ImplItems : it.obj = <<w[1], w[2]>> /\ it.plain[2] = w[3])
=============================================================================
