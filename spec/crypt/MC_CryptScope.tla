--------------------------- MODULE MC_CryptScope ---------------------------
(* Bounded exhaustive model of CryptScope: every write program of at most  *)
(* MaxOps calls over object numbers 1..MaxNum (the program part of          *)
(* file/PdfWriter.tla without its error paths) x cipher x EncryptMetadata x *)
(* with/without document metadata; the choices are actions (Configure).     *)
EXTENDS CryptScope
=============================================================================
