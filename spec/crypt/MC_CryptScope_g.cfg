\* state graph for program generation (walked by the harness): one value id
SPECIFICATION CSpec
CONSTANTS MaxNum = 3
  Vals = {"a"}
  OBJSTM = TRUE
  SEEKABLE = FALSE
  MaxOps = 4
  Threshold = 2
  CIPHERS = {"AESV2"}
  IV_MODE = "fresh"
  KEY_MODE = "object"
  MEMBER_MODE = "container"
  META_MODE = "flag"
INVARIANTS NoLeakOK
CHECK_DEADLOCK FALSE
