\* quick, hand-made files: every pair of rectangles over two bytes of a 3-letter alphabet
SPECIFICATION Spec
CONSTANTS B = 3
  WITH_GAPS = TRUE
  RuneMax = 1114111
  HoleLo = 55296
  HoleHi = 57343
  Repl = 65533
  CHUNK = 2
  STACK = 30
  CHUNK_STACK = TRUE
  TU_FROM_START = TRUE
  NOTDEF_OWN = TRUE
  Mode = "rect"
  SpaceNames = {"s2w"}
  FamNames = {"cid", "tu1"}
  ChainSpaces = {}
  MaxTop <- TopFour
  MaxTotal = 0
  MaxDepth = 1
  Wide = FALSE
  WideSpaces = {}
  NotdefOn = FALSE
  MaxRect = 2
INVARIANTS RectOK EmbedOK ReadableOK
CHECK_DEADLOCK FALSE
