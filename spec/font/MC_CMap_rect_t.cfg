\* thorough (in addition to MC_CMap_rect_q.cfg): every rectangle over three bytes of a 3-letter alphabet,
\* alone and with a single
SPECIFICATION Spec
CONSTANTS B = 3
  WITH_GAPS = TRUE
  RuneMax = 1114111
  HoleLo = 55296
  HoleHi = 57343
  Repl = 65533
  CHUNK = 2
  STACK = 30
  CHUNK_STACK = TRUE
  TU_FROM_START = TRUE
  NOTDEF_OWN = TRUE
  Mode = "rect"
  SpaceNames = {"s3"}
  FamNames = {"cid", "tu1"}
  ChainSpaces = {}
  MaxTop <- TopFour
  MaxTotal = 0
  MaxDepth = 1
  Wide = FALSE
  WideSpaces = {}
  NotdefOn = FALSE
  MaxRect = 1
INVARIANTS RectOK EmbedOK ReadableOK
CHECK_DEADLOCK FALSE
