--------------------------- MODULE Gen_Charcode ---------------------------
(* Case table from the reference semantics: every range set of the bounded  *)
(* model with the expected construction outcome and, for every input, the   *)
(* expected <<valid, consumed>>.  The harness concretises the abstract      *)
(* bytes by order preserving maps and executes each line on font/charcode.  *)
EXTENDS Charcode, Json, IOUtils, SequencesExt
CONSTANTS MaxLen, MaxRanges, Lens3, Shard, Shards

SeqsOf(n) == [1..n -> Byte]
Inputs == UNION {SeqsOf(n) : n \in 1..MaxLen}
GoodRange(r) == \A i \in 1..Len(r.lo) : r.lo[i] <= r.hi[i]
Ranges == {r \in UNION {{[lo |-> l, hi |-> h] : l \in SeqsOf(n), h \in SeqsOf(n)} : n \in 1..MaxLen} : GoodRange(r)}
Ranges3 == {r \in Ranges : RLen(r) \in Lens3}
RangeSeq == SetToSeq(Ranges)
\* sharding by the index of the first range keeps the runs independent
Mine(i) == i % Shards = Shard
Sets1 == {{RangeSeq[i]} : i \in {k \in 1..Len(RangeSeq) : Mine(k)}}
Sets2 == IF MaxRanges < 2 THEN {} ELSE
         {{RangeSeq[i], RangeSeq[j]} : <<i, j>> \in {p \in (1..Len(RangeSeq)) \X (1..Len(RangeSeq)) : p[1] < p[2] /\ Mine(p[1])}}
Sets3 == IF MaxRanges < 3 THEN {} ELSE
         LET R3 == SetToSeq(Ranges3) IN
         {{R3[p[1]], R3[p[2]], R3[p[3]]} : p \in {p \in (1..Len(R3)) \X (1..Len(R3)) \X (1..Len(R3)) : p[1] < p[2] /\ p[2] < p[3] /\ Mine(p[1])}}
RangeSets == Sets1 \cup Sets2 \cup Sets3

InputSeq == SetToSeq(Inputs)
Case(rs) ==
  LET ok == PrefixFree(rs)
  IN [ranges |-> SetToSeq(rs),
      builds |-> ok,
      probes |-> IF ok THEN [i \in 1..Len(InputSeq) |->
                    LET s == InputSeq[i] d == RefDecode(rs, s)
                    IN [s |-> s, valid |-> d[1], consumed |-> d[2], complete |-> Complete(rs, s)]]
                 ELSE <<>>]
ASSUME ndJsonSerialize(IOEnv.OUT, [i \in 1..Cardinality(RangeSets) |-> Case(SetToSeq(RangeSets)[i])])
VARIABLE x
Init == x = 0
Next == UNCHANGED x
=============================================================================
