\* thorough: B=3, lengths <= 3, up to 2 ranges, 3 ranges of length <= 2
SPECIFICATION Spec
CONSTANTS B = 3
  WITH_GAPS = TRUE
  MaxLen = 3
  MaxRanges = 3
  Lens3 = {1, 2}
INVARIANTS BuildOK DecodeOK ReencodeOK CSROK
CHECK_DEADLOCK FALSE
