\* negative control: LookupCID as at the pinned commit (a file with a parent never consults its own
\* notdef entries); must FAIL LookupOK
SPECIFICATION Spec
CONSTANTS B = 4
  WITH_GAPS = TRUE
  RuneMax = 1114111
  HoleLo = 55296
  HoleHi = 57343
  Repl = 65533
  CHUNK = 2
  STACK = 7
  CHUNK_STACK = TRUE
  TU_FROM_START = TRUE
  NOTDEF_OWN = FALSE
  Mode = "map"
  SpaceNames = {"s1"}
  FamNames = {"cid"}
  ChainSpaces = {"s1"}
  MaxTop <- TopFour
  MaxTotal = 2
  MaxDepth = 2
  Wide = FALSE
  WideSpaces = {}
  NotdefOn = TRUE
  MaxRect = 0
INVARIANTS LookupOK
CHECK_DEADLOCK FALSE
