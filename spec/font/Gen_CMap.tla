----------------------------- MODULE Gen_CMap -----------------------------
(* Case table from the reference semantics.  Mode "map": every chain of the *)
(* bounded universe of MC_CMap (same rules: maps with up to MaxTop entries, *)
(* chains of up to MaxDepth layers with up to MaxTotal entries, non-top     *)
(* layers not empty) for one code space and one value family, with the      *)
(* answer RefCID / RefTU prescribes for every probe that some layer maps or *)
(* some notdef range covers (all other probes have the default answer: CID  *)
(* 0 / absent), and the chain read as one map.  Mode "rect": hand-made      *)
(* files of one or two non-overlapping rectangular ranges (and a single)    *)
(* with the answers of RefFileCID / RefFileTU.  The harness concretises the *)
(* abstract bytes and executes each line on font/cmap.                      *)
EXTENDS CMapBounds, Json, IOUtils, SequencesExt
CONSTANTS Mode, SpName, Fam, Parts, MaxTop, MaxTotal, MaxDepth, NotdefOn, Shard, Shards
\* Parts: which of "single", "two", "three" (layers) this run emits

sp == SpName
rs == SeqRange(Space(sp))
Short == [1..1 -> Byte] \cup [1..2 -> Byte]
Probes == Codes(rs) \cup Short
ProbeSeq == SetToSeq(Probes)

\* layers with exactly k entries
MapsOf(k) == UNION {{{[c |-> c, v |-> f[c]] : c \in S} : f \in [S -> Values(Fam, sp)]} :
                      S \in {T \in SUBSET Codes(rs) : Cardinality(T) = k}}
NotdefOpts == {<<>>} \cup (IF NotdefOn /\ IsCID(Fam) THEN {<<r>> : r \in NotdefChoices(sp)} ELSE {})
LayersOf(k) == {[map |-> m, notdef |-> nd] : m \in MapsOf(k), nd \in NotdefOpts}
Trivial(l) == l.map = {} /\ l.notdef = <<>>

Single == IF "single" \notin Parts THEN {} ELSE UNION {{<<l>> : l \in LayersOf(k)} : k \in 0..MaxTop}
\* <<top, root>>: Push needs fewer than MaxTotal entries and a non-trivial root
Two == IF "two" \notin Parts \/ MaxDepth < 2 THEN {} ELSE
       UNION {{<<t, r>> : t \in LayersOf(p[2]), r \in {l \in LayersOf(p[1]) : ~Trivial(l)}} :
                p \in {q \in (0..(MaxTotal - 1)) \X (0..MaxTotal) : q[1] + q[2] <= MaxTotal}}
Three == IF "three" \notin Parts \/ MaxDepth < 3 THEN {} ELSE
         UNION {{<<t, m, r>> : t \in LayersOf(p[3]), m \in {l \in LayersOf(p[2]) : ~Trivial(l)},
                               r \in {l \in LayersOf(p[1]) : ~Trivial(l)}} :
                  p \in {q \in (0..(MaxTotal - 1)) \X (0..(MaxTotal - 1)) \X (0..MaxTotal) :
                            q[1] + q[2] < MaxTotal /\ q[1] + q[2] + q[3] <= MaxTotal}}
Chains == Single \cup Two \cup Three
ChainSeq == SetToSeq(Chains)
Mine == {i \in 1..Len(ChainSeq) : i % Shards = Shard}

LayerOut(l) == [entries |-> SetToSeq(l.map), notdef |-> l.notdef]
Source(chain, c) == IF Mapping(chain, c) # {} THEN "map"
                    ELSE IF \E i \in 1..Len(chain) : NotdefHits(chain[i], c) # {} THEN "notdef" ELSE "none"
CaseOf(chain) ==
  LET determined == SelectSeq(ProbeSeq, LAMBDA c : Source(chain, c) # "none")
  IN [kind |-> IF IsCID(Fam) THEN "cid" ELSE "tu", fam |-> Fam, sp |-> sp, csr |-> Space(sp),
      layers |-> [i \in 1..Len(chain) |-> LayerOut(chain[i])],
      expect |-> [i \in 1..Len(determined) |->
                    [c |-> determined[i], src |-> Source(chain, determined[i]),
                     v |-> IF IsCID(Fam) THEN RefCID(chain, determined[i]) ELSE RefTU(chain, determined[i]).v]],
      merged |-> SetToSeq(Merged(chain))]
MapCases == LET idx == SetToSeq(Mine) IN [k \in 1..Len(idx) |-> CaseOf(ChainSeq[idx[k]])]

-----------------------------------------------------------------------------
(* hand-made files *)
N == Len(Space(sp)[1].lo)
InSpace(c) == InRect(Space(sp)[1].lo, Space(sp)[1].hi, c)
Bounds == {p \in [1..N -> Byte] \X [1..N -> Byte] : RangeIsValid(p[1], p[2]) /\ InSpace(p[1]) /\ InSpace(p[2])}
RectValues(first, last) ==
  IF IsCID(Fam) THEN {0, 5}
  ELSE {<<<<48>>>>, <<<<102, 48>>>>, [k \in 1..RectSize(first, last) |-> <<65 + ((2 * k) % 5)>>]}
RangesOf == UNION {{IF IsCID(Fam) THEN [first |-> p[1], last |-> p[2], v |-> v] ELSE [first |-> p[1], last |-> p[2], vals |-> v] :
                      v \in RectValues(p[1], p[2])} : p \in Bounds}
RangeSeq == SetToSeq(RangesOf)
FileOf(ranges, singles) ==
  IF IsCID(Fam) THEN [cs |-> Space(sp), singles |-> singles, ranges |-> ranges, nsingles |-> <<>>, nranges |-> <<>>, parent |-> NoFile]
  ELSE [cs |-> Space(sp), singles |-> singles, ranges |-> ranges, parent |-> NoFile]
SingleValue == IF IsCID(Fam) THEN 7 ELSE <<90>>
Files == {FileOf(<<r>>, <<>>) : r \in RangesOf}
         \cup {FileOf(<<r>>, <<[code |-> c, v |-> SingleValue]>>) : r \in RangesOf, c \in Codes(rs)}
         \cup {FileOf(<<RangeSeq[p[1]], RangeSeq[p[2]]>>, <<>>) : p \in {q \in (1..Len(RangeSeq)) \X (1..Len(RangeSeq)) : q[1] # q[2]}}
GoodFiles == {f \in Files : NonOverlapping(f)}
FileSeq == SetToSeq(GoodFiles)
MineF == {i \in 1..Len(FileSeq) : i % Shards = Shard}
AllStrings == UNION {[1..n -> Byte] : n \in 1..N}
Mapped(f, c) == SingleHitsF(f, c) # {} \/ RangeHitsF(f, c) # {}
RectCaseOf(f) ==
  LET determined == SelectSeq(SetToSeq(AllStrings), LAMBDA c : Mapped(f, c))
  IN [kind |-> IF IsCID(Fam) THEN "rect-cid" ELSE "rect-tu", fam |-> Fam, sp |-> sp, csr |-> Space(sp),
      file |-> [singles |-> f.singles, ranges |-> f.ranges],
      expect |-> [i \in 1..Len(determined) |->
                    [c |-> determined[i], src |-> "map",
                     v |-> IF IsCID(Fam) THEN RefFileCID(f, determined[i]) ELSE RefFileTU(f, determined[i]).v]]]
RectCases == LET idx == SetToSeq(MineF) IN [k \in 1..Len(idx) |-> RectCaseOf(FileSeq[idx[k]])]

ASSUME ndJsonSerialize(IOEnv.OUT, IF Mode = "map" THEN MapCases ELSE RectCases)
VARIABLE x
Init == x = 0
Next == UNCHANGED x
=============================================================================
