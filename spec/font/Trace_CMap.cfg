SPECIFICATION Spec
CONSTANTS B = 256
  WITH_GAPS = TRUE
  RuneMax = 1114111
  HoleLo = 55296
  HoleHi = 57343
  Repl = 65533
  TU_FROM_START = TRUE
  NOTDEF_OWN = TRUE
  CHUNK = 100
  STACK = 500
  CHUNK_STACK = TRUE
CHECK_DEADLOCK FALSE
