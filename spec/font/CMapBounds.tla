----------------------------- MODULE CMapBounds -----------------------------
(* The bounded universe shared by the exhaustive model (MC_CMap) and the     *)
(* case generator (Gen_CMap): code spaces over the byte alphabet 0..B-1,     *)
(* value families with four (Wide: five or six) values each, chosen so that  *)
(* every pattern of consecutive / equal / non-consecutive neighbours occurs, *)
(* and the notdef ranges a layer of a CID chain may carry.  Runes are real   *)
(* Unicode code points (RuneMax, HoleLo.. are the real constants in every    *)
(* configuration), so "the last rune at the top of its block" is U+D7FF and  *)
(* U+10FFFF themselves.                                                      *)
EXTENDS CMap
CONSTANTS Wide,        \* TRUE: one or two more values per family ...
          WideSpaces   \* ... in these code spaces
WideIn(n) == Wide /\ n \in WideSpaces

Space(n) ==
  CASE n = "s1"   -> <<[lo |-> <<0>>, hi |-> <<B - 1>>]>>
    [] n = "s2"   -> <<[lo |-> <<0, 0>>, hi |-> <<1, B - 1>>]>>
    [] n = "s2w"  -> <<[lo |-> <<0, 0>>, hi |-> <<B - 1, B - 1>>]>>
    [] n = "mix"  -> <<[lo |-> <<0>>, hi |-> <<1>>], [lo |-> <<2, 0>>, hi |-> <<2, B - 1>>]>>
    \* mixed lengths where the longer codes start with byte 0 (concretised as 0x00): a run of
    \* consecutive last bytes can cross from one code length to the other, <0,0> <1> <2> <0,3>
    [] n = "mix0" -> <<[lo |-> <<1>>, hi |-> <<2>>], [lo |-> <<0, 0>>, hi |-> <<0, B - 1>>]>>
    [] n = "mixw" -> <<[lo |-> <<0>>, hi |-> <<1>>], [lo |-> <<2, 0>>, hi |-> <<B - 1, B - 1>>]>>
    [] n = "s3"   -> <<[lo |-> <<0, 0, 0>>, hi |-> <<1, B - 1, B - 1>>]>>
IsCID(f) == f = "cid"
Values(f, n) ==
  CASE f = "cid"    -> {0, 1, 2, 3} \cup (IF WideIn(n) THEN {6} ELSE {})
    [] f = "tu1"    -> {<<65>>, <<66>>, <<67>>, <<68>>} \cup (IF WideIn(n) THEN {<<HoleLo - 1>>} ELSE {})
    [] f = "tuEdge" -> {<<HoleLo - 2>>, <<HoleLo - 1>>, <<Repl>>, <<Repl + 1>>} \cup (IF WideIn(n) THEN {<<RuneMax>>} ELSE {})
    \* two-rune texts whose last runes are consecutive while the leading rune is equal (a genuine
    \* incrementing range) or not ("fi", "fj", "tj", "tk"); Wide: a longer text, a low byte at FF
    [] f = "tuPrefix" -> {<<102, 105>>, <<102, 106>>, <<116, 106>>, <<116, 107>>} \cup (IF WideIn(n) THEN {<<102, 105, 106>>, <<116, 255>>} ELSE {})
    [] f = "tuMix"  -> {<<>>, <<102>>, <<102, 105>>, <<102, 106>>} \cup (IF WideIn(n) THEN {<<102, HoleLo - 1>>, <<102, Repl>>} ELSE {})
NotdefChoices(n) ==
  CASE n = "s1"  -> {[lo |-> <<0>>, hi |-> <<1>>, v |-> 9]} \cup (IF WideIn(n) THEN {[lo |-> <<1>>, hi |-> <<B - 1>>, v |-> 8]} ELSE {})
    [] n = "mix" -> {[lo |-> <<2, 1>>, hi |-> <<2, B - 1>>, v |-> 8]} \cup (IF WideIn(n) THEN {[lo |-> <<0>>, hi |-> <<0>>, v |-> 9]} ELSE {})
    [] n = "mixw" -> {}
    [] OTHER     -> {[lo |-> <<0, 0>>, hi |-> <<0, B - 1>>, v |-> 9]}
TopQuick(n) == IF n = "s1" THEN 4 ELSE 3
TopFour(n) == 4
=============================================================================
