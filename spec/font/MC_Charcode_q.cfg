\* quick: B=3, lengths <= 2, up to 2 ranges (+3 ranges of length 1..2)
SPECIFICATION Spec
CONSTANTS B = 3
  WITH_GAPS = TRUE
  MaxLen = 2
  MaxRanges = 3
  Lens3 = {1, 2}
INVARIANTS BuildOK DecodeOK ReencodeOK CSROK
CHECK_DEADLOCK FALSE
