SPECIFICATION Spec
CONSTANTS B = 256
  WITH_GAPS = TRUE
CHECK_DEADLOCK FALSE
