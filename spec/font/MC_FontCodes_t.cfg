SPECIFICATION Spec
CONSTANTS Fonts <- F2
  Cap <- CapMC
  CodeSet <- CodeSetMC
  PerGlyph <- PerGlyphMC
  Glyphs = {1, 2}
  Texts = {"a", "b"}
  WidthOf <- WidthMC
  Tol = 1
  ROUNDS = TRUE
  MaxShown = 1
  MaxLen = 3
INVARIANTS Injective InfoMatches ShownOK ReaderAgrees WidthRounding
CHECK_DEADLOCK FALSE
