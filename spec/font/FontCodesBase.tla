--------------------------- MODULE FontCodesBase ---------------------------
(* The allocation rules of a font encoder as pure operators on one font's   *)
(* tables tab = [code : (glyph, text) -|-> code, info : code -|-> [g, w, t]].*)
(* FontCodes.tla turns them into a state machine; Trace_FontCodes judges    *)
(* events of the real encoders with them.                                   *)
EXTENDS Naturals, Sequences, FiniteSets, TLC

EmptyTab == [code |-> <<>>, info |-> <<>>]
KnownIn(tab, p) == p \in DOMAIN tab.code
FullAt(tab, cap) == Cardinality(DOMAIN tab.info) >= cap

\* a font whose CMap is fixed (Identity-H: the code IS the CID) has one code per glyph:
\* a second text for a glyph that has its code cannot be encoded
GlyphTaken(tab, p) == \E q \in DOMAIN tab.code : q[1] = p[1] /\ q # p
\* Encode(p) answered <<ok, c>>: the remembered code; else any free code; failure only when the
\* font is full or (one code per glyph) the glyph's code carries another text
EncodeAnswerOK(tab, cap, perGlyph, p, ok, c) ==
  IF KnownIn(tab, p) THEN ok /\ c = tab.code[p]
  ELSE IF perGlyph /\ GlyphTaken(tab, p) THEN ~ok
  ELSE IF FullAt(tab, cap) THEN ~ok
  ELSE ok /\ c \notin DOMAIN tab.info
\* the pair can never get a code any more
Unencodable(tab, cap, perGlyph, p) == ~KnownIn(tab, p) /\ (FullAt(tab, cap) \/ (perGlyph /\ GlyphTaken(tab, p)))
\* the tables after a fresh allocation
Allocate(tab, p, c, w) ==
  [code |-> [q \in DOMAIN tab.code \cup {p} |-> IF q = p THEN c ELSE tab.code[q]],
   info |-> [d \in DOMAIN tab.info \cup {c} |-> IF d = c THEN [g |-> p[1], w |-> w, t |-> p[2]] ELSE tab.info[d]]]
\* the codes written for a glyph sequence: those of the encodable pairs, in order
CodesFor(tab, pairs) == LET RECURSIVE S(_)
                            S(i) == IF i > Len(pairs) THEN <<>>
                                    ELSE (IF KnownIn(tab, pairs[i]) THEN <<tab.code[pairs[i]]>> ELSE <<>>) \o S(i + 1)
                        IN S(1)
AbsDiff(a, b) == IF a >= b THEN a - b ELSE b - a
\* a reader's answer for one code agrees with the writer's table
ReadAgrees(tab, c, w, t, tol) == c \in DOMAIN tab.info /\ tab.info[c].t = t /\ AbsDiff(tab.info[c].w, w) <= tol
\* distinct pairs never share a code; the two tables describe each other
TabInjective(tab) == \A p, q \in DOMAIN tab.code : p # q => tab.code[p] # tab.code[q]
TabConsistent(tab) == /\ \A p \in DOMAIN tab.code : tab.code[p] \in DOMAIN tab.info /\ tab.info[tab.code[p]].g = p[1] /\ tab.info[tab.code[p]].t = p[2]
                      /\ Cardinality(DOMAIN tab.info) = Cardinality(DOMAIN tab.code)
=============================================================================
