-------------------------- MODULE Trace_FontCodes --------------------------
(* Judges the events of one document written and read back by go-pdf         *)
(* against the allocation rules of FontCodesBase.  One record:               *)
(*   [fonts : [cap, perglyph], events, err, closeerr, tolerate]   with events  *)
(*   in order,                                                               *)
(*   [op |-> "enc",  f, g, t, ok, c, w, wt]   Layouter.Encode(g, t) = (c, ok) *)
(*                                            and what the writer-side Codes *)
(*                                            says for c: width w, text wt   *)
(*   [op |-> "show", f, pairs : [g, t]]       TextShowGlyphs of these glyphs *)
(*   [op |-> "read", f, codes : [c, w, t], chars : [w, t]]                   *)
(*        one text-showing operator of the page read back: the string split  *)
(*        by the extracted font's codec, extract.Font(...).Codes on it, and  *)
(*        the reader's Character callbacks                                   *)
(* codes are byte sequences, texts rune sequences, widths integers (1e-6     *)
(* text space units), f the index of the font.                               *)
EXTENDS FontCodesBase, TraceLib

CONSTANT Tol
Cases == Records

\* state of the fold: tabs (per font), queue of expected <<f, codes>> (one per non-empty Show), ok
RECURSIVE Fold(_, _, _, _, _)
Fold(c, k, tabs, queue, reads) ==
  IF k > Len(c.events) THEN c.closeerr # "" \/ reads = Len(queue)   \* every shown string was read back, and nothing else
  ELSE LET e == c.events[k]
           tab == tabs[e.f]
       IN IF e.op = "enc"
          THEN LET p == <<e.g, e.t>>
                   \* record judged a second time with c.tolerate: a font with one code per glyph
                   \* may answer the glyph's existing code for a second text (recorded finding);
                   \* the pair then is an alias of that code, whose text stays the first one
                   alias == /\ c.tolerate /\ c.fonts[e.f].perglyph /\ ~KnownIn(tab, p) /\ e.ok
                            /\ \E q \in DOMAIN tab.code : q[1] = p[1] /\ tab.code[q] = e.c
               IN IF alias
                  THEN Fold(c, k + 1, [tabs EXCEPT ![e.f].code = [q \in DOMAIN tab.code \cup {p} |-> IF q = p THEN e.c ELSE tab.code[q]]],
                            queue, reads)
                  ELSE
                  /\ EncodeAnswerOK(tab, c.fonts[e.f].cap, c.fonts[e.f].perglyph, p, e.ok, e.c)
                  /\ IF e.ok /\ ~KnownIn(tab, p)
                     THEN /\ e.wt = e.t    \* the writer's own table holds the pair's text
                          /\ Fold(c, k + 1, [tabs EXCEPT ![e.f] = Allocate(tab, p, e.c, e.w)], queue, reads)
                     ELSE /\ e.ok => (tab.info[e.c].w = e.w /\ (c.tolerate \/ e.wt = e.t))
                          /\ Fold(c, k + 1, tabs, queue, reads)
          ELSE IF e.op = "show"
          THEN LET pairs == [i \in 1..Len(e.pairs) |-> <<e.pairs[i].g, e.pairs[i].t>>]
                   cs == CodesFor(tab, pairs)
               IN \* Show comes after the Encode calls of its glyphs: a pair is known or the font is full
                  /\ \A i \in 1..Len(pairs) : KnownIn(tab, pairs[i]) \/ Unencodable(tab, c.fonts[e.f].cap, c.fonts[e.f].perglyph, pairs[i])
                  /\ Fold(c, k + 1, tabs, IF cs = <<>> THEN queue ELSE Append(queue, [f |-> e.f, cs |-> cs]), reads)
          ELSE \* "read": the next shown string, decoded by the reader
               /\ reads < Len(queue)
               /\ LET want == queue[reads + 1]
                  IN /\ e.f = want.f
                     /\ Len(e.codes) = Len(want.cs) /\ Len(e.chars) = Len(want.cs)
                     /\ \A i \in 1..Len(want.cs) :
                           /\ e.codes[i].c = want.cs[i]
                           /\ ReadAgrees(tab, want.cs[i], e.codes[i].w, e.codes[i].t, Tol)
                           /\ ReadAgrees(tab, want.cs[i], e.chars[i].w, e.chars[i].t, Tol)
               /\ Fold(c, k + 1, tabs, queue, reads + 1)

\* closing the document may fail only after an Encode that failed for lack of codes
\* (simpleenc remembers the overflow and refuses to embed the font)
Overflowed(c) == \E k \in 1..Len(c.events) : c.events[k].op = "enc" /\ ~c.events[k].ok /\ ~c.fonts[c.events[k].f].perglyph
CaseOK(c) == /\ c.err = ""
             /\ c.closeerr # "" => Overflowed(c)
             /\ Fold(c, 1, [f \in 1..Len(c.fonts) |-> EmptyTab], <<>>, 0)

VARIABLES i, bad, done
vars == <<i, bad, done>>
Init == i = 1 /\ bad = <<>> /\ done = FALSE
Step == /\ i <= Len(Cases)
        /\ i' = i + 1
        /\ bad' = IF CaseOK(Cases[i]) THEN bad ELSE Append(bad, i)
        /\ UNCHANGED done
Finish == /\ i = Len(Cases) + 1 /\ ~done
          /\ done' = TRUE
          /\ WriteVerdict(bad)
          /\ UNCHANGED <<i, bad>>
Next == Step \/ Finish
Spec == Init /\ [][Next]_vars
=============================================================================
