\* negative control: bfrange sections cut by entry count only (as coded); must FAIL ReadableOK: the
\* operands of the first entry plus the open value list of the second exceed the operand stack
SPECIFICATION Spec
CONSTANTS B = 4
  WITH_GAPS = TRUE
  RuneMax = 1114111
  HoleLo = 55296
  HoleHi = 57343
  Repl = 65533
  CHUNK = 2
  STACK = 7
  CHUNK_STACK = FALSE
  TU_FROM_START = TRUE
  NOTDEF_OWN = TRUE
  Mode = "map"
  SpaceNames = {"s2"}
  FamNames = {"tu1"}
  ChainSpaces = {}
  MaxTop <- TopFour
  MaxTotal = 0
  MaxDepth = 1
  Wide = FALSE
  WideSpaces = {}
  NotdefOn = FALSE
  MaxRect = 0
INVARIANTS ReadableOK
CHECK_DEADLOCK FALSE
