\* thorough, second model: B=2, lengths <= 4 (four-byte ranges), up to 2 ranges, 3 ranges of length <= 2
SPECIFICATION Spec
CONSTANTS B = 2
  WITH_GAPS = TRUE
  MaxLen = 4
  MaxRanges = 3
  Lens3 = {1, 2}
INVARIANTS BuildOK DecodeOK ReencodeOK CSROK
CHECK_DEADLOCK FALSE
