------------------------------- MODULE CMap -------------------------------
(***************************************************************************)
(* CMaps (code -> CID) and ToUnicode CMaps (code -> text) of go-pdf        *)
(* (font/cmap), on top of the code space semantics of Charcode.            *)
(*                                                                         *)
(*  Ref...   what a CMap means.  Two levels:                               *)
(*           - a CHAIN of layers (child first); a layer is a finite map    *)
(*             code -> value plus notdef ranges.  RefCID / RefTU say what  *)
(*             a lookup must answer (ISO 32000-2 9.7.5.4, 9.7.6.3, 9.10.3; *)
(*             Adobe TN 5014 "usecmap": the child's definitions override   *)
(*             the parent's, notdef applies to codes no layer maps).       *)
(*           - a FILE (cidchar / cidrange / bfchar / bfrange / notdefrange *)
(*             / usecmap) whose entries do not overlap: RefFileCID/TU,     *)
(*             with the position in a range defined declaratively as the   *)
(*             lexicographic rank inside the rectangle.                    *)
(*  Impl...  the shape of the code: SetMapping / NewToUnicodeFile          *)
(*           (grouping by all-but-last byte, run splitting, single vs      *)
(*           range, list vs increment form, parent suppression),           *)
(*           rangeIndex (mixed radix), codesInRange (odometer), LookupCID, *)
(*           LookupNotdefCID, Lookup, All, and the writer/reader pair      *)
(*           (chunks of CHUNK entries, entries with empty or unequal       *)
(*           bounds dropped on reading).                                   *)
(*                                                                         *)
(* Bytes are 0..B-1 (see Charcode).  Runes are naturals: valid runes are   *)
(* 0..RuneMax without HoleLo..HoleHi (the surrogates); converting an       *)
(* invalid rune to a string gives Repl (U+FFFD) -- that is what Go's       *)
(* string([]rune) does, and nextString relies on it.                       *)
(*                                                                         *)
(* Three switches keep the as-coded behaviour at the pinned commit apart   *)
(* from the sound one (the exhaustive models hold for TRUE and fail for    *)
(* FALSE; real executions are judged by Ref... only):                      *)
(*   TU_FROM_START  the increment form of a bfrange is chosen by comparing *)
(*                  value j with base+j (TRUE) / with its predecessor+1    *)
(*                  (FALSE, as coded: wrong once an increment passes       *)
(*                  through an invalid rune)                               *)
(*   NOTDEF_OWN     a file's own notdef entries are consulted although it  *)
(*                  has a parent, and SetMapping drops an entry only when  *)
(*                  the parent chain MAPS the code to the same CID (TRUE)  *)
(*                  / only the root's notdef entries are ever consulted,   *)
(*                  SetMapping drops an entry when the parent's LookupCID  *)
(*                  (notdef included) gives the same CID (FALSE, as coded) *)
(*   CHUNK_STACK    the bfrange sections of a ToUnicode stream are cut so  *)
(*                  that the reading PostScript interpreter's operand stack*)
(*                  (STACK objects) can hold a section's operands while a  *)
(*                  value array is being built (TRUE) / sections are cut   *)
(*                  by entry count only (FALSE, as coded)                  *)
(* ("as coded" = font/cmap before the repairs ec5b7ba, b4574b9, ce25cad)   *)
(***************************************************************************)
EXTENDS Charcode

CONSTANTS RuneMax, HoleLo, HoleHi, Repl,
          TU_FROM_START, NOTDEF_OWN,
          CHUNK,           \* entries per begin...char / begin...range section (100 in the code)
          STACK,           \* operand stack depth of the PostScript interpreter that reads the stream (500)
          CHUNK_STACK

-----------------------------------------------------------------------------
(* Codes *)

InRect(first, last, c) == /\ Len(c) = Len(first) /\ Len(last) = Len(first)
                          /\ \A i \in 1..Len(c) : first[i] <= c[i] /\ c[i] <= last[i]
Rect(first, last) == {s \in [1..Len(first) -> Byte] : InRect(first, last, s)}
\* the codes of a (prefix free) code space
Codes(cs) == UNION {Rect(r.lo, r.hi) : r \in cs}
\* s is exactly one code of cs (what All demands of codec.Decode)
FullCode(cs, s) == s # <<>> /\ RefDecode(cs, s) = <<TRUE, Len(s)>>

\* lexicographic order on byte strings (slices.Compare): a proper prefix sorts first
RECURSIVE SeqLess(_, _)
SeqLess(a, b) == IF b = <<>> THEN FALSE
                 ELSE IF a = <<>> THEN TRUE
                 ELSE IF Head(a) # Head(b) THEN Head(a) < Head(b)
                 ELSE SeqLess(Tail(a), Tail(b))
\* position of c in its rectangle, first byte most significant: declaratively ...
LexRank(first, last, c) == Cardinality({d \in Rect(first, last) : SeqLess(d, c)})
\* ... and in closed form (equal to LexRank on every rectangle: checked exhaustively in
\* MC_CMap; used where rectangles are too big to enumerate)
RECURSIVE RankFrom(_, _, _, _)
RankFrom(first, last, c, i) ==
  IF i > Len(c) THEN 0
  ELSE LET RECURSIVE Below(_)
           Below(j) == IF j > Len(c) THEN 1 ELSE (last[j] - first[j] + 1) * Below(j + 1)
       IN (c[i] - first[i]) * Below(i + 1) + RankFrom(first, last, c, i + 1)
RankFormula(first, last, c) == RankFrom(first, last, c, 1)
RectSize(first, last) == LET RECURSIVE P(_)
                             P(j) == IF j > Len(first) THEN 1 ELSE (last[j] - first[j] + 1) * P(j + 1)
                         IN P(1)

-----------------------------------------------------------------------------
(* Text *)

ValidRune(x) == x <= RuneMax /\ ~(HoleLo <= x /\ x <= HoleHi)
Fix(x) == IF ValidRune(x) THEN x ELSE Repl
ValidText(t) == \A i \in 1..Len(t) : ValidRune(t[i])
\* nextString(s, k): add k to the last rune, then convert back to a string
IncText(t, k) == IF t = <<>> THEN <<>> ELSE [t EXCEPT ![Len(t)] = Fix(t[Len(t)] + k)]

-----------------------------------------------------------------------------
(* Reference semantics of a chain of layers                                *)
(* layer = [map : set of [c, v] with distinct c, notdef : sequence of      *)
(*          [lo, hi, v]] ; chain = sequence of layers, child first         *)

Has(es, c) == \E e \in es : e.c = c
Get(es, c) == (CHOOSE e \in es : e.c = c).v
IsMap(es) == \A e, g \in es : e.c = g.c => e = g

Mapping(chain, c) == {i \in 1..Len(chain) : Has(chain[i].map, c)}
NotdefHits(layer, c) == {k \in 1..Len(layer.notdef) : InRect(layer.notdef[k].lo, layer.notdef[k].hi, c)}
\* CID 0 is .notdef: the answer for a code nobody maps and no notdef range covers
RefCID(chain, c) ==
  LET hits == Mapping(chain, c)
      nd == {i \in 1..Len(chain) : NotdefHits(chain[i], c) # {}}
  IN IF hits # {} THEN Get(chain[Min(hits)].map, c)
     ELSE IF nd # {} THEN LET l == chain[Min(nd)] IN l.notdef[Min(NotdefHits(l, c))].v
     ELSE 0
\* a ToUnicode lookup answers [ok, v]; absent is [ok |-> FALSE, v |-> <<>>]
Absent == [ok |-> FALSE, v |-> <<>>]
RefTU(chain, c) ==
  LET hits == Mapping(chain, c)
  IN IF hits # {} THEN [ok |-> TRUE, v |-> Get(chain[Min(hits)].map, c)] ELSE Absent
\* the chain read as one map
Merged(chain) == {[c |-> c, v |-> Get(chain[Min(Mapping(chain, c))].map, c)] :
                     c \in UNION {{e.c : e \in chain[i].map} : i \in 1..Len(chain)}}

-----------------------------------------------------------------------------
(* Files                                                                   *)
(* CID file: [cs, singles : Seq([code, v]), ranges : Seq([first, last, v]),*)
(*            nsingles, nranges (notdef), parent]                          *)
(* TU  file: [cs, singles : Seq([code, v]), ranges : Seq([first, last,     *)
(*            vals]), parent]                                              *)

NoFile == [isnone |-> TRUE]
HasParent(f) == "isnone" \notin DOMAIN f.parent

RECURSIVE Depth(_)
Depth(f) == IF HasParent(f) THEN 1 + Depth(f.parent) ELSE 1
RECURSIVE RootFirst(_)
RootFirst(f) == IF HasParent(f) THEN Append(RootFirst(f.parent), f) ELSE <<f>>

\* reference meaning of a file whose entries do not overlap
TUValueAt(r, k) == IF k < Len(r.vals) THEN r.vals[k + 1] ELSE IncText(r.vals[1], k)
SingleHitsF(f, c) == {k \in 1..Len(f.singles) : f.singles[k].code = c}
RangeHitsF(f, c) == {k \in 1..Len(f.ranges) : InRect(f.ranges[k].first, f.ranges[k].last, c)}
NonOverlapping(f) == \A c \in UNION ({{f.singles[k].code} : k \in 1..Len(f.singles)}
                               \cup {Rect(f.ranges[k].first, f.ranges[k].last) : k \in 1..Len(f.ranges)}) :
                        Cardinality(SingleHitsF(f, c)) + Cardinality(RangeHitsF(f, c)) = 1
RECURSIVE RefFileCID(_, _)
RefFileCID(f, c) ==
  IF SingleHitsF(f, c) # {} THEN f.singles[CHOOSE k \in SingleHitsF(f, c) : TRUE].v
  ELSE IF RangeHitsF(f, c) # {}
       THEN LET r == f.ranges[CHOOSE k \in RangeHitsF(f, c) : TRUE] IN r.v + LexRank(r.first, r.last, c)
  ELSE IF HasParent(f) THEN RefFileCID(f.parent, c) ELSE 0
RECURSIVE RefFileTU(_, _)
RefFileTU(f, c) ==
  IF SingleHitsF(f, c) # {} THEN [ok |-> TRUE, v |-> f.singles[CHOOSE k \in SingleHitsF(f, c) : TRUE].v]
  ELSE IF RangeHitsF(f, c) # {}
       THEN LET r == f.ranges[CHOOSE k \in RangeHitsF(f, c) : TRUE]
            IN [ok |-> TRUE, v |-> TUValueAt(r, LexRank(r.first, r.last, c))]
  ELSE IF HasParent(f) THEN RefFileTU(f.parent, c) ELSE Absent

-----------------------------------------------------------------------------
(* Implementation shape: rangeIndex and codesInRange *)

RECURSIVE RI(_, _, _, _, _)
RI(first, last, code, i, acc) ==
  IF i > Len(code) THEN <<TRUE, acc>>
  ELSE IF code[i] < first[i] \/ code[i] > last[i] THEN <<FALSE, 0>>
  ELSE RI(first, last, code, i + 1, acc * (last[i] - first[i] + 1) + (code[i] - first[i]))
\* <<ok, index>>  (the cap at MaxInt32 is not modelled: no range here comes near it)
ImplRangeIndex(first, last, code) ==
  IF Len(first) # Len(code) \/ Len(last) # Len(code) THEN <<FALSE, 0>> ELSE RI(first, last, code, 1, 0)

RangeIsValid(first, last) == /\ Len(first) = Len(last) /\ Len(first) > 0
                             /\ \A i \in 1..Len(first) : first[i] <= last[i]
\* the odometer step: the rightmost position below its bound is incremented,
\* the positions after it restart at first[]
NextCode(first, last, buf) ==
  LET P == {p \in 1..Len(buf) : buf[p] < last[p]}
  IN IF P = {} THEN <<>>
     ELSE LET p == Max(P)
          IN [i \in 1..Len(buf) |-> IF i < p THEN buf[i] ELSE IF i = p THEN buf[i] + 1 ELSE first[i]]
RECURSIVE Odometer(_, _, _)
Odometer(first, last, buf) == <<buf>> \o (LET n == NextCode(first, last, buf)
                                          IN IF n = <<>> THEN <<>> ELSE Odometer(first, last, n))
ImplCodesInRange(first, last) == IF RangeIsValid(first, last) THEN Odometer(first, last, first) ELSE <<>>

-----------------------------------------------------------------------------
(* Implementation shape: lookups *)

SingleHits(f, c) == {k \in 1..Len(f.singles) : f.singles[k].code = c}
RangeHits(f, c) == {k \in 1..Len(f.ranges) : ImplRangeIndex(f.ranges[k].first, f.ranges[k].last, c)[1]}

\* LookupNotdefCID: singles, ranges (one value for the whole range), parent, 0
RECURSIVE ImplNotdef(_, _)
ImplNotdef(f, c) ==
  LET S == {k \in 1..Len(f.nsingles) : f.nsingles[k].code = c}
      R == {k \in 1..Len(f.nranges) : InRect(f.nranges[k].first, f.nranges[k].last, c)}
  IN IF S # {} THEN f.nsingles[Min(S)].v
     ELSE IF R # {} THEN f.nranges[Min(R)].v
     ELSE IF HasParent(f) THEN ImplNotdef(f.parent, c) ELSE 0

\* the mapped part of LookupCID: singles, first matching range, parent
RECURSIVE ImplMapped(_, _)
ImplMapped(f, c) ==
  IF SingleHits(f, c) # {} THEN <<TRUE, f.singles[Min(SingleHits(f, c))].v>>
  ELSE IF RangeHits(f, c) # {}
       THEN LET r == f.ranges[Min(RangeHits(f, c))] IN <<TRUE, r.v + ImplRangeIndex(r.first, r.last, c)[2]>>
  ELSE IF HasParent(f) THEN ImplMapped(f.parent, c) ELSE <<FALSE, 0>>

\* LookupCID exactly as coded: "if f.Parent != nil { return f.Parent.LookupCID(code) };
\* return f.LookupNotdefCID(code)" -- the notdef entries of every file but the root are skipped
RECURSIVE ImplLookupCIDAsCoded(_, _)
ImplLookupCIDAsCoded(f, c) ==
  IF SingleHits(f, c) # {} THEN f.singles[Min(SingleHits(f, c))].v
  ELSE IF RangeHits(f, c) # {}
       THEN LET r == f.ranges[Min(RangeHits(f, c))] IN r.v + ImplRangeIndex(r.first, r.last, c)[2]
  ELSE IF HasParent(f) THEN ImplLookupCIDAsCoded(f.parent, c)
  ELSE ImplNotdef(f, c)

ImplLookupCID(f, c) ==
  IF NOTDEF_OWN THEN (LET m == ImplMapped(f, c) IN IF m[1] THEN m[2] ELSE ImplNotdef(f, c))
  ELSE ImplLookupCIDAsCoded(f, c)

\* ToUnicodeFile.Lookup: singles, ranges with a non-empty value list, parent
RECURSIVE ImplLookupTU(_, _)
ImplLookupTU(f, c) ==
  LET R == {k \in RangeHits(f, c) : f.ranges[k].vals # <<>>}
  IN IF SingleHits(f, c) # {} THEN [ok |-> TRUE, v |-> f.singles[Min(SingleHits(f, c))].v]
     ELSE IF R # {}
          THEN LET r == f.ranges[Min(R)]
                   k == ImplRangeIndex(r.first, r.last, c)[2]
               IN [ok |-> TRUE, v |-> IF k < Len(r.vals) THEN r.vals[k + 1] ELSE IncText(r.vals[1], k)]
     ELSE IF HasParent(f) THEN ImplLookupTU(f.parent, c) ELSE Absent

-----------------------------------------------------------------------------
(* Implementation shape: All (root first; per file ranges, then singles;   *)
(* byte strings that are not exactly one code of the codec are skipped)    *)

Flatten(qq) == LET RECURSIVE F(_)
                   F(j) == IF j > Len(qq) THEN <<>> ELSE qq[j] \o F(j + 1)
               IN F(1)

AllOfCIDFile(g, cs) ==
  LET OfRange(r) == LET codes == ImplCodesInRange(r.first, r.last)
                        pairs == [i \in 1..Len(codes) |-> [c |-> codes[i], v |-> r.v + (i - 1)]]
                    IN SelectSeq(pairs, LAMBDA p : FullCode(cs, p.c))
      singles == [k \in 1..Len(g.singles) |-> [c |-> g.singles[k].code, v |-> g.singles[k].v]]
  IN Flatten([k \in 1..Len(g.ranges) |-> OfRange(g.ranges[k])]) \o SelectSeq(singles, LAMBDA p : FullCode(cs, p.c))
ImplAllCID(f, cs) == LET ch == RootFirst(f) IN Flatten([k \in 1..Len(ch) |-> AllOfCIDFile(ch[k], cs)])

AllOfTUFile(g, cs) ==
  LET OfRange(r) == IF r.vals = <<>> THEN <<>>
                    ELSE LET codes == ImplCodesInRange(r.first, r.last)
                             pairs == [i \in 1..Len(codes) |->
                                         [c |-> codes[i],
                                          v |-> IF i - 1 < Len(r.vals) THEN r.vals[i] ELSE IncText(r.vals[1], i - 1)]]
                         IN SelectSeq(pairs, LAMBDA p : FullCode(cs, p.c))
      singles == [k \in 1..Len(g.singles) |-> [c |-> g.singles[k].code, v |-> g.singles[k].v]]
  IN Flatten([k \in 1..Len(g.ranges) |-> OfRange(g.ranges[k])]) \o SelectSeq(singles, LAMBDA p : FullCode(cs, p.c))
ImplAllTU(f, cs) == LET ch == RootFirst(f) IN Flatten([k \in 1..Len(ch) |-> AllOfTUFile(ch[k], cs)])

\* a listing read the way maps.Collect reads it: the last pair of a code wins
ListedCodes(L) == {L[i].c : i \in 1..Len(L)}
ListedValue(L, c) == L[Max({i \in 1..Len(L) : L[i].c = c})].v
Occurrences(L, c) == Cardinality({i \in 1..Len(L) : L[i].c = c})

-----------------------------------------------------------------------------
(* Implementation shape: SetMapping and NewToUnicodeFile *)

AllButLast(c) == SubSeq(c, 1, Len(c) - 1)
LastB(c) == c[Len(c)]
SortBy(S, Less(_, _)) == LET RECURSIVE F(_)
                             F(T) == IF T = {} THEN <<>>
                                     ELSE LET m == CHOOSE x \in T : \A y \in T : x = y \/ Less(x, y)
                                          IN <<m>> \o F(T \ {m})
                         IN F(S)
\* the entries below one key, sorted by their last byte
Group(es, key) == SortBy({e \in es : AllButLast(e.c) = key}, LAMBDA a, b : LastB(a.c) < LastB(b.c))
GroupKeys(es) == SortBy({AllButLast(e.c) : e \in es}, SeqLess)

\* "x+1" on a byte wraps around
BreakCID(info, i) == \/ i = Len(info)
                     \/ LastB(info[i + 1].c) # (LastB(info[i].c) + 1) % B
                     \/ info[i + 1].v # info[i].v + 1
ItemCID(info, s, e) == IF e > s THEN [t |-> "range", first |-> info[s].c, last |-> info[e].c, v |-> info[s].v]
                       ELSE [t |-> "single", code |-> info[s].c, v |-> info[s].v]
RECURSIVE ScanCID(_, _, _)
ScanCID(info, start, i) == IF i > Len(info) THEN <<>>
                           ELSE IF BreakCID(info, i) THEN <<ItemCID(info, start, i)>> \o ScanCID(info, i + 1, i + 1)
                           ELSE ScanCID(info, start, i + 1)

\* SetMapping on a file with the given parent and notdef entries
ImplSetMapping(rs, es, nranges, parent) ==
  LET kept == IF "isnone" \in DOMAIN parent THEN es
              ELSE IF NOTDEF_OWN THEN {e \in es : ImplMapped(parent, e.c) # <<TRUE, e.v>>}
              ELSE {e \in es : ImplLookupCIDAsCoded(parent, e.c) # e.v}
      keys == GroupKeys(kept)
      items == Flatten([k \in 1..Len(keys) |-> LET info == Group(kept, keys[k]) IN ScanCID(info, 1, 1)])
      ss == SelectSeq(items, LAMBDA x : x.t = "single")
      rr == SelectSeq(items, LAMBDA x : x.t = "range")
  IN [cs |-> ImplCSR(rs),
      singles |-> [k \in 1..Len(ss) |-> [code |-> ss[k].code, v |-> ss[k].v]],
      ranges |-> [k \in 1..Len(rr) |-> [first |-> rr[k].first, last |-> rr[k].last, v |-> rr[k].v]],
      nsingles |-> <<>>, nranges |-> nranges, parent |-> parent]

BreakTU(info, i) == i = Len(info) \/ LastB(info[i + 1].c) # (LastB(info[i].c) + 1) % B
NeedsList(info, s, e) ==
  \E j \in s..(e - 1) : info[j + 1].v # (IF TU_FROM_START THEN IncText(info[s].v, j + 1 - s) ELSE IncText(info[j].v, 1))
ItemTU(info, s, e) ==
  IF e > s THEN [t |-> "range", first |-> info[s].c, last |-> info[e].c,
                 vals |-> IF NeedsList(info, s, e) THEN [j \in 1..(e - s + 1) |-> info[s + j - 1].v] ELSE <<info[s].v>>]
  ELSE [t |-> "single", code |-> info[s].c, v |-> info[s].v]
RECURSIVE ScanTU(_, _, _)
ScanTU(info, start, i) == IF i > Len(info) THEN <<>>
                          ELSE IF BreakTU(info, i) THEN <<ItemTU(info, start, i)>> \o ScanTU(info, i + 1, i + 1)
                          ELSE ScanTU(info, start, i + 1)
\* NewToUnicodeFile(csr, data); the caller links the parent afterwards
ImplNewToUnicode(csr, es, parent) ==
  LET keys == GroupKeys(es)
      items == Flatten([k \in 1..Len(keys) |-> LET info == Group(es, keys[k]) IN ScanTU(info, 1, 1)])
      ss == SelectSeq(items, LAMBDA x : x.t = "single")
      rr == SelectSeq(items, LAMBDA x : x.t = "range")
  IN [cs |-> csr,
      singles |-> [k \in 1..Len(ss) |-> [code |-> ss[k].code, v |-> ss[k].v]],
      ranges |-> [k \in 1..Len(rr) |-> [first |-> rr[k].first, last |-> rr[k].last, vals |-> rr[k].vals]],
      parent |-> parent]

\* a chain (child first) compressed layer by layer, root first
RECURSIVE ImplBuildCID(_, _)
ImplBuildCID(rs, chain) ==
  IF chain = <<>> THEN NoFile
  ELSE LET l == Head(chain)
       IN ImplSetMapping(rs, l.map, [k \in 1..Len(l.notdef) |-> [first |-> l.notdef[k].lo, last |-> l.notdef[k].hi, v |-> l.notdef[k].v]],
                         ImplBuildCID(rs, Tail(chain)))
RECURSIVE ImplBuildTU(_, _)
ImplBuildTU(csr, chain) ==
  IF chain = <<>> THEN NoFile ELSE ImplNewToUnicode(csr, Head(chain).map, ImplBuildTU(csr, Tail(chain)))

-----------------------------------------------------------------------------
(* Implementation shape: the stream written by Embed and read by Extract   *)
(* (the PostScript syntax itself belongs to postscript.ReadCMap and is not *)
(* modelled: a stream is the sequence of its sections)                     *)

RECURSIVE Chunks(_)
Chunks(q) == IF Len(q) >= CHUNK THEN <<SubSeq(q, 1, CHUNK)>> \o Chunks(SubSeq(q, CHUNK + 1, Len(q)))
             ELSE IF Len(q) > 0 THEN <<q>> ELSE <<>>
\* text goes through UTF-16BE hex strings: invalid runes come back as Repl
ThroughUTF16(t) == [i \in 1..Len(t) |-> Fix(t[i])]

RECURSIVE ImplWriteCID(_)
ImplWriteCID(f) ==
  [csr |-> f.cs, chars |-> Chunks(f.singles), ranges |-> Chunks(f.ranges),
   ndchars |-> Chunks(f.nsingles), ndranges |-> Chunks(f.nranges),
   usecmap |-> IF HasParent(f) THEN ImplWriteCID(f.parent) ELSE NoFile]
BoundsOK(first, last) == Len(first) = Len(last) /\ Len(first) > 0
RECURSIVE ImplReadCID(_)
ImplReadCID(s) ==
  [cs |-> SelectSeq(s.csr, LAMBDA r : BoundsOK(r.lo, r.hi)),
   singles |-> SelectSeq(Flatten(s.chars), LAMBDA x : Len(x.code) > 0),
   ranges |-> SelectSeq(Flatten(s.ranges), LAMBDA x : BoundsOK(x.first, x.last)),
   nsingles |-> SelectSeq(Flatten(s.ndchars), LAMBDA x : Len(x.code) > 0),
   nranges |-> SelectSeq(Flatten(s.ndranges), LAMBDA x : BoundsOK(x.first, x.last)),
   parent |-> IF "isnone" \in DOMAIN s.usecmap THEN NoFile ELSE ImplReadCID(s.usecmap)]

\* Between "n beginbfrange" and "endbfrange" every entry leaves three operands on the
\* stack (a value list counts as one once it is closed); while the list of the next entry
\* is open its mark and elements are there as well.
OperandsAt(cur, r) == 3 * Len(cur) + 2 + (IF Len(r.vals) > 1 THEN 1 + Len(r.vals) ELSE 1)
RECURSIVE ChunksByStack(_, _)
ChunksByStack(q, cur) ==
  IF q = <<>> THEN (IF cur = <<>> THEN <<>> ELSE <<cur>>)
  ELSE IF cur # <<>> /\ (Len(cur) >= CHUNK \/ OperandsAt(cur, Head(q)) > STACK) THEN <<cur>> \o ChunksByStack(q, <<>>)
  ELSE ChunksByStack(Tail(q), Append(cur, Head(q)))
RangeChunksTU(q) == IF CHUNK_STACK THEN ChunksByStack(q, <<>>) ELSE Chunks(q)
PeakOperands(chunk) == Max({0} \cup {OperandsAt(SubSeq(chunk, 1, i - 1), chunk[i]) : i \in 1..Len(chunk)})
\* the interpreter can read the stream (and the streams of its parents)
RECURSIVE ReadableTU(_)
ReadableTU(s) == /\ \A k \in 1..Len(s.ranges) : PeakOperands(s.ranges[k]) <= STACK
                 /\ \A k \in 1..Len(s.chars) : 2 * Len(s.chars[k]) <= STACK
                 /\ ("isnone" \in DOMAIN s.usecmap \/ ReadableTU(s.usecmap))

RECURSIVE ImplWriteTU(_)
ImplWriteTU(f) ==
  [csr |-> f.cs,
   chars |-> Chunks([k \in 1..Len(f.singles) |-> [code |-> f.singles[k].code, v |-> ThroughUTF16(f.singles[k].v)]]),
   ranges |-> RangeChunksTU([k \in 1..Len(f.ranges) |->
                [first |-> f.ranges[k].first, last |-> f.ranges[k].last,
                 vals |-> [j \in 1..Len(f.ranges[k].vals) |-> ThroughUTF16(f.ranges[k].vals[j])]]]),
   usecmap |-> IF HasParent(f) THEN ImplWriteTU(f.parent) ELSE NoFile]
RECURSIVE ImplReadTU(_)
ImplReadTU(s) ==
  [cs |-> SelectSeq(s.csr, LAMBDA r : BoundsOK(r.lo, r.hi)),
   singles |-> SelectSeq(Flatten(s.chars), LAMBDA x : Len(x.code) > 0),
   ranges |-> SelectSeq(Flatten(s.ranges), LAMBDA x : BoundsOK(x.first, x.last)),
   parent |-> IF "isnone" \in DOMAIN s.usecmap THEN NoFile ELSE ImplReadTU(s.usecmap)]

-----------------------------------------------------------------------------
(* The properties, for one code space rs, one chain and the file built     *)
(* from it; Probes is the set of byte strings looked up                    *)

LookupCIDAgrees(chain, f, Probes) == \A c \in Probes : ImplLookupCID(f, c) = RefCID(chain, c)
LookupTUAgrees(chain, f, Probes) == \A c \in Probes : ImplLookupTU(f, c) = RefTU(chain, c)

\* All, read as a map, is the chain read as a map; a code is listed at most once per
\* layer that maps it (exactly once without a parent).  For CMaps an entry may be
\* missing from the listing when it says nothing: it maps to CID 0 (.notdef), or to
\* what the notdef ranges give anyway (SetMapping drops what the parent answers).
AllTUAgrees(rs, chain, f) ==
  LET L == ImplAllTU(f, rs)
      M == Merged(chain)
  IN /\ ListedCodes(L) = {e.c : e \in M}
     /\ \A e \in M : ListedValue(L, e.c) = e.v
     /\ \A c \in ListedCodes(L) : Occurrences(L, c) <= Cardinality(Mapping(chain, c))
NotdefOnly(chain) == [i \in 1..Len(chain) |-> [map |-> {}, notdef |-> chain[i].notdef]]
ListingCIDAgrees(L, chain) ==
  LET M == Merged(chain)
  IN /\ ListedCodes(L) \subseteq {e.c : e \in M}
     /\ \A e \in M : IF e.c \in ListedCodes(L) THEN ListedValue(L, e.c) = e.v
                      ELSE e.v = 0 \/ RefCID(NotdefOnly(chain), e.c) = e.v
     /\ \A c \in ListedCodes(L) : Occurrences(L, c) <= Cardinality(Mapping(chain, c))
AllCIDAgrees(rs, chain, f, Probes) == ListingCIDAgrees(ImplAllCID(f, rs), chain)

\* a hand-made file (rectangular multi-byte ranges): lookup, enumeration and the
\* declarative meaning agree wherever the entries do not overlap
RangeIndexAgrees(first, last) ==
  LET codes == ImplCodesInRange(first, last)
  IN /\ Len(codes) = Cardinality(Rect(first, last))
     /\ \A i \in 1..Len(codes) : /\ ImplRangeIndex(first, last, codes[i]) = <<TRUE, i - 1>>
                                 /\ LexRank(first, last, codes[i]) = i - 1
                                 /\ RankFormula(first, last, codes[i]) = i - 1
     /\ \A c \in [1..Len(first) -> Byte] : ImplRangeIndex(first, last, c)[1] = InRect(first, last, c)
     /\ RectSize(first, last) = Len(codes)
FileCIDAgrees(rs, f, Probes) ==
  NonOverlapping(f) =>
     /\ \A c \in Probes : ImplLookupCID(f, c) = RefFileCID(f, c)
     /\ LET L == ImplAllCID(f, rs)
        IN /\ \A i \in 1..Len(L) : ImplLookupCID(f, L[i].c) = L[i].v /\ Occurrences(L, L[i].c) = 1
           /\ \A c \in Codes(rs) : (SingleHitsF(f, c) # {} \/ RangeHitsF(f, c) # {}) => c \in ListedCodes(L)
FileTUAgrees(rs, f, Probes) ==
  NonOverlapping(f) =>
     /\ \A c \in Probes : ImplLookupTU(f, c) = RefFileTU(f, c)
     /\ LET L == ImplAllTU(f, rs)
        IN /\ \A i \in 1..Len(L) : ImplLookupTU(f, L[i].c) = [ok |-> TRUE, v |-> L[i].v] /\ Occurrences(L, L[i].c) = 1
           /\ \A c \in Codes(rs) : (SingleHitsF(f, c) # {} \/ RangeHitsF(f, c) # {}) => c \in ListedCodes(L)
=============================================================================
