----------------------------- MODULE Trace_CMap -----------------------------
(* Judges records of the real font/cmap code against the reference         *)
(* semantics of CMap.  One record = one chain of layers (or one hand-made   *)
(* file) in one stage ("built": after SetMapping / NewToUnicodeFile;        *)
(* "extracted": after Embed into a PDF file, reopening and Extract /        *)
(* ExtractToUnicode) with what the real code answered:                      *)
(*   [kind, stage, err, csr, layers : [entries : [c, v], notdef : [lo, hi,  *)
(*    v]] (child first), file : [singles, ranges], csr2 (the code space the *)
(*    file reports), probes : [c, ok, v] (LookupCID / Lookup), all : [c, v] *)
(*    (All, in order), mapping : [c, v] (GetMapping / All collected)]       *)
(* kind is "cid", "tu" (values are rune sequences), "rect-cid", "rect-tu",   *)
(* "wide-cid", "full-cid", "frame-cid" (a predefined CMap before and after a Clone got a *)
(* new mapping).  Records of kind "cid" / "rect-cid" may have been taken     *)
(* after such a clone step (clonestep): the reference is the same.          *)
(* Only Ref... operators (and the closed form of the lexicographic rank,    *)
(* proved equal to LexRank in MC_CMap) are used for acceptance.             *)
EXTENDS CMap, TraceLib

Cases == Records

ChainOf(c) == [i \in 1..Len(c.layers) |-> [map |-> ToSet(c.layers[i].entries), notdef |-> c.layers[i].notdef]]
MergedOf(chain) == IF Len(chain) = 1 THEN chain[1].map ELSE Merged(chain)

\* the reported code space describes the same codes, as far as the probes can tell
SpaceOK(c) == /\ \A r \in ToSet(c.csr2) : ValidRange(r)
              /\ \A i \in 1..Len(c.probes) : SameOn(ToSet(c.csr2), ToSet(c.csr), c.probes[i].c)

\* the enumeration, read as a map, is the chain read as a map
ListingOK(c, chain) ==
  LET L == c.all
      M == MergedOf(chain)
      single == Len(chain) = 1
  IN IF c.kind = "tu"
     THEN /\ ToSet(c.mapping) = M
          /\ IF single THEN ToSet(L) = M /\ Len(L) = Cardinality(M)
             ELSE /\ ListedCodes(L) = {e.c : e \in M}
                  /\ \A e \in M : ListedValue(L, e.c) = e.v
                  /\ \A x \in ListedCodes(L) : Occurrences(L, x) <= Cardinality(Mapping(chain, x))
     ELSE IF single THEN ToSet(L) = M /\ Len(L) = Cardinality(M) /\ ToSet(c.mapping) = M
     ELSE ListingCIDAgrees(L, chain) /\ ToSet(c.mapping) = {[c |-> x, v |-> ListedValue(L, x)] : x \in ListedCodes(L)}

MapCaseOK(c) ==
  LET chain == ChainOf(c)
  IN /\ c.err = ""
     /\ \A i \in 1..Len(chain) : IsMap(chain[i].map)
     /\ SpaceOK(c)
     /\ \A i \in 1..Len(c.probes) :
           LET p == c.probes[i]
           IN IF c.kind = "cid" THEN p.v = RefCID(chain, p.c)
              ELSE [ok |-> p.ok, v |-> p.v] = RefTU(chain, p.c)
     /\ ListingOK(c, chain)

-----------------------------------------------------------------------------
(* hand-made files with rectangular ranges: the meaning of an entry is      *)
(* value + lexicographic rank; entries are pairwise disjoint                *)
RectsDisjoint(a, b) == Len(a.first) # Len(b.first) \/ \E i \in 1..Len(a.first) : a.last[i] < b.first[i] \/ b.last[i] < a.first[i]
FileDisjoint(f) == /\ \A i, j \in 1..Len(f.ranges) : i # j => RectsDisjoint(f.ranges[i], f.ranges[j])
                   /\ \A i, j \in 1..Len(f.singles) : i # j => f.singles[i].code # f.singles[j].code
                   /\ \A i \in 1..Len(f.singles), j \in 1..Len(f.ranges) : ~InRect(f.ranges[j].first, f.ranges[j].last, f.singles[i].code)
MeaningCID(f, x) ==
  IF SingleHitsF(f, x) # {} THEN f.singles[CHOOSE k \in SingleHitsF(f, x) : TRUE].v
  ELSE IF RangeHitsF(f, x) # {} THEN LET r == f.ranges[CHOOSE k \in RangeHitsF(f, x) : TRUE] IN r.v + RankFormula(r.first, r.last, x)
  ELSE 0
MeaningTU(f, x) ==
  IF SingleHitsF(f, x) # {} THEN [ok |-> TRUE, v |-> f.singles[CHOOSE k \in SingleHitsF(f, x) : TRUE].v]
  ELSE IF RangeHitsF(f, x) # {}
       THEN LET r == f.ranges[CHOOSE k \in RangeHitsF(f, x) : TRUE] IN [ok |-> TRUE, v |-> TUValueAt(r, RankFormula(r.first, r.last, x))]
  ELSE Absent
RectCaseOK(c) ==
  LET f == c.file
      L == c.all
      size == LET RECURSIVE S(_)
                  S(k) == IF k > Len(f.ranges) THEN 0 ELSE RectSize(f.ranges[k].first, f.ranges[k].last) + S(k + 1)
              IN S(1) + Len(f.singles)
  IN /\ c.err = ""
     /\ FileDisjoint(f)
     /\ SpaceOK(c)
     /\ \A i \in 1..Len(c.probes) :
           LET p == c.probes[i]
           IN IF c.kind = "rect-cid" THEN p.v = MeaningCID(f, p.c) ELSE [ok |-> p.ok, v |-> p.v] = MeaningTU(f, p.c)
     \* enumeration and lookup agree: every entry's codes (all of them are codes of the code space) once each
     /\ Len(L) = size
     /\ Cardinality({L[i].c : i \in 1..Len(L)}) = Len(L)
     /\ \A i \in 1..Len(L) : IF c.kind = "rect-cid" THEN L[i].v = MeaningCID(f, L[i].c)
                             ELSE [ok |-> TRUE, v |-> L[i].v] = MeaningTU(f, L[i].c)
     /\ ToSet(c.mapping) = ToSet(L)

\* a cidrange over a whole 3- or 4-byte code space (kind "wide-cid", value 0): lookups at
\* positions up to 2^31 - 1 and the beginning of the enumeration (no size: 2^32 codes)
WideCaseOK(c) ==
  LET f == c.file
      L == c.all
  IN /\ c.err = ""
     /\ SpaceOK(c)
     /\ \A i \in 1..Len(c.probes) : c.probes[i].v = MeaningCID(f, c.probes[i].c)
     /\ Cardinality({L[i].c : i \in 1..Len(L)}) = Len(L)
     /\ \A i \in 1..Len(L) : L[i].v = MeaningCID(f, L[i].c)

\* one cidrange that fills a code space of exactly as many codes as one enumeration may
\* visit (kind "full-cid"): the enumeration delivers every code - allcount is the size of
\* the range, all holds the first and the last three entries, the last code is among them
RECURSIVE Prod(_, _, _)
Prod(lo, hi, k) == IF k > Len(lo) THEN 1 ELSE (hi[k] - lo[k] + 1) * Prod(lo, hi, k + 1)
FullCaseOK(c) ==
  LET f == c.file
      L == c.all
      r == f.ranges[1]
  IN /\ c.err = ""
     /\ SpaceOK(c)
     /\ \A i \in 1..Len(c.probes) : c.probes[i].v = MeaningCID(f, c.probes[i].c)
     /\ c.allcount = Prod(r.first, r.last, 1)
     /\ Cardinality({L[i].c : i \in 1..Len(L)}) = Len(L)
     /\ \A i \in 1..Len(L) : L[i].v = MeaningCID(f, L[i].c)
     /\ \E i \in 1..Len(L) : L[i].c = r.last
     /\ \E i \in 1..Len(L) : L[i].c = r.first

\* frame condition (kind "frame-cid"): Clone copies a File, so SetMapping on the clone leaves
\* the original's answers (mapping: lookups before, probes: after) and enumeration (all2
\* before, all after) as they were
FrameCaseOK(c) == /\ c.err = ""
                  /\ Len(c.probes) = Len(c.mapping)
                  /\ \A i \in 1..Len(c.probes) : c.probes[i].c = c.mapping[i].c /\ c.probes[i].v = c.mapping[i].v
                  /\ c.all = c.all2

CaseOK(c) == IF c.kind \in {"cid", "tu"} THEN MapCaseOK(c)
             ELSE IF c.kind = "frame-cid" THEN FrameCaseOK(c)
             ELSE IF c.kind = "wide-cid" THEN WideCaseOK(c)
             ELSE IF c.kind = "full-cid" THEN FullCaseOK(c) ELSE RectCaseOK(c)

VARIABLES i, bad, done
vars == <<i, bad, done>>
Init == i = 1 /\ bad = <<>> /\ done = FALSE
Step == /\ i <= Len(Cases)
        /\ i' = i + 1
        /\ bad' = IF CaseOK(Cases[i]) THEN bad ELSE Append(bad, i)
        /\ UNCHANGED done
Finish == /\ i = Len(Cases) + 1 /\ ~done
          /\ done' = TRUE
          /\ WriteVerdict(bad)
          /\ UNCHANGED <<i, bad>>
Next == Step \/ Finish
Spec == Init /\ [][Next]_vars
=============================================================================
