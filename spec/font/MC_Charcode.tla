--------------------------- MODULE MC_Charcode ---------------------------
(* Exhaustive design check of Charcode: for every range set built from a   *)
(* small byte alphabet and every input, the implementation-shaped operators *)
(* agree with the reference semantics.  The choice of the range set is an   *)
(* action (not an initial-state predicate) so that TLC's workers share it.  *)
EXTENDS Charcode
CONSTANTS MaxLen,     \* longest range
          MaxRanges,  \* 1..3 ranges per set
          Lens3       \* set of lengths allowed when three ranges are combined

SeqsOf(n) == [1..n -> Byte]
Inputs == UNION {SeqsOf(n) : n \in 1..MaxLen}
RangesOfLen(n) == {[lo |-> l, hi |-> h] : l \in SeqsOf(n),
                     h \in SeqsOf(n)} 
GoodRange(r) == \A i \in 1..Len(r.lo) : r.lo[i] <= r.hi[i]
Ranges == {r \in UNION {RangesOfLen(n) : n \in 1..MaxLen} : GoodRange(r)}
Ranges3 == {r \in Ranges : RLen(r) \in Lens3}

VARIABLE rs
vars == <<rs>>
Init == rs = {}
\* ranges are added one at a time, so that every TLC worker gets sets to judge
Add == /\ Cardinality(rs) < MaxRanges
       /\ \E r \in (IF Cardinality(rs) = 2 THEN Ranges3 ELSE Ranges) \ rs :
             /\ Cardinality(rs) = 2 => \A q \in rs : RLen(q) \in Lens3
             /\ rs' = rs \cup {r}
Next == Add
Spec == Init /\ [][Next]_vars

Checked == rs # {}
BuildOK == Checked => BuildAgrees(rs)
DecodeOK == (Checked /\ PrefixFree(rs)) => \A s \in Inputs : DecodeAgrees(rs, s)
ReencodeOK == (Checked /\ PrefixFree(rs)) => \A s \in Inputs : ReencodeAgrees(rs, s)
CSROK == (Checked /\ PrefixFree(rs)) => \A s \in Inputs : CSRAgrees(rs, s)
=============================================================================
