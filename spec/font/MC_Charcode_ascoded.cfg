\* negative control: the descriptor as at the pinned commit (gaps omitted); must FAIL DecodeOK (finding F5)
SPECIFICATION Spec
CONSTANTS B = 3
  WITH_GAPS = FALSE
  MaxLen = 2
  MaxRanges = 2
  Lens3 = {1}
INVARIANTS BuildOK DecodeOK
CHECK_DEADLOCK FALSE
