--------------------------- MODULE MC_FontCodes ---------------------------
(* Exhaustive check of the allocation protocol for two small fonts: every   *)
(* interleaving of Encode (remembered / fresh / overflow), Show and Close.  *)
EXTENDS FontCodes
CONSTANTS MaxShown,   \* number of Show steps
          MaxLen      \* glyphs per Show

Seqs == UNION {[1..n -> Pair] : n \in 1..MaxLen}
Next == \/ \E f \in Fonts, p \in Pair : EncodeOld(f, p) \/ EncodeFull(f, p) \/ \E c \in CodeSet[f] : EncodeNew(f, p, c)
        \/ \E f \in Fonts, s \in Seqs : Len(shown) < MaxShown /\ Show(f, s)
        \/ Close
Spec == Init /\ [][Next]_vars

\* the constants of the bounded model
F2 == {"simple", "composite"}
CapMC == [f \in F2 |-> IF f = "simple" THEN 2 ELSE 3]
CodeSetMC == [f \in F2 |-> IF f = "simple" THEN {0, 1} ELSE {0, 1, 2, 3}]
PerGlyphMC == [f \in F2 |-> f = "composite"]
WidthMC == [f \in F2 |-> [g \in {1, 2} |-> 500 * g]]
=============================================================================
