\* negative control: NewToUnicodeFile as at the pinned commit (increment form chosen by comparing
\* neighbours); must FAIL LookupOK: <T, Repl, Repl+1> is written as an increment range
SPECIFICATION Spec
CONSTANTS B = 4
  WITH_GAPS = TRUE
  RuneMax = 1114111
  HoleLo = 55296
  HoleHi = 57343
  Repl = 65533
  CHUNK = 2
  TU_FROM_START = FALSE
  NOTDEF_OWN = TRUE
  Mode = "map"
  SpaceNames = {"s1"}
  FamNames = {"tuEdge"}
  ChainSpaces = {}
  MaxTop <- TopFour
  MaxTotal = 0
  MaxDepth = 1
  Wide = FALSE
  WideSpaces = {}
  NotdefOn = FALSE
  MaxRect = 0
INVARIANTS LookupOK
CHECK_DEADLOCK FALSE
