-------------------------- MODULE Trace_Charcode --------------------------
(* Judges records of the real codec (font/charcode) against the reference  *)
(* semantics of Charcode.  One record = one range set with what the real   *)
(* NewCodec / Decode / AppendCode / CodeSpaceRange answered:               *)
(* (codes are logged as their four little-endian bytes: TLC integers are   *)
(* 32-bit)                                                                 *)
(*   [ranges, built, probes: [s, valid, consumed, code, reenc,             *)
(*                            valid2, consumed2, code2], csr]              *)
(* where reenc = AppendCode(nil, code) and (code2, consumed2, valid2) =    *)
(* Decode(reenc).  Only Ref... operators are used for acceptance.          *)
EXTENDS Charcode, TraceLib

Cases == Records

RS(c) == ToSet(c.ranges)
ProbeOK(rs, csr, p) ==
  LET d == RefDecode(rs, p.s)
      used == SubSeq(p.s, 1, p.consumed)
  IN /\ p.valid = d[1]
     /\ p.consumed = d[2]
     /\ p.code = Pad4(used)
     \* decode, then encode: the consumed bytes
     /\ Complete(rs, p.s) => p.reenc = used
     \* encode, then decode: the code
     /\ Complete(rs, p.s) => (p.code2 = p.code /\ p.consumed2 = p.consumed /\ p.valid2 = p.valid)
     \* the reported range set describes the same codes
     /\ SameOn(csr, rs, p.s)
CaseOK(c) ==
  LET rs == RS(c)
  IN IF \E r \in rs : ~ValidRange(r) THEN ~c.built
     ELSE /\ c.built = PrefixFree(rs)
          /\ c.built => /\ \A r \in ToSet(c.csr) : ValidRange(r)
                        /\ \A i \in 1..Len(c.probes) : ProbeOK(rs, ToSet(c.csr), c.probes[i])

VARIABLES i, bad, done
vars == <<i, bad, done>>
Init == i = 1 /\ bad = <<>> /\ done = FALSE
Step == /\ i <= Len(Cases)
        /\ i' = i + 1
        /\ bad' = IF CaseOK(Cases[i]) THEN bad ELSE Append(bad, i)
        /\ UNCHANGED done
Finish == /\ i = Len(Cases) + 1 /\ ~done
          /\ done' = TRUE
          /\ WriteVerdict(bad)
          /\ UNCHANGED <<i, bad>>
Next == Step \/ Finish
Spec == Init /\ [][Next]_vars
=============================================================================
