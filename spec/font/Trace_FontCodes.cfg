SPECIFICATION Spec
CONSTANTS Tol = 1000
CHECK_DEADLOCK FALSE
