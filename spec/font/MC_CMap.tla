----------------------------- MODULE MC_CMap -----------------------------
(* Exhaustive design check of CMap.  A behaviour picks a code space and a   *)
(* value family, builds a chain of layers entry by entry (root layer first, *)
(* a new child layer is pushed on top), compresses it the way SetMapping /  *)
(* NewToUnicodeFile do, writes the stream, reads it back.  In every built   *)
(* and every extracted state the implementation-shaped lookups and          *)
(* enumerations must agree with the reference semantics of the chain.       *)
(* Mode "rect" instead assembles files by hand from rectangular multi-byte  *)
(* ranges and singles (what Extract can deliver) and checks rangeIndex,     *)
(* codesInRange, lookup and enumeration against each other and against the  *)
(* declarative rank.                                                        *)
EXTENDS CMapBounds

CONSTANTS Mode,         \* "map" or "rect"
          SpaceNames,   \* code spaces explored
          FamNames,     \* value families explored
          ChainSpaces,  \* code spaces in which parent chains are explored
          MaxTop(_),    \* entries of a map without parent, per code space
          MaxTotal,     \* entries over all layers of a chain with parents
          MaxDepth,     \* layers
          NotdefOn,     \* TRUE: layers of CID chains may carry a notdef range
          MaxRect       \* mode "rect": number of ranges in a hand-made file

VARIABLES phase,   \* "start", "map", "built", "embedded", "extracted", "rect"
          origin,  \* "map" or "rect": where the file came from
          sp, fam, \* names of the code space and the value family
          chain,   \* the layers, child first
          file, stream, file2
vars == <<phase, origin, sp, fam, chain, file, stream, file2>>

\* constant-level tables (TLC evaluates them once)
AllSpaces == {"s1", "s2", "s2w", "mix", "mix0", "mixw", "s3"}
RsOf == [n \in AllSpaces |-> SeqRange(Space(n))]
Short == [1..1 -> Byte] \cup [1..2 -> Byte]
CodesOf == [n \in AllSpaces |-> Codes(RsOf[n])]
ProbesOf == [n \in AllSpaces |-> CodesOf[n] \cup Short]
rs == RsOf[sp]
EmptyLayer == [map |-> {}, notdef |-> <<>>]
Total == LET RECURSIVE T(_)
             T(i) == IF i > Len(chain) THEN 0 ELSE Cardinality(chain[i].map) + T(i + 1)
         IN T(1)
Probes == ProbesOf[sp]

Init == /\ phase = "start" /\ origin = "" /\ sp = "" /\ fam = "" /\ chain = <<>>
        /\ file = NoFile /\ stream = NoFile /\ file2 = NoFile

Start == /\ phase = "start" /\ Mode = "map"
         /\ \E s \in SpaceNames, f \in FamNames :
               /\ sp' = s /\ fam' = f /\ chain' = <<EmptyLayer>> /\ phase' = "map" /\ origin' = "map"
         /\ UNCHANGED <<file, stream, file2>>

\* one more entry of the top layer; codes are added in increasing order
Add == /\ phase = "map"
       /\ Total < (IF Len(chain) = 1 THEN MaxTop(sp) ELSE MaxTotal)
       /\ \E c \in CodesOf[sp], v \in Values(fam, sp) :
             /\ \A e \in chain[1].map : SeqLess(e.c, c)
             /\ chain' = [chain EXCEPT ![1].map = @ \cup {[c |-> c, v |-> v]}]
       /\ UNCHANGED <<phase, origin, sp, fam, file, stream, file2>>

AddNotdef == /\ phase = "map" /\ NotdefOn /\ IsCID(fam)
             /\ chain[1].map = {} /\ chain[1].notdef = <<>>
             /\ \E r \in NotdefChoices(sp) : chain' = [chain EXCEPT ![1].notdef = <<r>>]
             /\ UNCHANGED <<phase, origin, sp, fam, file, stream, file2>>

\* the layer built so far becomes the parent of a new, empty child layer
Push == /\ phase = "map" /\ sp \in ChainSpaces /\ Len(chain) < MaxDepth
        /\ (chain[1].map # {} \/ chain[1].notdef # <<>>)
        /\ Total < MaxTotal
        /\ chain' = <<EmptyLayer>> \o chain
        /\ UNCHANGED <<phase, origin, sp, fam, file, stream, file2>>

\* SetMapping / NewToUnicodeFile, root first
Build == /\ phase = "map"
         /\ file' = IF IsCID(fam) THEN ImplBuildCID(rs, chain) ELSE ImplBuildTU(Space(sp), chain)
         /\ phase' = "built"
         /\ UNCHANGED <<origin, sp, fam, chain, stream, file2>>

Embed == /\ phase \in {"built", "rect"}
         /\ phase = "rect" => file.ranges # <<>>
         /\ stream' = IF IsCID(fam) THEN ImplWriteCID(file) ELSE ImplWriteTU(file)
         /\ phase' = "embedded"
         /\ UNCHANGED <<origin, sp, fam, chain, file, file2>>

Extract == /\ phase = "embedded"
           /\ file2' = IF IsCID(fam) THEN ImplReadCID(stream) ELSE ImplReadTU(stream)
           /\ phase' = "extracted"
           /\ UNCHANGED <<origin, sp, fam, chain, file, stream>>

-----------------------------------------------------------------------------
(* mode "rect": hand-made files *)
Bounds == {p \in [1..Len(Space(sp)[1].lo) -> Byte] \X [1..Len(Space(sp)[1].lo) -> Byte] : RangeIsValid(p[1], p[2])}
RectValues(first, last) ==
  IF IsCID(fam) THEN {0, 5}
  ELSE {<<<<48>>>>, <<<<HoleLo - 2>>>>, <<<<102, 48>>>>,
        [k \in 1..RectSize(first, last) |-> <<48 + ((2 * k) % 5)>>]}
EmptyFile == IF IsCID(fam) THEN [cs |-> Space(sp), singles |-> <<>>, ranges |-> <<>>, nsingles |-> <<>>, nranges |-> <<>>, parent |-> NoFile]
             ELSE [cs |-> Space(sp), singles |-> <<>>, ranges |-> <<>>, parent |-> NoFile]
StartRect == /\ phase = "start" /\ Mode = "rect"
             /\ \E s \in SpaceNames, f \in FamNames :
                  /\ sp' = s /\ fam' = f /\ phase' = "rect" /\ origin' = "rect"
                  /\ file' = IF IsCID(f) THEN [cs |-> Space(s), singles |-> <<>>, ranges |-> <<>>, nsingles |-> <<>>, nranges |-> <<>>, parent |-> NoFile]
                             ELSE [cs |-> Space(s), singles |-> <<>>, ranges |-> <<>>, parent |-> NoFile]
             /\ UNCHANGED <<chain, stream, file2>>
AddRange == /\ phase = "rect" /\ Len(file.ranges) < MaxRect /\ file.singles = <<>>
            /\ \E p \in Bounds : \E v \in RectValues(p[1], p[2]) :
                  file' = [file EXCEPT !.ranges = Append(@, IF IsCID(fam) THEN [first |-> p[1], last |-> p[2], v |-> v]
                                                                  ELSE [first |-> p[1], last |-> p[2], vals |-> v])]
            /\ UNCHANGED <<phase, origin, sp, fam, chain, stream, file2>>
AddSingle == /\ phase = "rect" /\ Len(file.singles) < 1 /\ Len(file.ranges) <= 1
             /\ \E c \in CodesOf[sp] : \E v \in (IF IsCID(fam) THEN {7} ELSE {<<90>>}) :
                   file' = [file EXCEPT !.singles = Append(@, [code |-> c, v |-> v])]
             /\ UNCHANGED <<phase, origin, sp, fam, chain, stream, file2>>

Next == Start \/ Add \/ AddNotdef \/ Push \/ Build \/ Embed \/ Extract \/ StartRect \/ AddRange \/ AddSingle
Spec == Init /\ [][Next]_vars

-----------------------------------------------------------------------------
Judged == origin = "map" /\ phase \in {"built", "extracted"}
Current == IF phase = "built" THEN file ELSE file2

\* every lookup answers what the chain means (mapped value; notdef / absent otherwise)
LookupOK == Judged => IF IsCID(fam) THEN LookupCIDAgrees(chain, Current, Probes)
                      ELSE LookupTUAgrees(chain, Current, Probes)
\* the enumeration is the chain read as one map
AllOK == Judged => IF IsCID(fam) THEN AllCIDAgrees(rs, chain, Current, Probes)
                   ELSE AllTUAgrees(rs, chain, Current)
\* writing and reading back gives the same file (same code space, same entries, same parents)
EmbedOK == phase = "extracted" => file2 = file
\* the stream Embed wrote can be read back by the PostScript interpreter
ReadableOK == (phase = "embedded" /\ ~IsCID(fam)) => ReadableTU(stream)
\* compression never produces overlapping entries, so lookup order cannot matter
CompressOK == (origin = "map" /\ phase = "built") => NonOverlapping(file)
\* hand-made files: rangeIndex, codesInRange, the declarative rank, lookup and All agree
RectOK == (origin = "rect" /\ phase \in {"rect", "extracted"}) =>
             LET f == IF phase = "rect" THEN file ELSE file2
             IN /\ \A k \in 1..Len(f.ranges) : RangeIndexAgrees(f.ranges[k].first, f.ranges[k].last)
                /\ IF IsCID(fam) THEN FileCIDAgrees(rs, f, Probes) ELSE FileTUAgrees(rs, f, Probes)
=============================================================================
