----------------------------- MODULE FontCodes -----------------------------
(***************************************************************************)
(* Code allocation of go-pdf's font encoders and what a reader gets back.  *)
(*                                                                         *)
(* Writer side, per font instance (font/encoding/simpleenc, cidenc and the *)
(* Layouter implementations on top of them):                               *)
(*   code : (glyph, text) -|-> code      what Encode remembers             *)
(*   info : code -|-> [g, w, t]          what Codes answers                *)
(* Encode(g, t) returns the remembered code, or allocates ANY free code of *)
(* the font's code set (simpleenc's scoring of candidate bytes, cidenc's   *)
(* choice between a fresh private code and the code derived from the text  *)
(* are left nondeterministic), or fails when no code is left (256 codes    *)
(* for a simple font).  Show turns a glyph sequence into one PDF string;   *)
(* glyphs that cannot be encoded are skipped.  Embed (when the file is     *)
(* closed) writes the widths (Widths/MissingWidth or W/DW, rounded) and    *)
(* the text (ToUnicode CMap of C13 or glyph names).  Reader side: the font *)
(* extracted from the file decodes a string into codes with width and text.*)
(*                                                                         *)
(* Widths are integers (micro text-space units); Tol is the precision of   *)
(* the width arrays.                                                       *)
(***************************************************************************)
EXTENDS FontCodesBase

CONSTANTS Fonts,      \* font instances
          Cap,        \* [Fonts -> Nat]: how many codes the font can allocate
          CodeSet,    \* [Fonts -> set of codes]
          PerGlyph,   \* [Fonts -> BOOLEAN]: one code per glyph (composite font with a fixed CMap)
          Glyphs,     \* glyph ids
          Texts,      \* text hints
          WidthOf,    \* [Fonts -> [Glyphs -> Nat]]
          Tol,        \* allowed difference between written and read width
          ROUNDS      \* TRUE: Embed may change a width by up to Tol (sound); FALSE: negative control,
                      \* it may change it by Tol + 1

VARIABLES code, info,   \* writer-side tables, per font
          shown,        \* sequence of [f, pairs, enc, str]: what was shown, what of it could be encoded, the string written
          closed,       \* the file has been written
          rd            \* reader-side table per font: code -> [w, t]
vars == <<code, info, shown, closed, rd>>

Pair == Glyphs \X Texts
Abs(a, b) == AbsDiff(a, b)

Init == /\ code = [f \in Fonts |-> <<>>]     \* empty functions
        /\ info = [f \in Fonts |-> <<>>]
        /\ shown = <<>>
        /\ closed = FALSE
        /\ rd = [f \in Fonts |-> <<>>]

Tab(f) == [code |-> code[f], info |-> info[f]]
Known(f, p) == KnownIn(Tab(f), p)
Full(f) == FullAt(Tab(f), Cap[f])

\* Encode of a pair seen before: the remembered code, nothing changes
EncodeOld(f, p) == /\ ~closed /\ Known(f, p) /\ EncodeAnswerOK(Tab(f), Cap[f], PerGlyph[f], p, TRUE, code[f][p])
                   /\ UNCHANGED vars
\* Encode of a new pair: any free code
EncodeNew(f, p, c) ==
  /\ ~closed /\ c \in CodeSet[f]
  /\ ~Known(f, p) /\ EncodeAnswerOK(Tab(f), Cap[f], PerGlyph[f], p, TRUE, c)
  /\ LET n == Allocate(Tab(f), p, c, WidthOf[f][p[1]])
     IN code' = [code EXCEPT ![f] = n.code] /\ info' = [info EXCEPT ![f] = n.info]
  /\ UNCHANGED <<shown, closed, rd>>
\* Encode of a new pair when all codes are taken (or the glyph's one code has another text): fails, nothing changes
EncodeFull(f, p) == /\ ~closed /\ ~Known(f, p) /\ EncodeAnswerOK(Tab(f), Cap[f], PerGlyph[f], p, FALSE, 0)
                    /\ UNCHANGED vars

\* the string for a glyph sequence: the codes of the encodable pairs, in order
StringOf(f, pairs) == CodesFor(Tab(f), pairs)
\* TextShowGlyphs calls Encode for every glyph (the Encode steps above) and skips
\* the glyphs that cannot be encoded: Show is enabled once every pair is known or
\* can never be
Show(f, pairs) == /\ ~closed
                  /\ \A i \in 1..Len(pairs) : Known(f, pairs[i]) \/ Unencodable(Tab(f), Cap[f], PerGlyph[f], pairs[i])
                  /\ shown' = Append(shown, [f |-> f, pairs |-> pairs,
                                             enc |-> SelectSeq(pairs, LAMBDA p : Known(f, p)),
                                             str |-> StringOf(f, pairs)])
                  /\ UNCHANGED <<code, info, closed, rd>>

\* closing the file embeds every font: widths to the precision of the width arrays
Slack == IF ROUNDS THEN Tol ELSE Tol + 1
Close == /\ ~closed
         /\ closed' = TRUE
         /\ \E r \in [Fonts -> 0..Slack] :
               rd' = [f \in Fonts |-> [c \in DOMAIN info[f] |-> [w |-> info[f][c].w + r[f], t |-> info[f][c].t]]]
         /\ UNCHANGED <<code, info, shown>>

\* reader side: what the extracted font answers for a string
ReadCodes(f, str) == [i \in 1..Len(str) |-> rd[f][str[i]]]
\* writer side: what the Layouter's own Codes answers
WriteCodes(f, str) == [i \in 1..Len(str) |-> info[f][str[i]]]

-----------------------------------------------------------------------------
(* the properties *)

\* distinct (glyph, text) pairs never share a code
Injective == \A f \in Fonts : TabInjective(Tab(f))
\* the two writer-side tables describe each other
InfoMatches == \A f \in Fonts :
                  /\ \A p \in DOMAIN code[f] : /\ code[f][p] \in DOMAIN info[f]
                                              /\ info[f][code[f][p]] = [g |-> p[1], w |-> WidthOf[f][p[1]], t |-> p[2]]
                  /\ Cardinality(DOMAIN info[f]) = Cardinality(DOMAIN code[f])
                  /\ Cardinality(DOMAIN info[f]) <= Cap[f]
\* a shown string has one code per encodable glyph, in order
ShownOK == \A i \in 1..Len(shown) :
              LET s == shown[i]
                  enc == s.enc
              IN /\ Len(s.str) = Len(enc)
                 /\ \A k \in 1..Len(enc) : info[s.f][s.str[k]].g = enc[k][1] /\ info[s.f][s.str[k]].t = enc[k][2]
\* reader and writer decode a shown string alike: same number of codes, same text, widths up to Tol
ReaderAgrees == closed => \A i \in 1..Len(shown) :
                   LET s == shown[i]
                       a == ReadCodes(s.f, s.str)
                       b == WriteCodes(s.f, s.str)
                   IN /\ Len(a) = Len(b)
                      /\ \A k \in 1..Len(a) : a[k].t = b[k].t /\ Abs(a[k].w, b[k].w) <= Tol
WidthRounding == closed => \A f \in Fonts : \A c \in DOMAIN rd[f] : Abs(rd[f][c].w, info[f][c].w) <= Tol
=============================================================================
