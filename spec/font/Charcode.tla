---------------------------- MODULE Charcode ----------------------------
(***************************************************************************)
(* Character-code codec of go-pdf (font/charcode).                         *)
(*                                                                         *)
(* Two descriptions of the same function live here:                        *)
(*                                                                         *)
(*  Ref...   the meaning of a code space range set, written from           *)
(*           ISO 32000-2 9.7.6.2/9.7.6.3: which prefixes of a byte string  *)
(*           are codes, and how many bytes an invalid code consumes.       *)
(*  Impl...  the shape of codec.go: newTree (split points per byte         *)
(*           position, leaf / sub-tree / gap, prefix-conflict error), the  *)
(*           linearisation that SHARES sub-trees with equal descriptors,   *)
(*           the Decode walk, AppendCode, and CodeSpaceRange = walk+merge. *)
(*                                                                         *)
(* Bytes are 0..B-1.  B = 256 when the module judges records from the real *)
(* code; B = 2..4 in the exhaustive models (every operator depends on      *)
(* bytes only through comparisons, so small B with an order preserving     *)
(* concretisation covers the case analysis).                               *)
(***************************************************************************)
EXTENDS Naturals, Sequences, FiniteSets, TLC

CONSTANTS B,          \* number of byte values
          WITH_GAPS   \* TRUE: sub-tree descriptors mention invalid gaps (sound sharing)
                      \* FALSE: descriptor as at the pinned commit (finding F5)

Byte == 0..(B - 1)
RLen(r) == Len(r.lo)
Min(S) == CHOOSE x \in S : \A y \in S : x <= y
Max(S) == CHOOSE x \in S : \A y \in S : x >= y

-----------------------------------------------------------------------------
(* Reference semantics *)

ValidRange(r) == /\ Len(r.lo) = Len(r.hi) /\ Len(r.lo) \in 1..4
                 /\ \A i \in 1..Len(r.lo) : r.lo[i] <= r.hi[i]

\* the first k bytes of s are compatible with range r
MatchesPrefix(r, s, k) == /\ k <= RLen(r) /\ k <= Len(s)
                          /\ \A i \in 1..k : r.lo[i] <= s[i] /\ s[i] <= r.hi[i]
Matches(r, s) == RLen(r) <= Len(s) /\ MatchesPrefix(r, s, RLen(r))

RefValid(rs, s) == \E r \in rs : Matches(r, s)
RefValidLen(rs, s) == Min({RLen(r) : r \in {q \in rs : Matches(q, s)}})

LongestPrefix(rs, s) == Max({0} \cup {k \in 1..Len(s) : \E r \in rs : MatchesPrefix(r, s, k)})
\* 9.7.6.3: an invalid code consumes the length of the shortest code among
\* those sharing the longest matched prefix (all codes if nothing matches),
\* at least one byte and never more than there is.
RefInvalidNeed(rs, s) ==
   LET k    == LongestPrefix(rs, s)
       cand == {r \in rs : MatchesPrefix(r, s, k)}
   IN  IF cand = {} THEN 1 ELSE Min({RLen(r) : r \in cand})
RefInvalidConsume(rs, s) ==
   LET n == RefInvalidNeed(rs, s) IN IF n > Len(s) THEN Len(s) ELSE n

\* <<valid, consumed>>; the empty string decodes to <<FALSE, 0>>
RefDecode(rs, s) == IF s = <<>> THEN <<FALSE, 0>>
                    ELSE IF RefValid(rs, s) THEN <<TRUE, RefValidLen(rs, s)>>
                    ELSE <<FALSE, RefInvalidConsume(rs, s)>>

\* some code of r is a proper prefix of some code of q
PrefixConflict(r, q) == /\ RLen(r) < RLen(q)
                        /\ \A i \in 1..RLen(r) : ~(r.hi[i] < q.lo[i] \/ q.hi[i] < r.lo[i])
PrefixFree(rs) == \A r, q \in rs : ~PrefixConflict(r, q)

\* a code is the consumed bytes, first byte least significant, i.e. the byte
\* sequence padded with zeros to four bytes
Pad4(s) == s \o [i \in 1..(4 - Len(s)) |-> 0]

\* two range sets describe the same codes, as far as the probe s can tell
SameOn(rs, qs, s) == /\ RefValid(rs, s) = RefValid(qs, s)
                     /\ RefValid(rs, s) => RefValidLen(rs, s) = RefValidLen(qs, s)

-----------------------------------------------------------------------------
(* Implementation shape: newTree *)

SortedSeq(S) == LET RECURSIVE F(_)
                    F(T) == IF T = {} THEN <<>> ELSE LET m == Min(T) IN <<m>> \o F(T \ {m})
                IN F(S)
Breaks(rs, d) == {0, B} \cup UNION {{r.lo[d], r.hi[d] + 1} : r \in rs}
MinLen(rs) == IF rs = {} THEN 1 ELSE Min({RLen(r) : r \in rs})

\* A tree is a sequence of entries [hi, kind, n, sub], kind in leaf/inv/sub/err,
\* ordered by hi; entry j covers the bytes after entry j-1 up to hi.
RECURSIVE Tree(_, _)
Tree(rs, d) ==
  LET bs == SortedSeq(Breaks(rs, d))
      Entry(j) ==
        LET low == bs[j]
            high == bs[j + 1] - 1
            ch == {r \in rs : r.lo[d] <= high /\ r.hi[d] >= low}
            leaves == {r \in ch : RLen(r) = d}
        IN IF ch = {} THEN [hi |-> high, kind |-> "inv", n |-> MinLen(rs) - d, sub |-> <<>>]
           ELSE IF leaves = ch THEN [hi |-> high, kind |-> "leaf", n |-> 0, sub |-> <<>>]
           ELSE IF leaves = {} THEN [hi |-> high, kind |-> "sub", n |-> 0, sub |-> Tree(ch, d + 1)]
           ELSE [hi |-> high, kind |-> "err", n |-> 0, sub |-> <<>>]
  IN [j \in 1..(Len(bs) - 1) |-> Entry(j)]

RECURSIVE HasErr(_)
HasErr(t) == \E j \in 1..Len(t) : t[j].kind = "err" \/ (t[j].kind = "sub" /\ HasErr(t[j].sub))

\* descriptor of a sub-tree (treeNode.desc)
RECURSIVE Desc(_)
Desc(t) == LET RECURSIVE D(_)
               D(j) == IF j > Len(t) THEN <<>>
                       ELSE (IF t[j].kind = "inv"
                             THEN (IF WITH_GAPS THEN <<<<"i", t[j].n, t[j].hi>>>> ELSE <<>>)
                             ELSE IF t[j].kind = "leaf" THEN <<<<"l", t[j].hi>>>>
                             ELSE <<<<"s", Desc(t[j].sub), t[j].hi>>>>) \o D(j + 1)
           IN D(1)

\* linearizer: the first sub-tree in depth-first order with a given descriptor
\* is the one every later sub-tree with that descriptor resolves to
RECURSIVE SubTrees(_)
SubTrees(t) == LET RECURSIVE S(_)
                   S(j) == IF j > Len(t) THEN <<>>
                           ELSE (IF t[j].kind = "sub" THEN <<t[j].sub>> \o SubTrees(t[j].sub) ELSE <<>>) \o S(j + 1)
               IN S(1)
Canon(all, t) == LET d == Desc(t)
                     i == Min({k \in 1..Len(all) : Desc(all[k]) = d})
                 IN all[i]

\* Decode: <<valid, consumed>>
RECURSIVE ImplDecodeAt(_, _, _, _)
ImplDecodeAt(all, t, s, consumed) ==
  IF s = <<>> THEN <<FALSE, consumed>>
  ELSE LET b == Head(s)
           j == Min({k \in 1..Len(t) : b <= t[k].hi})
           e == t[j]
       IN IF e.kind = "leaf" THEN <<TRUE, consumed + 1>>
          ELSE IF e.kind = "inv"
               THEN <<FALSE, consumed + 1 + (IF e.n < Len(s) - 1 THEN e.n ELSE Len(s) - 1)>>
          ELSE ImplDecodeAt(all, Canon(all, e.sub), Tail(s), consumed + 1)

ImplDecode(rs, s) == LET t == Tree(rs, 1) IN ImplDecodeAt(SubTrees(t), t, s, 0)

\* AppendCode(code) where code = CodeOf(bytes): the walk emits the low bytes of
\* the code; modelled on the byte sequence padded with zeros
RECURSIVE ImplAppendAt(_, _, _, _)
ImplAppendAt(all, t, s, out) ==
  LET b == Head(s)
      j == Min({k \in 1..Len(t) : b <= t[k].hi})
      e == t[j]
  IN IF e.kind = "leaf" THEN Append(out, b)
     ELSE IF e.kind = "inv" THEN Append(out, b) \o SubSeq(Tail(s), 1, e.n)
     ELSE ImplAppendAt(all, Canon(all, e.sub), Tail(s), Append(out, b))
ImplAppend(rs, s) == LET t == Tree(rs, 1) IN ImplAppendAt(SubTrees(t), t, Pad4(s) \o <<0, 0, 0, 0>>, <<>>)

\* CodeSpaceRange(): walk collects one rectangle per leaf path ...
RECURSIVE ImplWalk(_, _, _, _)
ImplWalk(all, t, low, high) ==
  LET RECURSIVE W(_, _)
      W(j, nextLow) ==
        IF j > Len(t) THEN <<>>
        ELSE LET e == t[j]
                 l2 == Append(low, nextLow)
                 h2 == Append(high, e.hi)
                 here == IF e.kind = "leaf" THEN <<[lo |-> l2, hi |-> h2]>>
                         ELSE IF e.kind = "sub" THEN ImplWalk(all, Canon(all, e.sub), l2, h2)
                         ELSE <<>>
             IN here \o W(j + 1, e.hi + 1)
  IN W(1, 0)

\* ... then adjacent rectangles are merged (canMerge + the candidate loop)
CanMerge(r, s) ==
  /\ RLen(r) = RLen(s)
  /\ LET diff == {i \in 1..RLen(r) : ~(r.lo[i] = s.lo[i] /\ r.hi[i] = s.hi[i])}
     IN /\ Cardinality(diff) = 1
        /\ \A i \in diff : r.hi[i] + 1 = s.lo[i]
FirstDiff(r, s) == Min({i \in 1..RLen(r) : ~(r.lo[i] = s.lo[i] /\ r.hi[i] = s.hi[i])})
RemoveAt(q, j) == SubSeq(q, 1, j - 1) \o SubSeq(q, j + 1, Len(q))
RECURSIVE MergeLoop(_)
MergeLoop(csr) ==
  LET cands == {<<FirstDiff(csr[i], csr[j]), i, j>> : <<i, j>> \in
                   {p \in (1..Len(csr)) \X (1..Len(csr)) : p[1] # p[2] /\ CanMerge(csr[p[1]], csr[p[2]])}}
  IN IF cands = {} THEN csr
     ELSE LET Less(a, b) == \/ a[1] < b[1]
                            \/ a[1] = b[1] /\ a[2] < b[2]
                            \/ a[1] = b[1] /\ a[2] = b[2] /\ a[3] < b[3]
              c == CHOOSE a \in cands : \A b \in cands : a = b \/ Less(a, b)
              i == c[2]
              j == c[3]
              merged == [csr EXCEPT ![i] = [lo |-> csr[i].lo, hi |-> csr[j].hi]]
          IN MergeLoop(RemoveAt(merged, j))
ImplCSR(rs) == LET t == Tree(rs, 1) IN MergeLoop(ImplWalk(SubTrees(t), t, <<>>, <<>>))
SeqRange(q) == {q[i] : i \in 1..Len(q)}

-----------------------------------------------------------------------------
(* The properties, for one range set and one input *)

BuildAgrees(rs) == HasErr(Tree(rs, 1)) = ~PrefixFree(rs)
DecodeAgrees(rs, s) == ImplDecode(rs, s) = RefDecode(rs, s)
\* decode then re-encode reproduces the consumed bytes (when they are all there)
\* (an invalid code cut short by the end of the input is excluded: its missing
\* bytes are zero in the code and come back as zeros)
Complete(rs, s) == s # <<>> /\ (RefValid(rs, s) \/ RefInvalidNeed(rs, s) <= Len(s))
ReencodeAgrees(rs, s) ==
  LET d == RefDecode(rs, s)
  IN Complete(rs, s) => ImplAppend(rs, SubSeq(s, 1, d[2])) = SubSeq(s, 1, d[2])
CSRAgrees(rs, s) == SameOn(SeqRange(ImplCSR(rs)), rs, s)
=============================================================================
