INIT Init
NEXT Next
CONSTANTS B = 3
  WITH_GAPS = TRUE
  MaxLen = 2
  MaxRanges = 3
  Lens3 = {1, 2}
  Shard = 0
  Shards = 1
