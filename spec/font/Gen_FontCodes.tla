--------------------------- MODULE Gen_FontCodes ---------------------------
(* Behaviours of FontCodes for the driver: sequences of Encode and Show      *)
(* steps interleaved over NF fonts, closed by Close (the driver closes the   *)
(* file after the last step).  Every such sequence is a behaviour of         *)
(* FontCodes: whether an Encode step is EncodeOld, EncodeNew or EncodeFull   *)
(* follows from the state.  A step names a font, and glyph slots with a text *)
(* variant each; the driver binds slot k of a font to the k-th (glyph, text) *)
(* pair of that font's pool.  Random walks (seeded by TLC's -seed) revisit   *)
(* slots (remembered codes); sweeps walk through fresh slots up to and       *)
(* beyond the 256 codes of a simple font (font 1 is the one swept).  Every   *)
(* behaviour ends by showing, font by font, all pairs encoded so far (op     *)
(* "showall": Show of the font's whole table), so that every allocated code  *)
(* is read back.                                                             *)
EXTENDS Naturals, Sequences, TLC, Json, IOUtils
CONSTANTS NF,       \* fonts per document
          NSlots,   \* glyph slots a random walk draws from
          NTexts,   \* text variants per slot
          Steps,    \* steps per random walk
          MaxShow,  \* glyphs per Show
          NWalks,   \* number of random walks
          NSweeps,  \* number of sweeps
          SweepTo   \* highest slot of a sweep

\* (operators with a parameter: TLC evaluates a parameterless definition only once)
Rnd(n, salt) == RandomElement(1..n)
Item(j) == [slot |-> Rnd(NSlots, j), tv |-> Rnd(NTexts, j)]
\* a Show also says how the one TextShowGlyphs call is decorated: rises = number of
\* positions at which the text rise changes (each ends the TJ array under construction),
\* kern = 1 none / 2 some / 3 many glyph advances adjusted (numbers inside the TJ array)
RandomStep(i) == LET f == Rnd(NF, i)
                 IN IF Rnd(3, i) = 1 THEN [op |-> "enc", f |-> f, items |-> <<Item(i)>>, rises |-> 0, kern |-> 1]
                    ELSE [op |-> "show", f |-> f, items |-> [j \in 1..Rnd(MaxShow, i) |-> Item(j)],
                          rises |-> Rnd(4, i) - 1, kern |-> Rnd(3, i)]
ShowAll == [f \in 1..NF |-> [op |-> "showall", f |-> f, items |-> <<>>, rises |-> 0, kern |-> 1]]
Walk(n) == [kind |-> "walk", steps |-> [i \in 1..Steps |-> RandomStep(i)] \o ShowAll]
\* a sweep: one font gets fresh slots in order, eight per step, the other fonts interleave at random
SweepStep(i, f) == IF i % 3 = 0 THEN RandomStep(i)
                   ELSE [op |-> IF i % 3 = 1 THEN "show" ELSE "enc", f |-> f,
                         items |-> [k \in 1..8 |-> [slot |-> ((8 * i + k) % SweepTo) + 1, tv |-> 1 + (i % NTexts)]],
                         rises |-> i % 4, kern |-> 1 + (i % 3)]
\* "fill": Encode fresh pairs of the font until it has no code left (EncodeNew steps; simple fonts)
Sweep(n) == [kind |-> "sweep", steps |-> [i \in 1..((SweepTo * 3) \div 16 + 4) |-> SweepStep(i, 1)]
                                          \o <<[op |-> "fill", f |-> 1, items |-> <<>>, rises |-> 0, kern |-> 1]>> \o ShowAll]
ASSUME ndJsonSerialize(IOEnv.OUT, [i \in 1..(NWalks + NSweeps) |-> IF i <= NWalks THEN Walk(i) ELSE Sweep(i)])
VARIABLE x
Init == x = 0
Next == UNCHANGED x
=============================================================================
