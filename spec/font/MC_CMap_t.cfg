\* thorough: five values per family, maps with up to 4 entries in four code spaces, chains in two
SPECIFICATION Spec
CONSTANTS B = 4
  WITH_GAPS = TRUE
  RuneMax = 1114111
  HoleLo = 55296
  HoleHi = 57343
  Repl = 65533
  CHUNK = 2
  TU_FROM_START = TRUE
  NOTDEF_OWN = TRUE
  Mode = "map"
  SpaceNames = {"s1", "s2", "mix", "mixw"}
  FamNames = {"cid", "tu1", "tuEdge", "tuMix"}
  ChainSpaces = {"s1", "mix"}
  MaxTop <- TopFour
  MaxTotal = 3
  MaxDepth = 3
  Wide = TRUE
  NotdefOn = TRUE
  MaxRect = 0
INVARIANTS LookupOK AllOK EmbedOK CompressOK
CHECK_DEADLOCK FALSE
