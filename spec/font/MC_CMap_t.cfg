\* thorough: maps with up to 4 entries in four code spaces (one more value per family in the mixed space),
\* chains of up to 3 layers with up to 3 entries
SPECIFICATION Spec
CONSTANTS B = 4
  WITH_GAPS = TRUE
  RuneMax = 1114111
  HoleLo = 55296
  HoleHi = 57343
  Repl = 65533
  CHUNK = 2
  STACK = 7
  CHUNK_STACK = TRUE
  TU_FROM_START = TRUE
  NOTDEF_OWN = TRUE
  Mode = "map"
  SpaceNames = {"s1", "s2", "mix", "mix0", "mixw"}
  FamNames = {"cid", "tu1", "tuEdge", "tuMix", "tuPrefix"}
  ChainSpaces = {"s1"}
  MaxTop <- TopFour
  MaxTotal = 3
  MaxDepth = 3
  Wide = TRUE
  WideSpaces = {"mix"}
  NotdefOn = TRUE
  MaxRect = 0
INVARIANTS LookupOK AllOK EmbedOK CompressOK ReadableOK
CHECK_DEADLOCK FALSE
