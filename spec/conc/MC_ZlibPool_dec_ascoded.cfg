\* negative control: every Close puts the object (Filter.Decode used directly); must FAIL NoDuplicate
SPECIFICATION Spec
CONSTANTS NStreams = 3
  Procs <- TwoProcs
  Chunks = 2
  Side = "dec"
  CLOSE_IDEMPOTENT = FALSE
INVARIANTS TypeOK NoDuplicate
CHECK_DEADLOCK FALSE
