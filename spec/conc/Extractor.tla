----------------------------- MODULE Extractor -----------------------------
(***************************************************************************)
(* The cache protocol of pdf.Extractor (resource.go, cursor.go):            *)
(*   Decode            cacheGet / follow chain / run decoder /              *)
(*                     cacheStoreOrLoad                                     *)
(*   DecodeExclusive   lock-check (hit | join wip | register) / Decode /    *)
(*                     hand-over / close(done); waiters block on done       *)
(*   StoreOrLoadPair   one critical section over two keys                   *)
(*                                                                         *)
(* One action = what one goroutine does between two points at which the     *)
(* harness can hold it (the Getter callback, the decoder callback, the      *)
(* verif yield points in DecodeExclusive, the boundary between two calls).  *)
(* Every action contains at most one mutex-protected section of the code,   *)
(* so the interleavings TLC explores are exactly the ones the cooperative   *)
(* scheduler can reproduce on the real code.                                *)
(*                                                                         *)
(* A reference graph is given by Target (reference -> reference | "VAL")    *)
(* and Children (the nested Decode calls the decoder of a value makes).     *)
(***************************************************************************)
EXTENDS Naturals, Sequences, FiniteSets, TLC

CONSTANTS Procs,        \* goroutines
          Refs,         \* references (strings)
          Target,       \* [Refs -> Refs \cup {"VAL"}]
          Children,     \* [Refs -> Seq(Refs)] nested decodes of the value's decoder
          Fails,        \* references whose decoder returns an error
          Calls,        \* the calls a goroutine may make: [op, ref]
          NCalls,       \* calls per goroutine
          FIXED         \* TRUE: cacheStoreOrLoad adopts a value cached under ANY
                        \* reference of the chain (repaired); FALSE: as at the
                        \* pinned commit, only refs[0] is tested (finding F6)

NONE == 0
Types == {"A", "B"}
Keys == Refs \X Types

VARIABLES cache,    \* [Keys -> value id | NONE]
          wip,      \* [Keys -> pending id | NONE]      (Extractor.wip)
          pend,     \* [pending id -> [done, ok, val]]  (the pending structs)
          pc,       \* [Procs -> control point]
          stack,    \* [Procs -> sequence of Decode frames]
          cur,      \* [Procs -> the running top-level call [op, ref, excl pending id, result]]
          ncalls,   \* [Procs -> calls made]
          nextId,   \* next fresh value id
          nextPend, \* next fresh pending id
          first,    \* [Keys -> first value returned for the key | NONE]   (history)
          agree,    \* FALSE once two calls returned different values for a key (history)
          seqok,    \* FALSE once a call's outcome class differed from its solo outcome (history)
          running   \* [Keys -> number of goroutines between registering a pending for
                    \*          the key and handing it over]  (history)
vars == <<cache, wip, pend, pc, stack, cur, ncalls, nextId, nextPend, first, agree, seqok, running>>

MaxPend == Cardinality(Procs) * NCalls

-----------------------------------------------------------------------------
(* solo semantics: the outcome class of a call made on a quiescent extractor *)
RECURSIVE ChainEnd(_, _)
\* follows the chain from r; "CYCLE" if it loops
ChainEnd(r, seen) == IF r \in seen THEN "CYCLE"
                     ELSE IF Target[r] = "VAL" THEN r
                     ELSE ChainEnd(Target[r], seen \cup {r})
SoloOK(r) == LET e == ChainEnd(r, {}) IN e # "CYCLE" /\ e \notin Fails

-----------------------------------------------------------------------------
Init == /\ cache = [k \in Keys |-> NONE]
        /\ wip = [k \in Keys |-> NONE]
        /\ pend = [i \in 1..MaxPend |-> [done |-> FALSE, ok |-> FALSE, val |-> NONE]]
        /\ pc = [p \in Procs |-> "idle"]
        /\ stack = [p \in Procs |-> <<>>]
        /\ cur = [p \in Procs |-> [op |-> "-", ref |-> "-", pid |-> NONE, ok |-> FALSE, val |-> NONE]]
        /\ ncalls = [p \in Procs |-> 0]
        /\ nextId = 1
        /\ nextPend = 1
        /\ first = [k \in Keys |-> NONE]
        /\ agree = TRUE
        /\ seqok = TRUE
        /\ running = [k \in Keys |-> 0]

\* bookkeeping when a Decode (top-level, nested or exclusive) yields v for key k
Note(k, v) == /\ first' = IF first[k] = NONE THEN [first EXCEPT ![k] = v] ELSE first
              /\ agree' = (agree /\ (first[k] = NONE \/ first[k] = v))

\* a top-level call of p finishes with outcome ok/val
Finish(p, ok) == /\ pc' = [pc EXCEPT ![p] = "idle"]
                 /\ seqok' = (seqok /\ (ok = SoloOK(cur[p].ref)))

Top(p) == stack[p][Len(stack[p])]
Pop(p) == SubSeq(stack[p], 1, Len(stack[p]) - 1)
SetTop(p, f) == [stack EXCEPT ![p] = Append(Pop(p), f)]

\* cacheStoreOrLoad(refs, tp, v): the value returned and the new cache
StoreResult(refs, tp, v) ==
  IF FIXED
  THEN LET hit == {i \in 1..Len(refs) : cache[<<refs[i], tp>>] # NONE}
       IN IF hit = {} THEN v
          ELSE cache[<<refs[CHOOSE i \in hit : \A j \in hit : i <= j], tp>>]
  ELSE IF cache[<<refs[1], tp>>] # NONE THEN cache[<<refs[1], tp>>] ELSE v
StoreCache(refs, tp, v) ==
  LET rs == {refs[i] : i \in 1..Len(refs)}
      w == StoreResult(refs, tp, v)
  IN IF FIXED
     THEN [k \in Keys |-> IF k[2] = tp /\ k[1] \in rs /\ cache[k] = NONE THEN w ELSE cache[k]]
     ELSE IF cache[<<refs[1], tp>>] # NONE THEN cache
          ELSE [k \in Keys |-> IF k[2] = tp /\ k[1] \in rs THEN v ELSE cache[k]]

-----------------------------------------------------------------------------
(* Decode, shared by top-level calls, DecodeExclusive and nested calls.      *)
(* "Begin" is the part of Decode up to the first Getter call: cacheGet, then *)
(* the cycle check.  It yields <<"hit", v>>, <<"err">> or <<"frame", f>>.    *)
Begin(r, tp, path) ==
  IF cache[<<r, tp>>] # NONE THEN <<"hit", cache[<<r, tp>>]>>
  ELSE IF r \in path THEN <<"err">>
  ELSE <<"frame", [asked |-> r, tp |-> tp, at |-> r, refs |-> <<r>>, path |-> path \cup {r},
                   val |-> NONE, k |-> 1]>>

\* The decoder (or the top-level call) receives the outcome of a Decode that
\* has just ended for goroutine p whose remaining frames are st.
\*   ok/v: outcome;  key: what was asked
Deliver(p, st, ok, v, key) ==
  IF st = <<>>
  THEN \* a top-level Decode, or the Decode inside DecodeExclusive, has returned
       IF cur[p].op = "DecodeExclusive"
       THEN /\ pc' = [pc EXCEPT ![p] = "exclDecoded"]
            /\ cur' = [cur EXCEPT ![p].ok = ok, ![p].val = v]
            /\ stack' = [stack EXCEPT ![p] = st]
            /\ UNCHANGED seqok
       ELSE /\ Finish(p, ok)
            /\ cur' = [cur EXCEPT ![p].ok = ok, ![p].val = v]
            /\ stack' = [stack EXCEPT ![p] = st]
  ELSE \* back in the parent decoder: next nested call or end of the decoder
       LET f == st[Len(st)]
           g == [f EXCEPT !.k = f.k + 1]
       IN /\ stack' = [stack EXCEPT ![p] = Append(SubSeq(st, 1, Len(st) - 1), g)]
          /\ pc' = [pc EXCEPT ![p] = IF g.k > Len(Children[f.at]) THEN "decEnd" ELSE "nested"]
          /\ UNCHANGED <<cur, seqok>>

\* start a Decode for (r, tp) below the frames st
Start(p, st, r, tp, path) ==
  LET b == Begin(r, tp, path)
  IN IF b[1] = "frame"
     THEN /\ stack' = [stack EXCEPT ![p] = Append(st, b[2])]
          /\ pc' = [pc EXCEPT ![p] = "get"]
          /\ UNCHANGED <<cur, seqok, first, agree>>
     ELSE IF b[1] = "hit"
          THEN Deliver(p, st, TRUE, b[2], <<r, tp>>) /\ Note(<<r, tp>>, b[2])
          ELSE Deliver(p, st, FALSE, NONE, <<r, tp>>) /\ UNCHANGED <<first, agree>>

\* the Getter returns Target[at]
GetDone(p) ==
  /\ pc[p] = "get"
  /\ LET f == Top(p)
         t == Target[f.at]
     IN IF t = "VAL"
        THEN /\ pc' = [pc EXCEPT ![p] = "decEntry"]
             /\ UNCHANGED <<stack, cur, seqok, first, agree>>
        ELSE IF cache[<<t, f.tp>>] # NONE
             THEN \* hit further down the chain: returned as is, nothing is stored
                  Deliver(p, Pop(p), TRUE, cache[<<t, f.tp>>], <<f.asked, f.tp>>)
                  /\ Note(<<f.asked, f.tp>>, cache[<<t, f.tp>>])
             ELSE IF t \in f.path
                  THEN Deliver(p, Pop(p), FALSE, NONE, <<f.asked, f.tp>>) /\ UNCHANGED <<first, agree>>
                  ELSE /\ stack' = SetTop(p, [f EXCEPT !.at = t, !.refs = Append(f.refs, t), !.path = f.path \cup {t}])
                       /\ UNCHANGED <<pc, cur, seqok, first, agree>>
  /\ UNCHANGED <<cache, wip, pend, ncalls, nextId, nextPend, running>>

\* the decoder starts: it creates the Go value
DecEnter(p) ==
  /\ pc[p] = "decEntry"
  /\ LET f == Top(p)
     IN /\ stack' = SetTop(p, [f EXCEPT !.val = nextId, !.k = 1])
        /\ pc' = [pc EXCEPT ![p] = IF Children[f.at] = <<>> THEN "decEnd" ELSE "nested"]
  /\ nextId' = nextId + 1
  /\ UNCHANGED <<cache, wip, pend, cur, ncalls, nextPend, first, agree, seqok, running>>

\* the decoder makes its k-th nested Decode call (errors of nested calls are ignored)
NestedCall(p) ==
  /\ pc[p] = "nested"
  /\ LET f == Top(p)
         child == Children[f.at][f.k]
     IN Start(p, stack[p], child, f.tp, f.path)
  /\ UNCHANGED <<cache, wip, pend, ncalls, nextId, nextPend, running>>

\* the decoder returns; cacheStoreOrLoad publishes the value
DecLeave(p) ==
  /\ pc[p] = "decEnd"
  /\ LET f == Top(p)
     IN IF f.at \in Fails
        THEN /\ Deliver(p, Pop(p), FALSE, NONE, <<f.asked, f.tp>>)
             /\ UNCHANGED <<cache, first, agree>>
        ELSE LET v == StoreResult(f.refs, f.tp, f.val)
             IN /\ cache' = StoreCache(f.refs, f.tp, f.val)
                /\ Deliver(p, Pop(p), TRUE, v, <<f.asked, f.tp>>)
                /\ Note(<<f.asked, f.tp>>, v)
  /\ UNCHANGED <<wip, pend, ncalls, nextId, nextPend, running>>

-----------------------------------------------------------------------------
(* top-level calls *)
CallDecode(p, c) ==
  /\ c.op = "Decode"
  /\ LET b == Begin(c.ref, "A", {})
         call == [op |-> c.op, ref |-> c.ref, pid |-> NONE, ok |-> FALSE, val |-> NONE]
     IN IF b[1] = "frame"
        THEN /\ cur' = [cur EXCEPT ![p] = call]
             /\ stack' = [stack EXCEPT ![p] = <<b[2]>>]
             /\ pc' = [pc EXCEPT ![p] = "get"]
             /\ UNCHANGED <<seqok, first, agree>>
        ELSE \* cache hit (an error is impossible with an empty path)
             /\ b[1] = "hit"
             /\ cur' = [cur EXCEPT ![p] = [call EXCEPT !.ok = TRUE, !.val = b[2]]]
             /\ pc' = [pc EXCEPT ![p] = "idle"]
             /\ seqok' = (seqok /\ SoloOK(c.ref))
             /\ Note(<<c.ref, "A">>, b[2])
             /\ UNCHANGED stack
  /\ UNCHANGED <<cache, wip, pend, nextId, nextPend, running>>

\* DecodeExclusive: the lock-check section
CallExclusive(p, c) ==
  /\ c.op = "DecodeExclusive"
  /\ LET k == <<c.ref, "A">>
     IN IF cache[k] # NONE
        THEN /\ cur' = [cur EXCEPT ![p] = [op |-> c.op, ref |-> c.ref, pid |-> NONE, ok |-> TRUE, val |-> cache[k]]]
             /\ pc' = [pc EXCEPT ![p] = "idle"]
             /\ seqok' = (seqok /\ SoloOK(c.ref))
             /\ Note(k, cache[k])
             /\ UNCHANGED <<wip, nextPend, running>>
        ELSE IF wip[k] # NONE
             THEN /\ cur' = [cur EXCEPT ![p] = [op |-> c.op, ref |-> c.ref, pid |-> wip[k], ok |-> FALSE, val |-> NONE]]
                  /\ pc' = [pc EXCEPT ![p] = "exclWait"]
                  /\ UNCHANGED <<wip, nextPend, seqok, first, agree, running>>
             ELSE /\ cur' = [cur EXCEPT ![p] = [op |-> c.op, ref |-> c.ref, pid |-> nextPend, ok |-> FALSE, val |-> NONE]]
                  /\ wip' = [wip EXCEPT ![k] = nextPend]
                  /\ nextPend' = nextPend + 1
                  /\ running' = [running EXCEPT ![k] = @ + 1]
                  /\ pc' = [pc EXCEPT ![p] = "exclRun"]
                  /\ UNCHANGED <<seqok, first, agree>>
  /\ UNCHANGED <<cache, pend, stack, nextId>>

\* the owner starts the Decode
ExclStart(p) ==
  /\ pc[p] = "exclRun"
  /\ Start(p, <<>>, cur[p].ref, "A", {})
  /\ UNCHANGED <<cache, wip, pend, ncalls, nextId, nextPend, running>>

\* the owner hands the outcome over and removes the wip entry
ExclHandOver(p) ==
  /\ pc[p] = "exclDecoded"
  /\ pend' = [pend EXCEPT ![cur[p].pid] = [done |-> FALSE, ok |-> cur[p].ok, val |-> cur[p].val]]
  /\ wip' = [wip EXCEPT ![<<cur[p].ref, "A">>] = NONE]
  /\ running' = [running EXCEPT ![<<cur[p].ref, "A">>] = @ - 1]
  /\ pc' = [pc EXCEPT ![p] = "exclHanded"]
  /\ UNCHANGED <<cache, stack, cur, ncalls, nextId, nextPend, first, agree, seqok>>

\* close(done) and return
ExclClose(p) ==
  /\ pc[p] = "exclHanded"
  /\ pend' = [pend EXCEPT ![cur[p].pid].done = TRUE]
  /\ Finish(p, cur[p].ok)
  /\ UNCHANGED <<cache, wip, stack, cur, ncalls, nextId, nextPend, first, agree, running>>

\* a waiter is woken by the closed channel and takes the owner's outcome
AwaitDone(p) ==
  /\ pc[p] = "exclWait"
  /\ pend[cur[p].pid].done
  /\ cur' = [cur EXCEPT ![p].ok = pend[cur[p].pid].ok, ![p].val = pend[cur[p].pid].val]
  /\ Finish(p, pend[cur[p].pid].ok)
  /\ IF pend[cur[p].pid].ok THEN Note(<<cur[p].ref, "A">>, pend[cur[p].pid].val) ELSE UNCHANGED <<first, agree>>
  /\ UNCHANGED <<cache, wip, pend, stack, ncalls, nextId, nextPend, running>>

\* StoreOrLoadPair(x, ref, a, b) with two fresh values
CallPair(p, c) ==
  /\ c.op = "Pair"
  /\ LET ka == <<c.ref, "A">>
         kb == <<c.ref, "B">>
         a == IF cache[ka] # NONE THEN cache[ka] ELSE nextId
         b == IF cache[kb] # NONE THEN cache[kb] ELSE nextId + 1
     IN /\ cache' = [cache EXCEPT ![ka] = a, ![kb] = b]
        /\ cur' = [cur EXCEPT ![p] = [op |-> c.op, ref |-> c.ref, pid |-> NONE, ok |-> TRUE, val |-> a]]
        /\ first' = [k \in Keys |-> IF k = ka /\ first[k] = NONE THEN a
                                    ELSE IF k = kb /\ first[k] = NONE THEN b ELSE first[k]]
        /\ agree' = (agree /\ (first[ka] = NONE \/ first[ka] = a) /\ (first[kb] = NONE \/ first[kb] = b))
  /\ nextId' = nextId + 2
  /\ pc' = [pc EXCEPT ![p] = "idle"]
  /\ UNCHANGED <<wip, pend, stack, nextPend, seqok, running>>

Call(p, c) ==
  /\ pc[p] = "idle" /\ ncalls[p] < NCalls
  /\ ncalls' = [ncalls EXCEPT ![p] = @ + 1]
  /\ \/ CallDecode(p, c)
     \/ CallExclusive(p, c)
     \/ CallPair(p, c)

Step(p) == \/ \E c \in Calls : Call(p, c)
           \/ GetDone(p) \/ DecEnter(p) \/ NestedCall(p) \/ DecLeave(p)
           \/ ExclStart(p) \/ ExclHandOver(p) \/ ExclClose(p) \/ AwaitDone(p)
AllDone == \A p \in Procs : pc[p] = "idle" /\ ncalls[p] = NCalls
Next == (\E p \in Procs : Step(p)) \/ (AllDone /\ UNCHANGED vars)
Spec == Init /\ [][Next]_vars
FairSpec == Spec /\ \A p \in Procs : WF_vars(Step(p))

-----------------------------------------------------------------------------
(* properties *)
\* all decodes of one (reference, type) yield the identical value
Agreement == agree
\* a published cache entry is never replaced
CacheStable == [][\A k \in Keys : cache[k] # NONE => cache'[k] = cache[k]]_vars
\* the references of one chain are cached with one value
ChainConsistent == \A r \in Refs : \A tp \in Types :
   (Target[r] # "VAL" /\ cache[<<r, tp>>] # NONE /\ cache[<<Target[r], tp>>] # NONE)
      => cache[<<r, tp>>] = cache[<<Target[r], tp>>]
\* overlapping exclusive decodes of a key run the decoder in one goroutine only
ExclusiveOnce == \A k \in Keys : running[k] <= 1
\* each call's outcome class is the one it has when run alone
SequentialEquivalence == seqok
\* no interleaving deadlocks: checked by TLC's deadlock detection (Next has a
\* terminal stuttering step only when every goroutine has finished)
Termination == <>AllDone

\* the history variables do not influence behaviour
View == <<cache, wip, pend, pc, stack, cur, ncalls, nextId, nextPend, first, agree, seqok, running>>
=============================================================================
