SPECIFICATION Spec
CONSTANTS
  Procs = {p1, p2}
  NCalls = 2
  FIXED = FALSE
  GRAPH = "chain"
  Refs <- MCRefs
  Target <- MCTarget
  Children <- MCChildren
  Fails <- MCFails
  Calls <- MCCalls
INVARIANTS Agreement ChainConsistent ExclusiveOnce SequentialEquivalence
PROPERTY CacheStable
