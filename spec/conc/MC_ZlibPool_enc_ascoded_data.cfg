\* negative control, encoding: a stale second Close terminates another stream's compression; must FAIL OwnBytes
SPECIFICATION Spec
CONSTANTS NStreams = 3
  Procs <- TwoProcs
  Chunks = 2
  Side = "enc"
  CLOSE_IDEMPOTENT = FALSE
INVARIANTS TypeOK OwnBytes
CHECK_DEADLOCK FALSE
