\* negative control: the consequence on data; must FAIL OwnBytes
SPECIFICATION Spec
CONSTANTS NStreams = 3
  Procs <- TwoProcs
  Chunks = 2
  Side = "dec"
  CLOSE_IDEMPOTENT = FALSE
INVARIANTS TypeOK OwnBytes
CHECK_DEADLOCK FALSE
