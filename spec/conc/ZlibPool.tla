------------------------------ MODULE ZlibPool ------------------------------
(* The package-level pools of zlib decompressors and compressors in          *)
(* filter.go (zlibReaderPool / zlibNewReader / pooledZlibReader.Close, and   *)
(* zlibWriterPool / the close function of encodeFlateLZW), used by every     *)
(* Flate stream of every document of the process.                            *)
(*                                                                           *)
(* An object (a *zlib.reader or *zlib.Writer) is either in the pool, or held *)
(* by a stream.  A stream is a handle: Open = Get (pop ANY pooled object, or *)
(* make a new one: sync.Pool promises nothing more) followed by Reset to the *)
(* stream's source / sink (two steps: another goroutine may run in between); *)
(* Io = one Read / Write through the handle, which reaches whatever source / *)
(* sink the object is currently reset to; Close = close the object and Put   *)
(* it.  After Close the handle still points to the object.                   *)
(*                                                                           *)
(* CLOSE_IDEMPOTENT = FALSE is the code as it is: every Close of a handle    *)
(* puts the object (pooledZlibReader is a value without state, the close     *)
(* closure of encodeFlateLZW keeps none either), and on the encoding side a  *)
(* second Close also terminates whatever compression the object is now used  *)
(* for.  TRUE is the design the invariants demand: the second Close of a     *)
(* handle does nothing.  (pdf.DecodeStream wraps every stage in closeOnce    *)
(* and so behaves like TRUE; Filter.Decode / Filter.Encode used directly and *)
(* Writer.OpenStream hand out the bare handle.)                              *)
EXTENDS Integers, Sequences, FiniteSets, TLC

CONSTANTS NStreams,          \* streams 1..NStreams
          Procs,             \* goroutines
          Chunks,            \* chunks of data per stream
          Side,              \* "dec" or "enc"
          CLOSE_IDEMPOTENT

Streams == 1..NStreams
Objs == 1..NStreams          \* at most one new object per stream
NONE == 0
NoProc == "-"
\* what a user / a sink gets: a chunk of some stream, a trailer, or a chunk that went nowhere
Chunk(s, i) == [k |-> "c", s |-> s, i |-> i]
Trailer == [k |-> "T", s |-> 0, i |-> 0]
Lost == [k |-> "lost", s |-> 0, i |-> 0]

VARIABLES pool,     \* object -> number of times it is in the pool (a multiset)
          made,     \* objects created so far
          st,       \* stream -> "new", "getting", "open", "closed", "done"
          holder,   \* stream -> the object its handle wraps (NONE before Get)
          by,       \* stream -> goroutine using it (NONE before Open)
          nclose,   \* stream -> Close calls so far
          cur,      \* object -> stream whose source / sink it is reset to (NONE: never reset)
          opos,     \* object -> chunks of cur[o]'s data consumed / produced since Reset
          fin,      \* object -> its current compression has been terminated
          npos,     \* stream -> io calls made through its handle
          data      \* stream -> what the stream's user / sink got: sequence of <<stream, chunk index>> or "T"
vars == <<pool, made, st, holder, by, nclose, cur, opos, fin, npos, data>>

Init == /\ pool = [o \in Objs |-> 0] /\ made = {}
        /\ st = [s \in Streams |-> "new"] /\ holder = [s \in Streams |-> NONE]
        /\ by = [s \in Streams |-> NoProc] /\ nclose = [s \in Streams |-> 0]
        /\ cur = [o \in Objs |-> NONE] /\ opos = [o \in Objs |-> 0] /\ fin = [o \in Objs |-> FALSE]
        /\ npos = [s \in Streams |-> 0] /\ data = [s \in Streams |-> <<>>]

\* a goroutine is inside at most one Open at a time
Busy(p) == \E s \in Streams : by[s] = p /\ st[s] = "getting"

\* zlibReaderPool.Get() / zlibWriterPool.Get(): any pooled object, or a new one
GetPooled(p, s, o) == /\ st[s] = "new" /\ ~Busy(p) /\ pool[o] > 0
                      /\ pool' = [pool EXCEPT ![o] = @ - 1]
                      /\ holder' = [holder EXCEPT ![s] = o] /\ by' = [by EXCEPT ![s] = p]
                      /\ st' = [st EXCEPT ![s] = "getting"]
                      /\ UNCHANGED <<made, nclose, cur, opos, fin, npos, data>>
GetNew(p, s) == /\ st[s] = "new" /\ ~Busy(p)
                /\ LET o == CHOOSE x \in Objs : x \notin made
                   IN /\ made' = made \cup {o}
                      /\ holder' = [holder EXCEPT ![s] = o]
                /\ by' = [by EXCEPT ![s] = p] /\ st' = [st EXCEPT ![s] = "getting"]
                /\ UNCHANGED <<pool, nclose, cur, opos, fin, npos, data>>
\* Reset(source) / Reset(sink)
Reset(p, s) == /\ st[s] = "getting" /\ by[s] = p
               /\ LET o == holder[s]
                  IN /\ cur' = [cur EXCEPT ![o] = s] /\ opos' = [opos EXCEPT ![o] = 0]
                     /\ fin' = [fin EXCEPT ![o] = FALSE]
               /\ st' = [st EXCEPT ![s] = "open"]
               /\ UNCHANGED <<pool, made, holder, by, nclose, npos, data>>
\* one Read: the object delivers the next chunk of the source it is reset to;
\* one Write: the chunk of s goes to the sink the object is reset to
Io(p, s) == /\ st[s] = "open" /\ by[s] = p /\ npos[s] < Chunks
            /\ LET o == holder[s] t == cur[o]
               IN IF Side = "dec"
                  THEN IF opos[o] < Chunks /\ ~fin[o]
                       THEN /\ data' = [data EXCEPT ![s] = Append(@, Chunk(t, opos[o] + 1))]
                            /\ opos' = [opos EXCEPT ![o] = @ + 1]
                       ELSE UNCHANGED <<data, opos>>            \* EOF
                  ELSE /\ data' = [data EXCEPT ![t] = Append(@, IF fin[o] THEN Lost ELSE Chunk(s, npos[s] + 1))]
                       /\ opos' = [opos EXCEPT ![o] = @ + 1]
            /\ npos' = [npos EXCEPT ![s] = @ + 1]
            /\ UNCHANGED <<pool, made, st, holder, by, nclose, cur, fin>>
\* Close through the handle of s
Close(p, s) ==
  /\ st[s] \in {"open", "closed"} /\ by[s] = p /\ nclose[s] < 2
  /\ nclose' = [nclose EXCEPT ![s] = @ + 1]
  /\ st' = [st EXCEPT ![s] = "closed"]
  /\ LET o == holder[s]
     IN IF nclose[s] = 0 \/ ~CLOSE_IDEMPOTENT
        THEN /\ pool' = [pool EXCEPT ![o] = @ + 1]
             \* closing a compressor writes its trailer into the sink it is reset to
             \* (as coded a repeated Close writes the checksum once more)
             /\ IF Side = "enc" /\ (~fin[o] \/ ~CLOSE_IDEMPOTENT)
                THEN data' = [data EXCEPT ![cur[o]] = Append(@, Trailer)]
                ELSE UNCHANGED data
             /\ fin' = [fin EXCEPT ![o] = TRUE]
        ELSE UNCHANGED <<pool, data, fin>>
  /\ UNCHANGED <<made, holder, by, cur, opos, npos>>

Next == \E p \in Procs, s \in Streams :
           \/ \E o \in Objs : GetPooled(p, s, o)
           \/ GetNew(p, s) \/ Reset(p, s) \/ Io(p, s) \/ Close(p, s)
Spec == Init /\ [][Next]_vars

\* ------------------------------------------------------------- invariants
\* no object is in the pool twice
NoDuplicate == \A o \in Objs : pool[o] <= 1
\* an object in the pool is referenced by no live stream
PooledIsFree == \A o \in Objs : pool[o] > 0 => ~\E s \in Streams : st[s] \in {"getting", "open"} /\ holder[s] = o
\* no two live streams share an object
Exclusive == \A s, t \in Streams : (s # t /\ st[s] \in {"getting", "open"} /\ st[t] \in {"getting", "open"}) => holder[s] # holder[t]
\* the consequence the user sees: every stream gets / produces its own bytes
\* decoding: the j-th thing delivered to s is s's j-th chunk; encoding: the sink
\* of s holds s's chunks in order, then (once s is closed) one trailer, nothing else
OwnPrefix(s) ==
  IF Side = "dec" THEN \A j \in 1..Len(data[s]) : data[s][j] = Chunk(s, j)
  ELSE /\ Len(data[s]) <= npos[s] + 1
       /\ \A j \in 1..Len(data[s]) :
             IF j <= npos[s] THEN data[s][j] = Chunk(s, j)
             ELSE data[s][j] = Trailer /\ st[s] = "closed"
       /\ (st[s] = "closed") => Len(data[s]) = npos[s] + 1
OwnBytes == \A s \in Streams : OwnPrefix(s)
TypeOK == /\ \A o \in Objs : pool[o] \in 0..3
          /\ made \subseteq Objs
=============================================================================
