SPECIFICATION TSpec
CONSTANTS
  Procs = {"p1", "p2", "p3"}
  NCalls = 1
  FIXED = TRUE
  GRAPH = "excl"
  Refs <- MCRefs
  Target <- MCTarget
  Children <- MCChildren
  Fails <- MCFails
  Calls <- MCCalls
CHECK_DEADLOCK FALSE
