--------------------------- MODULE MC_Extractor ---------------------------
(* Bounded instances of Extractor: reference graphs and call sets.          *)
EXTENDS Extractor
CONSTANTS GRAPH

MCRefs == {"r1", "r2", "r3"}

\* chain:   r1 -> r2 -> VAL,   r3 -> VAL (its decoder decodes r1)
\* mutual:  r1, r2 values whose decoders decode each other; r3 -> r1
\* cycle:   r1 -> r2 -> r1 (references only), r3 -> VAL
\* fail:    r1 -> r2 -> VAL with a failing decoder, r3 -> VAL
MCTarget ==
  CASE GRAPH = "chain"  -> [r \in MCRefs |-> IF r = "r1" THEN "r2" ELSE "VAL"]
    [] GRAPH = "mutual" -> [r \in MCRefs |-> IF r = "r3" THEN "r1" ELSE "VAL"]
    [] GRAPH = "cycle"  -> [r \in MCRefs |-> IF r = "r1" THEN "r2" ELSE IF r = "r2" THEN "r1" ELSE "VAL"]
    [] GRAPH = "fail"   -> [r \in MCRefs |-> IF r = "r1" THEN "r2" ELSE "VAL"]
    [] GRAPH = "excl"   -> [r \in MCRefs |-> IF r = "r1" THEN "r2" ELSE "VAL"]
MCChildren ==
  CASE GRAPH = "chain"  -> [r \in MCRefs |-> IF r = "r3" THEN <<"r1">> ELSE <<>>]
    [] GRAPH = "mutual" -> [r \in MCRefs |-> IF r = "r1" THEN <<"r2">> ELSE IF r = "r2" THEN <<"r1">> ELSE <<>>]
    [] GRAPH = "cycle"  -> [r \in MCRefs |-> <<>>]
    [] GRAPH = "fail"   -> [r \in MCRefs |-> <<>>]
    [] GRAPH = "excl"   -> [r \in MCRefs |-> IF r = "r3" THEN <<"r2">> ELSE <<>>]
MCFails == IF GRAPH = "fail" THEN {"r2"} ELSE {}
C(op, r) == [op |-> op, ref |-> r]
MCCalls ==
  CASE GRAPH = "chain"  -> {C("Decode", "r1"), C("Decode", "r2"), C("Decode", "r3")}
    [] GRAPH = "mutual" -> {C("Decode", "r1"), C("Decode", "r2"), C("Decode", "r3")}
    [] GRAPH = "cycle"  -> {C("Decode", "r1"), C("Decode", "r3"), C("DecodeExclusive", "r1")}
    [] GRAPH = "fail"   -> {C("Decode", "r1"), C("DecodeExclusive", "r1"), C("DecodeExclusive", "r2")}
    [] GRAPH = "excl"   -> {C("DecodeExclusive", "r1"), C("DecodeExclusive", "r2"), C("Decode", "r2"),
                            C("Pair", "r3"), C("Decode", "r3")}

=============================================================================
