INIT Init
NEXT Next
CONSTANTS Shapes <- ThoroughShapes
CHECK_DEADLOCK FALSE
