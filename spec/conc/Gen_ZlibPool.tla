---------------------------- MODULE Gen_ZlibPool ----------------------------
(* Behaviours of ZlibPool for replay on the real API: every interleaving of *)
(* the per-stream operation lists  open, io^k, close [, close]  of N        *)
(* streams (open stands for Get+Reset, which the API does in one call),     *)
(* with every stream assigned to one of two goroutines.  Which streams      *)
(* close twice, and how often they read / write, is given by Shapes.        *)
EXTENDS Integers, Sequences, FiniteSets, Json, IOUtils, TLC, SequencesExt
CONSTANTS Shapes     \* set of sequences (one entry per stream) of [io |-> k, closes |-> c]

Ops(sh) == <<"open">> \o [j \in 1..sh.io |-> "io"] \o [j \in 1..sh.closes |-> "close"]
RECURSIVE Inter(_)
\* ls: sequence of remaining operation lists, one per stream
Inter(ls) ==
  IF \A i \in 1..Len(ls) : ls[i] = <<>> THEN {<<>>}
  ELSE UNION {{<<[s |-> i, op |-> Head(ls[i])]>> \o t : t \in Inter([ls EXCEPT ![i] = Tail(ls[i])])}
                 : i \in {j \in 1..Len(ls) : ls[j] # <<>>}}
\* goroutine of stream i: alternate, first stream on g1
Proc(i) == IF i % 2 = 1 THEN "g1" ELSE "g2"
Case(shape, beh) == [n |-> Len(shape), shape |-> shape,
                     ops |-> [j \in 1..Len(beh) |-> [s |-> beh[j].s, op |-> beh[j].op, p |-> Proc(beh[j].s)]]]
Cases == UNION {{Case(shape, b) : b \in Inter([i \in 1..Len(shape) |-> Ops(shape[i])])} : shape \in Shapes}
ASSUME ndJsonSerialize(IOEnv.OUT, SetToSeq(Cases))
VARIABLE x
Init == x = 0
Next == UNCHANGED x
=============================================================================
