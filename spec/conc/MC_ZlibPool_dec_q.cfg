\* design (second Close of a handle does nothing), decoding, 3 streams, 2 goroutines
SPECIFICATION Spec
CONSTANTS NStreams = 3
  Procs <- TwoProcs
  Chunks = 2
  Side = "dec"
  CLOSE_IDEMPOTENT = TRUE
INVARIANTS TypeOK NoDuplicate PooledIsFree Exclusive OwnBytes
CHECK_DEADLOCK FALSE
