\* design, encoding, 3 streams, 2 goroutines
SPECIFICATION Spec
CONSTANTS NStreams = 3
  Procs <- TwoProcs
  Chunks = 2
  Side = "enc"
  CLOSE_IDEMPOTENT = TRUE
INVARIANTS TypeOK NoDuplicate PooledIsFree Exclusive OwnBytes
CHECK_DEADLOCK FALSE
