-------------------------- MODULE Trace_Extractor --------------------------
(* Validates executions of the real pdf.Extractor against Extractor.tla.    *)
(* A record is one execution: the sequence of steps the goroutines took     *)
(* (process, action name, call arguments) with what was observed after each *)
(* step: the gate the goroutine reached, the contents of the real cache     *)
(* (keys and which keys hold the identical Go value) and, when a call       *)
(* returned, its outcome.  Each event must be a step of the specification   *)
(* whose successor state projects to the observation; invariants of the     *)
(* specification are evaluated in every state on the way.                   *)
EXTENDS MC_Extractor, TraceLib

Traces == Records

VARIABLES t, l, bad, fin
tvars == <<vars, t, l, bad, fin>>

Ev == Traces[t].events[l]
GateOf(c) == CASE c = "idle" -> "idle" [] c = "get" -> "get" [] c = "decEntry" -> "decEntry"
               [] c = "nested" -> "nested" [] c = "decEnd" -> "decEnd" [] c = "exclWait" -> "excl-wait"
               [] c = "exclRun" -> "excl-run" [] c = "exclDecoded" -> "excl-decoded"
               [] c = "exclHanded" -> "excl-handover"

Named(p, e) ==
  CASE e.a = "Call" -> Call(p, [op |-> e.op, ref |-> e.ref])
    [] e.a = "GetDone" -> GetDone(p)
    [] e.a = "DecEnter" -> DecEnter(p)
    [] e.a = "NestedCall" -> NestedCall(p)
    [] e.a = "DecLeave" -> DecLeave(p)
    [] e.a = "ExclStart" -> ExclStart(p)
    [] e.a = "ExclHandOver" -> ExclHandOver(p)
    [] e.a = "ExclClose" -> ExclClose(p)
    [] e.a = "AwaitDone" -> AwaitDone(p)
    [] OTHER -> FALSE

\* the observed cache: sequence of [r, tp, id]; ids name identical Go values
ObsKeys(e) == {<<e.cache[i].r, e.cache[i].tp>> : i \in 1..Len(e.cache)}
ObsId(e, k) == LET i == CHOOSE j \in 1..Len(e.cache) : <<e.cache[j].r, e.cache[j].tp>> = k IN e.cache[i].id
CacheMatches(c, e) ==
  /\ {k \in Keys : c[k] # NONE} = ObsKeys(e)
  /\ \A k1, k2 \in ObsKeys(e) : (c[k1] = c[k2]) <=> (ObsId(e, k1) = ObsId(e, k2))

Match ==
  /\ t <= Len(Traces) /\ l <= Len(Traces[t].events)
  /\ LET e == Ev IN
       /\ Named(e.p, e)
       /\ GateOf(pc'[e.p]) = e.gate
       /\ CacheMatches(cache', e)
       \* a call returned: its outcome class, and whether it returned the value
       \* that is cached for the key it asked for
       /\ e.done.has => /\ cur'[e.p].ok = e.done.ok
                        /\ (e.done.ok /\ e.done.op # "Pair" /\ cache'[<<e.done.ref, "A">>] # NONE) =>
                              (e.done.same = (cur'[e.p].val = cache'[<<e.done.ref, "A">>]))
  /\ l' = l + 1
  /\ UNCHANGED <<t, bad, fin>>

ResetVars ==
  /\ cache' = [k \in Keys |-> NONE]
  /\ wip' = [k \in Keys |-> NONE]
  /\ pend' = [i \in 1..MaxPend |-> [done |-> FALSE, ok |-> FALSE, val |-> NONE]]
  /\ pc' = [p \in Procs |-> "idle"]
  /\ stack' = [p \in Procs |-> <<>>]
  /\ cur' = [p \in Procs |-> [op |-> "-", ref |-> "-", pid |-> NONE, ok |-> FALSE, val |-> NONE]]
  /\ ncalls' = [p \in Procs |-> 0]
  /\ nextId' = 1 /\ nextPend' = 1
  /\ first' = [k \in Keys |-> NONE]
  /\ agree' = TRUE /\ seqok' = TRUE
  /\ running' = [k \in Keys |-> 0]

\* the execution has been explained completely: next one
Accept == /\ t <= Len(Traces) /\ l = Len(Traces[t].events) + 1
          /\ ResetVars /\ t' = t + 1 /\ l' = 1 /\ UNCHANGED <<bad, fin>>
\* no step of the specification explains the event, or an invariant broke: rejected
Broken == ~(Agreement /\ ChainConsistent /\ ExclusiveOnce /\ SequentialEquivalence)
Reject == /\ t <= Len(Traces) /\ l <= Len(Traces[t].events)
          /\ (Broken \/ ~ENABLED Match)
          /\ ResetVars /\ t' = t + 1 /\ l' = 1 /\ bad' = Append(bad, t) /\ UNCHANGED fin
RejectEnd == /\ t <= Len(Traces) /\ l = Len(Traces[t].events) + 1 /\ Broken
             /\ ResetVars /\ t' = t + 1 /\ l' = 1 /\ bad' = Append(bad, t) /\ UNCHANGED fin
TFinish == /\ t = Len(Traces) + 1 /\ ~fin /\ fin' = TRUE /\ WriteVerdict(bad)
          /\ UNCHANGED <<vars, t, l, bad>>

TInit == Init /\ t = 1 /\ l = 1 /\ bad = <<>> /\ fin = FALSE
TNext == (~Broken /\ Match) \/ (~Broken /\ Accept) \/ Reject \/ RejectEnd \/ TFinish
TSpec == TInit /\ [][TNext]_tvars
=============================================================================
