----------------------------- MODULE ZlibPoolRef -----------------------------
(* What a user of Flate streams may rely on, whatever the library keeps in   *)
(* package-level pools: every stream delivers (decoding) or produces         *)
(* (encoding) exactly its own bytes, Close may be called twice, and nothing  *)
(* a stream's owner does to his stream shows in another stream.  Written     *)
(* without knowledge of the pools; used by ZlibPool (design model) and       *)
(* Trace_ZlibPool (judging the real code).                                   *)
EXTENDS Integers, Sequences

\* One run = a sequence of events [s, op, res] over streams 1..n, each stream
\* being used in the order  open, (io)*, close, close? :
\*   open   res = "ok" | "err"
\*   io     one Read (decoding) or Write (encoding) of the next chunk;
\*          res = "own"  the bytes delivered are the stream's own next bytes /
\*                       the chunk was accepted
\*                "eof"  (decoding) end of data, nothing delivered
\*                "other" anything else was delivered, "err" an error
\*   close  res = "ok" | "err"
\* and, at the end, final[s] = "own" iff everything stream s delivered in
\* total / the sink of s received decodes to exactly s's bytes (nothing
\* missing unless the run stopped reading, nothing added).
RefEventOK(e, nclosed) ==
  CASE e.op = "open" -> e.res = "ok"
    [] e.op = "io" -> e.res \in {"own", "eof"}
    \* the first Close succeeds; a second one may succeed or fail, but see final
    [] e.op = "close" -> nclosed >= 1 \/ e.res = "ok"
    [] OTHER -> FALSE
RECURSIVE ClosedBefore(_, _, _)
ClosedBefore(evs, j, s) == \* number of close events of s among evs[1..j-1]
  IF j <= 1 THEN 0
  ELSE ClosedBefore(evs, j - 1, s) + (IF evs[j - 1].s = s /\ evs[j - 1].op = "close" THEN 1 ELSE 0)
RefRunOK(evs, final) ==
  /\ \A j \in 1..Len(evs) : RefEventOK(evs[j], ClosedBefore(evs, j, evs[j].s))
  /\ \A s \in 1..Len(final) : final[s] = "own"
=============================================================================
