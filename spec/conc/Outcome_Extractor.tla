------------------------- MODULE Outcome_Extractor -------------------------
(* Judges the outcome of a free-running (unscheduled) goroutine mix on one  *)
(* real Reader / Extractor.  The interleaving is not recorded; what is      *)
(* judged are the state properties of Extractor.tla that every reachable    *)
(* state and every completed call must satisfy, on the observed values:     *)
(*   Agreement              all ok decodes of one (ref, type) returned the  *)
(*                          identical Go value (ids name identities)        *)
(*   SequentialEquivalence  each call's outcome class, and for Get /        *)
(*                          DecodeStream the returned data, equal what the  *)
(*                          call returns alone on a fresh Reader            *)
(*   ChainConsistent        references of one chain are cached with one     *)
(*                          value                                           *)
(*   ExclusiveOnce          a key only reached through DecodeExclusive ran  *)
(*                          its decoder at most once                        *)
(*   package-level state    an independent Writer/Reader pair working at    *)
(*                          the same time read back its own data            *)
(*   SharedFieldTree        pages with the widgets of one interactive form, *)
(*                          decoded by several goroutines through one       *)
(*                          Extractor: every decode of a page returned the  *)
(*                          identical page value, every widget is linked to *)
(*                          the field the form's field tree holds, and      *)
(*                          occurs once among that field's widgets          *)
EXTENDS TraceLib, FiniteSets

Cases == Records

DecodeLike(r) == r.op \in {"Decode", "DecodeExclusive"}
IsCMap(r) == r.op \in {"Predefined", "PredefinedFresh"}
TypeOf(r) == IF r.op = "Predefined" THEN "cmap" ELSE IF r.op = "PredefinedFresh" THEN "cmapfresh" ELSE "node"
Agreement(c) ==
  \A i, j \in 1..Len(c.results) :
     LET a == c.results[i] b == c.results[j] IN
     (a.ok /\ b.ok /\ a.id # 0 /\ b.id # 0 /\ a.ref = b.ref /\ TypeOf(a) = TypeOf(b)
        /\ (DecodeLike(a) \/ a.op = "Pair" \/ IsCMap(a))
        /\ (DecodeLike(b) \/ b.op = "Pair" \/ IsCMap(b))
        /\ IsCMap(a) = IsCMap(b))
       => a.id = b.id
SeqEquivalent(c) ==
  \A i \in 1..Len(c.results) :
     LET a == c.results[i] IN a.ok = a.solook /\ a.dig = a.solodig
\* every ok decode of a key returned what is cached for it
CacheAgrees(c) ==
  \A i \in 1..Len(c.results) : \A k \in 1..Len(c.cache) :
     LET a == c.results[i] e == c.cache[k] IN
     (a.ok /\ DecodeLike(a) /\ e.ref = a.ref /\ e.tp = "*main.node") => e.id = a.id
ChainConsistent(c) ==
  \A n \in 1..Len(c.chains) : \A i, j \in 1..Len(c.cache) :
     (c.cache[i].ref = c.chains[n][1] /\ c.cache[j].ref = c.chains[n][2] /\ c.cache[i].tp = c.cache[j].tp)
        => c.cache[i].id = c.cache[j].id
ExclusiveOnce(c) == \A i \in 1..Len(c.runs) : c.runs[i].runs <= 1
SharedFieldTree(c) ==
  /\ \A i \in 1..Len(c.links) : LET l == c.links[i] IN
        l.pageid # 0 /\ l.widget # 0 /\ l.field # 0 /\ l.field = l.tree /\ l.count = 1
  /\ \A i, j \in 1..Len(c.links) : (c.links[i].widget = c.links[j].widget) => c.links[i].field = c.links[j].field
  /\ \A i, j \in 1..Len(c.links) : (c.links[i].page = c.links[j].page /\ c.links[i].tree = c.links[j].tree) => c.links[i].widget = c.links[j].widget
CaseOK(c) == Agreement(c) /\ SeqEquivalent(c) /\ CacheAgrees(c) /\ ChainConsistent(c) /\ ExclusiveOnce(c) /\ c.writerok /\ SharedFieldTree(c)

VARIABLES i, bad, done
vars == <<i, bad, done>>
Init == i = 1 /\ bad = <<>> /\ done = FALSE
Step == /\ i <= Len(Cases) /\ i' = i + 1
        /\ bad' = IF CaseOK(Cases[i]) THEN bad ELSE Append(bad, i)
        /\ UNCHANGED done
Finish == /\ i = Len(Cases) + 1 /\ ~done /\ done' = TRUE /\ WriteVerdict(bad) /\ UNCHANGED <<i, bad>>
Next == Step \/ Finish
Spec == Init /\ [][Next]_vars
=============================================================================
