INIT Init
NEXT Next
CONSTANTS Shapes <- QuickShapes
CHECK_DEADLOCK FALSE
