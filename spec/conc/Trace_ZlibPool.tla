--------------------------- MODULE Trace_ZlibPool ---------------------------
(* Judges runs of the real Flate stream API (pdf.DecodeStream,              *)
(* Cursor.StreamReader, Filter.Decode / Filter.Encode used directly,        *)
(* Writer.OpenStream) against ZlibPoolRef.  One record = one replayed       *)
(* behaviour: [events: <<[s, op, res]>>, final: <<"own" | ...>>].  Only the  *)
(* reference predicate is used; the pool itself cannot be observed.         *)
EXTENDS ZlibPoolRef, TraceLib
Cases == Records
VARIABLES i, bad, done
tvars == <<i, bad, done>>
TInit == i = 1 /\ bad = <<>> /\ done = FALSE
Step == /\ i <= Len(Cases)
        /\ i' = i + 1
        /\ bad' = IF RefRunOK(Cases[i].events, Cases[i].final) THEN bad ELSE Append(bad, i)
        /\ UNCHANGED done
Finish == /\ i = Len(Cases) + 1 /\ ~done
          /\ done' = TRUE
          /\ WriteVerdict(bad)
          /\ UNCHANGED <<i, bad>>
TNext == Step \/ Finish
TSpec == TInit /\ [][TNext]_tvars
=============================================================================
