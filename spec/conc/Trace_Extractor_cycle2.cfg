SPECIFICATION TSpec
CONSTANTS
  Procs = {"p1", "p2"}
  NCalls = 2
  FIXED = TRUE
  GRAPH = "cycle"
  Refs <- MCRefs
  Target <- MCTarget
  Children <- MCChildren
  Fails <- MCFails
  Calls <- MCCalls
CHECK_DEADLOCK FALSE
