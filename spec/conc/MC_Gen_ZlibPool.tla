--------------------------- MODULE MC_Gen_ZlibPool ---------------------------
EXTENDS Gen_ZlibPool
Sh(k, c) == [io |-> k, closes |-> c]
\* quick: two streams in all combinations of {read once, read twice} x {close once, twice};
\* three streams: one is closed twice without being read, two are read and closed
QuickShapes == {<<Sh(a, c), Sh(b, d)>> : a \in {0, 1}, b \in {1, 2}, c \in {1, 2}, d \in {1, 2}}
               \cup {<<Sh(0, 2), Sh(1, 1), Sh(1, 1)>>}
ThoroughShapes == QuickShapes \cup {<<Sh(0, 2), Sh(0, 1), Sh(1, 2)>>, <<Sh(0, 2), Sh(0, 2), Sh(2, 1)>>, <<Sh(1, 1), Sh(0, 2), Sh(2, 1)>>}
=============================================================================
