----------------------------- MODULE CopierRef -----------------------------
(* Reference semantics of property C11: what it MEANS that a target file    *)
(* holds a copy of the part of a source file reachable from some roots.     *)
(* Nothing here knows how copier.go works; Copier.tla (the machine shaped   *)
(* like the code) and Trace_Copier.tla (the judge of real executions) both  *)
(* use these operators, and only these decide acceptance.                   *)
(*                                                                          *)
(* Values (ISO 32000-2, 7.3), as records with a tag t:                      *)
(*   [t |-> "s", a |-> atom]            scalar; atom = canonical text       *)
(*   [t |-> "z"]                        null                                *)
(*   [t |-> "r", n |-> number]          indirect reference                  *)
(*   [t |-> "a", e |-> <<values>>]      array                               *)
(*   [t |-> "d", k |-> <<keys>>, e |-> <<values>>]   dictionary, keys sorted*)
(*   [t |-> "st", k, e, body |-> id, p] stream, only as the value of an     *)
(*        indirect object: dictionary entries other than /Length, /Filter,  *)
(*        /DecodeParms, the identity of the DECODED bytes, and p = the      *)
(*        references reachable through /DecodeParms (e.g. /JBIG2Globals):   *)
(*        the parameters with the top level and array elements resolved     *)
(*        and everything that holds no reference replaced by null -- how    *)
(*        the parameters are spelled is not compared, which objects they    *)
(*        refer to is                                                       *)
(* A source file is a function G from object numbers to                     *)
(*   [k |-> "val", v |-> value] | [k |-> "ref", to |-> number] (7.3.10: an  *)
(*   indirect object whose value is a reference) | [k |-> "free"] |         *)
(*   [k |-> "dangling"]; numbers outside DOMAIN G are dangling.             *)
(* A target file is a function D from object numbers to values.             *)
EXTENDS Naturals, Sequences, FiniteSets

CONSTANT MaxChain   \* the longest chain of references a reader of the source resolves
                    \* (limits.MaxExtractDepth = 256 in go-pdf); a longer chain is null to it

Sc(a) == [t |-> "s", a |-> a]
Nul == [t |-> "z"]
Rf(n) == [t |-> "r", n |-> n]
Ar(e) == [t |-> "a", e |-> e]
Di(k, e) == [t |-> "d", k |-> k, e |-> e]

Kind(G, n) == IF n \in DOMAIN G THEN G[n].k ELSE "dangling"

(* 7.3.10: a reference to an undefined object is the null object; a chain  *)
(* of references r1 -> r2 -> ... -> value denotes the object it ends in.    *)
(* Canon = the number of that object, 0 for the null object (free,          *)
(* dangling, `n 0 obj null endobj`, or a chain that loops).  Null objects   *)
(* have no identity: nothing is demanded about how many there are.  The     *)
(* value of a reference is what the reader of the source file makes of it:  *)
(* following more than MaxChain references (the first one included) is      *)
(* given up, the reference is null.                                         *)
RECURSIVE CanonFrom(_, _, _)
CanonFrom(G, n, seen) ==
  IF n \in seen THEN 0
  ELSE LET k == Kind(G, n) IN
       IF k = "ref" THEN (IF Cardinality(seen) + 1 >= MaxChain THEN 0
                          ELSE CanonFrom(G, G[n].to, seen \cup {n}))
       ELSE IF k = "val" /\ G[n].v.t # "z" THEN n ELSE 0
Canon(G, n) == CanonFrom(G, n, {})

(* Over-long chains make "the object a reference denotes" depend on where   *)
(* the chain is entered: r1 -> r2 -> ... (MaxChain + 1 references) is null  *)
(* from r1 but an object from r2.  The property identifies the references   *)
(* of a chain; it says nothing for a source in which both such an r1 and a  *)
(* later reference of its chain, or the object at its end, are used (the    *)
(* copier at hand gives null or the object depending on the order of the    *)
(* calls).  Such sources are not judged.                                    *)
RECURSIVE LongFrom(_, _, _)
LongFrom(G, n, seen) ==
  IF n \in seen THEN FALSE
  ELSE IF Kind(G, n) = "ref" THEN (IF Cardinality(seen) + 1 >= MaxChain THEN TRUE
                                   ELSE LongFrom(G, G[n].to, seen \cup {n}))
  ELSE FALSE
RECURSIVE ChainFrom(_, _, _)
ChainFrom(G, n, seen) ==
  IF n \in seen \/ Kind(G, n) # "ref" THEN seen \cup {n} ELSE ChainFrom(G, G[n].to, seen \cup {n})

(* the same on the target side: an object of the target may itself be a    *)
(* reference (nothing in the property forbids it)                           *)
RECURSIVE DCanonFrom(_, _, _)
DCanonFrom(D, n, seen) ==
  IF n \in seen \/ n \notin DOMAIN D THEN 0
  ELSE IF D[n].t = "r" THEN DCanonFrom(D, D[n].n, seen \cup {n})
  ELSE IF D[n].t = "z" THEN 0 ELSE n
DCanon(D, n) == DCanonFrom(D, n, {})

(* 7.3.7: a dictionary entry whose value is null is equivalent to an        *)
(* absent entry                                                             *)
KeyIdx(v) == {i \in 1..Len(v.k) : v.e[i].t # "z"}
Keys(v) == {v.k[i] : i \in KeyIdx(v)}
Entry(v, key) == v.e[CHOOSE i \in 1..Len(v.k) : v.k[i] = key]

Fail == [ok |-> FALSE, pairs |-> {}]

(* Match(G, D, s, d): the target value d is the image of the source value s.*)
(* Scalars are equal, arrays have the same length and matching elements,    *)
(* dictionaries the same keys and matching entries, null is null, EMPTY     *)
(* containers stay empty containers, a reference stays a reference; pairs = *)
(* the <<source object, target object>> correspondences this requires.      *)
RECURSIVE Match(_, _, _, _)
MatchEntries(G, D, s, d) ==
  IF Keys(s) # Keys(d) THEN Fail
  ELSE LET ks == Keys(s)
           rs == [key \in ks |-> Match(G, D, Entry(s, key), Entry(d, key))]
       IN [ok |-> \A key \in ks : rs[key].ok, pairs |-> UNION {rs[key].pairs : key \in ks}]
Match(G, D, s, d) ==
  CASE s.t = "s" -> [ok |-> d.t = "s" /\ d.a = s.a, pairs |-> {}]
    [] s.t = "z" -> [ok |-> d.t = "z", pairs |-> {}]
    [] s.t = "r" ->
         IF d.t # "r" THEN Fail
         ELSE LET c == Canon(G, s.n) IN
              IF c = 0 THEN [ok |-> DCanon(D, d.n) = 0, pairs |-> {}]
              ELSE LET dc == DCanon(D, d.n) IN
                   IF dc = 0 THEN [ok |-> TRUE, pairs |-> {<<c, d.n>>}]   \* rejected when expanded
                   ELSE [ok |-> TRUE, pairs |-> {<<c, dc>>}]
    [] s.t = "a" ->
         IF d.t # "a" THEN Fail
         ELSE IF Len(d.e) # Len(s.e) THEN Fail
         ELSE LET rs == [i \in 1..Len(s.e) |-> Match(G, D, s.e[i], d.e[i])]
              IN [ok |-> \A i \in 1..Len(s.e) : rs[i].ok,
                  pairs |-> UNION {rs[i].pairs : i \in 1..Len(s.e)}]
    [] s.t = "d" -> IF d.t # "d" THEN Fail ELSE MatchEntries(G, D, s, d)
    [] s.t = "st" -> IF d.t # "st" THEN Fail
                     ELSE IF d.body # s.body THEN Fail
                     ELSE LET a == MatchEntries(G, D, s, d)
                              b == Match(G, D, s.p, d.p)
                          IN [ok |-> a.ok /\ b.ok, pairs |-> a.pairs \cup b.pairs]
    [] OTHER -> Fail

(* Closure of the correspondence under Match.  ext = pairs fixed by the     *)
(* caller with Redirect: their content is the caller's business.            *)
RECURSIVE Close(_, _, _, _, _)
Close(G, D, ext, M, todo) ==
  IF todo = {} THEN [ok |-> TRUE, m |-> M]
  ELSE LET p == CHOOSE q \in todo : TRUE IN
       IF p \in ext THEN Close(G, D, ext, M \cup {p}, todo \ {p})
       ELSE IF p[2] \notin DOMAIN D THEN [ok |-> FALSE, m |-> M \cup {p}]
       ELSE LET r == Match(G, D, G[p[1]].v, D[p[2]]) IN
            IF ~r.ok THEN [ok |-> FALSE, m |-> M \cup {p}]
            ELSE Close(G, D, ext, M \cup {p}, (todo \cup r.pairs) \ (M \cup {p}))

(* roots: sequence of [s |-> source value, d |-> target value]              *)
Correspondence(G, D, roots, ext) ==
  LET rs == [i \in 1..Len(roots) |-> Match(G, D, roots[i].s, roots[i].d)]
  IN IF \E i \in 1..Len(roots) : ~rs[i].ok THEN [ok |-> FALSE, m |-> {}]
     ELSE Close(G, D, ext, {}, UNION {rs[i].pairs : i \in 1..Len(roots)})

(* every source object has ONE image: an object reached by several paths,   *)
(* through chains or through cycles is copied once and stays shared         *)
Functional(m) == \A p \in m, q \in m : p[1] = q[1] => p[2] = q[2]
(* distinct source objects stay distinct                                    *)
Injective(m) == \A p \in m, q \in m : p[2] = q[2] => p[1] = q[1]
(* a redirected object is represented by the caller's object only          *)
Respects(m, ext) == \A p \in m : (\E q \in ext : q[1] = p[1]) => p \in ext

ShapeOK(G, D, roots, ext) == Correspondence(G, D, roots, ext).ok
SharingOK(G, D, roots, ext) == Functional(Correspondence(G, D, roots, ext).m)
Iso(G, D, roots, ext) ==
  LET c == Correspondence(G, D, roots, ext) IN
  /\ c.ok
  /\ Functional(c.m)
  /\ Injective(c.m \ ext)
  /\ Respects(c.m, ext)

(* "Copying the same reference again returns the same target reference":    *)
(* events = sequence of [op, n, d]; op "ref" is CopyReference(n) = d        *)
RepeatSame(events) ==
  \A i \in 1..Len(events), j \in 1..Len(events) :
     (events[i].op = "ref" /\ events[j].op = "ref" /\ events[i].n = events[j].n)
       => events[i].d = events[j].d

(* does copying the roots meet a stream the library documents as not yet    *)
(* supported (source encrypted, explicit /Crypt filter other than Identity)?*)
RECURSIVE Refs(_)
Refs(v) == CASE v.t = "r" -> {v.n}
             [] v.t \in {"a", "d"} -> UNION {Refs(v.e[i]) : i \in 1..Len(v.e)}
             [] v.t = "st" -> UNION {Refs(v.e[i]) : i \in 1..Len(v.e)} \cup Refs(v.p)
             [] OTHER -> {}
RECURSIVE ReachFrom(_, _, _)
ReachFrom(G, seen, todo) ==
  IF todo = {} THEN seen
  ELSE LET n == CHOOSE x \in todo : TRUE
           nx == IF Kind(G, n) = "ref" THEN {G[n].to}
                 ELSE IF Kind(G, n) = "val" THEN Refs(G[n].v) ELSE {}
       IN ReachFrom(G, seen \cup {n}, (todo \cup nx) \ (seen \cup {n}))
Reach(G, vals) == ReachFrom(G, {}, UNION {Refs(v) : v \in vals})
(* the references that are written somewhere (not merely links of a chain) *)
Explicit(G, vals) == UNION {Refs(v) : v \in vals}
                     \cup UNION {Refs(G[n].v) : n \in {m \in Reach(G, vals) : Kind(G, m) = "val"}}
Ambiguous(G, vals) ==
  LET E == Explicit(G, vals) IN
  \E h \in E : LongFrom(G, h, {}) /\ \E j \in E \ {h} : j \in ChainFrom(G, h, {})
=============================================================================
