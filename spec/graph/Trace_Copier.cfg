SPECIFICATION Spec
CONSTANT MaxChain = 256
CHECK_DEADLOCK FALSE
