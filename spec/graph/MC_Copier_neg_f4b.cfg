\* generated by mkcfg.sh
SPECIFICATION Spec
CONSTANTS
  Aux <- MCAux
  NodeKinds <- MCNodeKinds
  CallSet <- MCCallSet
  Twin <- MCTwin
  N = 2
  MaxCalls = 1
  SrcEnc = "none"
  DstEnc = "none"
  EmptyArrayNil = FALSE
  NilEntryPanics = TRUE
  KeyByAsked = FALSE
  RecordAfter = FALSE
  DropParms = FALSE
  VerbatimAlways = FALSE
  StepBound = 400
  ScalarAtoms = {"i:7"}
  MaxSlots = 1
  WithDict = TRUE
  WithNest = FALSE
  Nest2 = FALSE
  WithStream = FALSE
  StreamLayouts = {"none"}
  WithDangling = FALSE
  WithNullObj = FALSE
  WithScalarObj = TRUE
  CallOps = {"ref"}
  WithTwin = FALSE
  CFIndirect = FALSE
  PlainIdentity = FALSE
  KeyByNumber = FALSE
  CryptProbeDirectOnly = FALSE
  ParmRefLayouts = {}
  InlinedAsIs = FALSE
  MaxChain = 10
  BoundBeforeRead = FALSE
  TargetOpen = FALSE
  SharedBuffer = FALSE
  Bodies = {"b1"}
INVARIANTS NoPanic
