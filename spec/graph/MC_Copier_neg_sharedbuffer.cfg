\* generated by mkcfg.sh
SPECIFICATION Spec
CONSTANTS
  Aux <- MCAux
  NodeKinds <- MCNodeKinds
  CallSet <- MCCallSet
  Twin <- MCTwin
  N = 2
  MaxCalls = 2
  SrcEnc = "aes"
  DstEnc = "none"
  EmptyArrayNil = FALSE
  NilEntryPanics = FALSE
  KeyByAsked = FALSE
  RecordAfter = FALSE
  DropParms = FALSE
  VerbatimAlways = FALSE
  StepBound = 400
  ScalarAtoms = {"i:7"}
  MaxSlots = 1
  WithDict = FALSE
  WithNest = FALSE
  Nest2 = FALSE
  WithStream = TRUE
  StreamLayouts = {"none"}
  WithDangling = FALSE
  WithNullObj = FALSE
  WithScalarObj = TRUE
  CallOps = {"obj"}
  WithTwin = FALSE
  CFIndirect = FALSE
  PlainIdentity = FALSE
  KeyByNumber = FALSE
  CryptProbeDirectOnly = FALSE
  ParmRefLayouts = {}
  InlinedAsIs = FALSE
  MaxChain = 10
  BoundBeforeRead = FALSE
  TargetOpen = FALSE
  SharedBuffer = TRUE
  Bodies = {"b1","b2"}
INVARIANTS Shape
