\* generated by mkcfg.sh
SPECIFICATION Spec
CONSTANTS
  Aux <- MCAux
  NodeKinds <- MCNodeKinds
  CallSet <- MCCallSet
  Twin <- MCTwin
  N = 2
  MaxCalls = 2
  SrcEnc = "none"
  DstEnc = "none"
  EmptyArrayNil = FALSE
  NilEntryPanics = FALSE
  KeyByAsked = FALSE
  RecordAfter = FALSE
  DropParms = FALSE
  VerbatimAlways = FALSE
  StepBound = 400
  ScalarAtoms = {"i:7"}
  MaxSlots = 1
  WithDict = FALSE
  WithNest = FALSE
  Nest2 = FALSE
  WithStream = FALSE
  StreamLayouts = {"none"}
  WithDangling = FALSE
  WithNullObj = FALSE
  WithScalarObj = TRUE
  CallOps = {"ref","copyref","arr1","arr2","obj","redirect"}
  WithTwin = FALSE
  CFIndirect = FALSE
  PlainIdentity = FALSE
  KeyByNumber = FALSE
  CryptProbeDirectOnly = FALSE
  ParmRefLayouts = {}
  InlinedAsIs = FALSE
  MaxChain = 10
  BoundBeforeRead = FALSE
  TargetOpen = FALSE
  SharedBuffer = FALSE
  Bodies = {"b1"}
INVARIANTS Once Repeat Terminates NoPanic ErrorsOnlyUnsupported Shape Sharing IsoInv
