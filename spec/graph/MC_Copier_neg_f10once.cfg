\* generated by mkcfg.sh
SPECIFICATION Spec
CONSTANTS
  Aux <- MCAux
  NodeKinds <- MCNodeKinds
  CallSet <- MCCallSet
  Twin <- MCTwin
  N = 2
  MaxCalls = 1
  SrcEnc = "none"
  DstEnc = "none"
  EmptyArrayNil = FALSE
  NilEntryPanics = FALSE
  KeyByAsked = TRUE
  RecordAfter = FALSE
  DropParms = FALSE
  VerbatimAlways = FALSE
  StepBound = 400
  ScalarAtoms = {"i:7"}
  MaxSlots = 0
  WithDict = FALSE
  WithNest = FALSE
  Nest2 = FALSE
  WithStream = FALSE
  StreamLayouts = {"none"}
  WithDangling = FALSE
  WithNullObj = FALSE
  WithScalarObj = TRUE
  CallOps = {"arr2"}
  WithTwin = FALSE
  CFIndirect = FALSE
  PlainIdentity = FALSE
  KeyByNumber = FALSE
  CryptProbeDirectOnly = FALSE
  ParmRefLayouts = {}
  InlinedAsIs = FALSE
  MaxChain = 10
  BoundBeforeRead = FALSE
  TargetOpen = FALSE
  SharedBuffer = FALSE
  Bodies = {"b1"}
INVARIANTS Once
