---------------------------- MODULE Trace_Copier ----------------------------
(* Judges executions of the real pdf.Copier against CopierRef (P-B).  One   *)
(* record = one run of a call sequence on a real source file:               *)
(*   srcenc, dstenc     encryption of source and target                     *)
(*   src      [n, k, to, v]  the source file as the independent strict      *)
(*            parser reads it (object number, kind, value)                  *)
(*   events   [op, n, d]  the top-level calls in order: op = "ref" is       *)
(*            CopyReference(n) = d, "redirect" is Redirect(n, d), "val" /   *)
(*            "obj" are Copy(direct value) (n = 0 for "val")                *)
(*   ext      <<n, d>> pairs fixed with Redirect                            *)
(*   outcome  "ok" | "panic" | "error"                                      *)
(*   views    the closed target file reopened by the independent strict     *)
(*            parser and by go-pdf's own Reader: roots [s, d] (argument and *)
(*            result of every Copy/CopyReference call, the result as read   *)
(*            back from the file), dst [n, v] the target objects reachable  *)
(*            from the results, dup = target numbers defined twice          *)
(* Target object numbers are never compared with anything but each other.   *)
(* Only CopierRef operators are used.                                       *)
EXTENDS CopierRef, TraceLib

Cases == Records

SrcGraph(c) ==
  LET nums == {c.src[i].n : i \in 1..Len(c.src)}
      at(n) == c.src[CHOOSE i \in 1..Len(c.src) : c.src[i].n = n]
  IN [n \in nums |-> at(n)]
DstFile(view) ==
  LET nums == {view.dst[i].n : i \in 1..Len(view.dst)}
      at(n) == view.dst[CHOOSE i \in 1..Len(view.dst) : view.dst[i].n = n]
  IN [n \in nums |-> at(n).v]
Ext(c) == {<<c.ext[i][1], c.ext[i][2]>> : i \in 1..Len(c.ext)}

(* the documented gap: a source stream with an explicit /Crypt filter other *)
(* than /Identity in an encrypted file may be refused with an error         *)
Unsupported(c) ==
  /\ c.srcenc # "none"
  /\ LET G == SrcGraph(c)
         vals == {c.rootvals[i] : i \in 1..Len(c.rootvals)}
         named(v) == v.t = "st" /\ v.cf = "named"
     IN \/ \E v \in vals : named(v)
        \/ \E n \in Reach(G, vals) : Kind(G, n) = "val" /\ named(G[n].v)

RootVals(c) == {c.rootvals[i] : i \in 1..Len(c.rootvals)}
ViewOK(c, view) ==
  /\ view.dup = <<>>
  /\ Iso(SrcGraph(c), DstFile(view), view.roots, Ext(c))

CaseOK(c) ==
  CASE c.outcome = "ok" -> \/ Ambiguous(SrcGraph(c), RootVals(c))      \* outside the property, see CopierRef
                           \/ /\ RepeatSame(c.events)
                              /\ \A i \in 1..Len(c.views) : ViewOK(c, c.views[i])
    [] c.outcome = "error" -> Unsupported(c)
    [] OTHER -> FALSE          \* a panic is never acceptable

VARIABLES i, bad, done
vars == <<i, bad, done>>
Init == i = 1 /\ bad = <<>> /\ done = FALSE
Step == /\ i <= Len(Cases)
        /\ i' = i + 1
        /\ bad' = IF CaseOK(Cases[i]) THEN bad ELSE Append(bad, i)
        /\ UNCHANGED done
Finish == /\ i = Len(Cases) + 1 /\ ~done
          /\ done' = TRUE
          /\ WriteVerdict(bad)
          /\ UNCHANGED <<i, bad>>
Next == Step \/ Finish
Spec == Init /\ [][Next]_vars
=============================================================================
