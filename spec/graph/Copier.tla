------------------------------- MODULE Copier -------------------------------
(* pdf.Copier (copier.go) as an explicit stack machine over small source    *)
(* files, with the property C11 stated through CopierRef.                   *)
(*                                                                          *)
(* One action per code path of copier.go:                                   *)
(*   Call...          the caller: Copy(obj), CopyReference(ref), Redirect   *)
(*   CopyRefHit       CopyReference: trans lookup succeeds                  *)
(*   CopyRefEnter     CopyReference: Alloc, trans recorded BEFORE recursing *)
(*   Reveal           (model only) the source object is looked at for the   *)
(*                    first time: its value is chosen here, so the graphs   *)
(*                    are enumerated lazily and only reachable parts exist  *)
(*   ResolveHop/End   pdf.Resolve following a chain of references; loops,   *)
(*                    free and undefined objects give null                  *)
(*   CopyElem...      CopyArray / CopyDict (SortedKeys order) element-wise  *)
(*   CopyArrayDone, CopyDictDone                                            *)
(*   Stream...        Copy(stream): copyStreamDict = CopyDict, then        *)
(*                    /Filter and /DecodeParms inlined (inlineFilterRefs),  *)
(*                    then streamCryptRecipe                                *)
(*   PutDst           Writer.Put(newRef, copy)                              *)
(* The switches EmptyArrayNil, NilEntryPanics, KeyByAsked select between    *)
(* the copier AS CODED at the pinned commit (all TRUE) and the copier the   *)
(* property demands (all FALSE); RecordAfter, DropParms, VerbatimAlways are *)
(* mutations used as negative controls.                                     *)
(*                                                                          *)
(* Source stream values carry, besides k/e (all dictionary entries,         *)
(* /Filter and /DecodeParms included, as ordinary slots) the identity of    *)
(* the decoded bytes `body` and cf \in {"default", "identity", "named"}:    *)
(* no leading /Crypt filter, /Crypt /Identity, /Crypt with a named filter;  *)
(* cfi = the /Crypt name and its parameters are written as INDIRECT first   *)
(* elements of the /Filter and /DecodeParms arrays.                         *)
(*                                                                          *)
(* Excluded (stated, and excluded by the generators): Redirect after a      *)
(* copy, Redirect of an object that a reference chain passes through (the   *)
(* property does not say whether the chain is redirected too), calls after  *)
(* a call returned an error.                                                *)
EXTENDS CopierRef, TLC

CONSTANTS
  N,             \* enumerated source objects are 1..N
  Aux,           \* fixed source objects with numbers > N (function number -> node record)
  NodeKinds,     \* node records Reveal chooses from
  CallSet,       \* top-level calls
  MaxCalls,
  SrcEnc, DstEnc,        \* "none" | "rc4" | "aes".  Only "SrcEnc = none or not" matters to the copier
                         \* (streamCryptRecipe); the Writer and a reader of the target apply the same
                         \* cipher, so DstEnc is a dimension of the harness's matrix only
  EmptyArrayNil,         \* F4 : CopyArray returns a nil Array for []
  NilEntryPanics,        \* F4b: CopyDict dereferences a nil entry
  KeyByAsked,            \* F10: trans keyed by the reference asked for only
  RecordAfter,           \* mutation: trans recorded after recursing
  DropParms,             \* mutation: the copied stream loses /DecodeParms
  TargetOpen,            \* the caller has a stream open on the target Writer while it copies: Writer.Put
                         \* queues the objects and writes them when that stream is closed (at the end)
  SharedBuffer,          \* mutation: decrypted stream data live in one buffer of the copier, reused for the next stream
  BoundBeforeRead,       \* mutation: the chain-length bound is tested before the last reference is read
  InlinedAsIs,           \* mutation: an indirect or array /Filter, /DecodeParms is stored as inlineFilterRefs
                         \* returns it, references nested in parameter dictionaries are not translated
  VerbatimAlways,        \* mutation: stream bytes reused whatever the encryption
  Twin,                  \* function 1..N -> 1..N: Twin[n] # n says that n is a reference with the object
                         \* NUMBER of Twin[n] but another generation (a stale reference to a freed and
                         \* reused number, or a generation that never existed): it denotes null (7.3.10)
  KeyByNumber,           \* mutation: trans keyed by the object number, the generation ignored
  CryptProbeDirectOnly,  \* mutation: the probe for a leading /Crypt does not resolve an indirect first element
  StepBound

Nodes == 1..N
Unrevealed == [k |-> "?"]
(* Copier.trans is keyed by the full reference (number and generation) *)
TK(n) == IF KeyByNumber /\ n \in DOMAIN Twin THEN Twin[n] ELSE n
IsTwin(n) == n \in DOMAIN Twin /\ Twin[n] # n

VARIABLES
  g,      \* the source file, revealed so far
  hi,     \* highest object number mentioned so far (symmetry: new numbers appear in order)
  stack,  \* call stack of the copier, top = last
  ret,    \* return register
  trans,  \* Copier.trans : source number -> target number
  ext,    \* pairs fixed by Redirect
  dst,    \* the target file: number -> value written
  next,   \* Writer.nextRef
  puts,   \* Writer.Put calls of the copier: [src |-> source object whose value is written (0: null), d |-> target number]
  log,    \* finished top-level calls with their results
  fail,   \* "" | "panic" | "unsupported"
  steps,
  phase,  \* "run" | "done"
  queue,  \* Writer.afterStream: objects put while a stream is open on the target, written when it is closed
  buf     \* (mutation SharedBuffer) the body held by the copier's one decryption buffer
vars == <<g, hi, stack, ret, trans, ext, dst, next, puts, log, fail, steps, phase, queue, buf>>

NoRet == [has |-> FALSE]
Ret(v) == [has |-> TRUE, v |-> v]
Top == stack[Len(stack)]
Below == SubSeq(stack, 1, Len(stack) - 1)
Running == phase = "run" /\ fail = ""
Tick == steps' = steps + 1

-----------------------------------------------------------------------------
(* helpers on values                                                        *)
RECURSIVE Flatten(_)
Flatten(ss) == IF ss = <<>> THEN <<>> ELSE Head(ss) \o Flatten(Tail(ss))
RECURSIVE Mentions(_)
Mentions(v) == CASE v.t = "r" -> <<v.n>>
                 [] v.t \in {"a", "d", "st"} -> Flatten([i \in 1..Len(v.e) |-> Mentions(v.e[i])])
                 [] OTHER -> <<>>
(* object numbers are interchangeable: a number not mentioned before is     *)
(* always the smallest unused one (N+1 = out of order)                      *)
RECURSIVE Adv(_, _)
Adv(ms, h) == IF ms = <<>> THEN h
              ELSE IF Head(ms) > N \/ Head(ms) <= h THEN Adv(Tail(ms), h)
              ELSE IF Head(ms) = h + 1 /\ h < N THEN Adv(Tail(ms), h + 1)
              ELSE N + 1
KindMentions(kd) == IF kd.k = "ref" THEN <<kd.to>> ELSE IF kd.k = "val" THEN Mentions(kd.v) ELSE <<>>

HasKey(v, key) == \E i \in 1..Len(v.k) : v.k[i] = key
WithoutKeys(v, ks) ==
  LET keep == SelectSeq([i \in 1..Len(v.k) |-> i], LAMBDA i : v.k[i] \notin ks)
  IN [k |-> [j \in 1..Len(keep) |-> v.k[keep[j]]], e |-> [j \in 1..Len(keep) |-> v.e[keep[j]]]]
SetKey(v, key, x) ==     \* CopyDict keeps the key set, so the key is always there
  [v EXCEPT !.e = [i \in 1..Len(v.k) |-> IF v.k[i] = key THEN x ELSE v.e[i]]]

(* pdf.Resolve on a value; inlineFilterRefs = top level and, for arrays,    *)
(* element level                                                            *)
ResolveVal(G, x) == IF x.t = "r" THEN (LET c == Canon(G, x.n) IN IF c = 0 THEN Nul ELSE G[c].v) ELSE x
Inline(G, x) == LET r == ResolveVal(G, x) IN
                IF r.t = "a" THEN Ar([i \in 1..Len(r.e) |-> ResolveVal(G, r.e[i])]) ELSE r
(* the filter chain a reader sees: /Filter and /DecodeParms with the top     *)
(* level and the array elements resolved (GetFilters); references nested    *)
(* deeper (e.g. /JBIG2Globals) are compared as references (ParmRefs below)  *)
RECURSIVE NoRefs(_)
NoRefs(x) == CASE x.t = "r" -> [t |-> "reference"]
               [] x.t = "a" -> Ar([i \in 1..Len(x.e) |-> NoRefs(x.e[i])])
               [] x.t = "d" -> Di(x.k, [i \in 1..Len(x.e) |-> NoRefs(x.e[i])])
               [] OTHER -> x
DeepSpec(G, v) == <<IF HasKey(v, "Filter") THEN NoRefs(Inline(G, Entry(v, "Filter"))) ELSE Nul,
                    IF HasKey(v, "DecodeParms") THEN NoRefs(Inline(G, Entry(v, "DecodeParms"))) ELSE Nul>>
AsGraph(D) == [n \in DOMAIN D |-> [k |-> "val", v |-> D[n]]]

(* container.go:streamCryptRecipe                                           *)
Recipe(v) == IF SrcEnc = "none" THEN "verbatim"          \* cryptNone
             ELSE IF v.cf = "default" THEN "decrypt"      \* cryptDefault
             ELSE IF CryptProbeDirectOnly /\ v.cfi THEN "decrypt"   \* (mutation) /Filter [n 0 R ...] not seen as /Crypt
             ELSE IF v.cf = "identity" THEN "verbatim"    \* cryptIdentity
             ELSE "unsupported"                           \* cryptUnsupportedCF

(* what a reader of the files sees (the vocabulary of CopierRef): decoded   *)
(* bytes are the source's iff the writer was handed plaintext and the       *)
(* target spells the same filter chain                                      *)
SpecKeys == {"Filter", "DecodeParms"}
(* the references reachable through /DecodeParms: everything else is null  *)
RECURSIVE RefSkeleton(_)
RefSkeleton(x) ==
  CASE x.t = "r" -> x
    [] x.t = "a" -> LET es == [i \in 1..Len(x.e) |-> RefSkeleton(x.e[i])] IN
                    IF \A i \in 1..Len(es) : es[i].t = "z" THEN Nul ELSE Ar(es)
    [] x.t = "d" -> LET es == [i \in 1..Len(x.e) |-> RefSkeleton(x.e[i])] IN
                    IF \A i \in 1..Len(es) : es[i].t = "z" THEN Nul ELSE Di(x.k, es)
    [] OTHER -> Nul
ParmRefs(G, v) == IF HasKey(v, "DecodeParms") THEN RefSkeleton(Inline(G, Entry(v, "DecodeParms"))) ELSE Nul
ObsSrcStream(v) == LET w == WithoutKeys(v, SpecKeys) IN
                   [t |-> "st", k |-> w.k, e |-> w.e, body |-> v.body, p |-> ParmRefs(g, v)]
ObsDstStream(D, v) ==
  LET w == WithoutKeys(v, SpecKeys) IN
  [t |-> "st", k |-> w.k, e |-> w.e, p |-> ParmRefs(AsGraph(D), v),
   body |-> IF v.raw.plain /\ DeepSpec(AsGraph(D), v) = v.raw.spec THEN v.raw.body ELSE "garbage"]
ObsG == [n \in DOMAIN g |-> IF g[n].k = "val" THEN
                               (IF g[n].v.t = "st" THEN [k |-> "val", v |-> ObsSrcStream(g[n].v)] ELSE g[n])
                            ELSE g[n]]
ObsD == [d \in DOMAIN dst |-> IF dst[d].t = "st" THEN ObsDstStream(dst, dst[d]) ELSE dst[d]]
ObsSrcVal(v) == IF v.t = "st" THEN ObsSrcStream(v) ELSE v
ObsDstVal(v) == IF v.t = "st" THEN ObsDstStream(dst, v) ELSE v
CopyCalls == SelectSeq(log, LAMBDA l : l.call.op # "redirect")
Roots == [i \in 1..Len(CopyCalls) |->
            LET l == CopyCalls[i] IN
            [s |-> CASE l.call.op = "ref" -> Rf(l.call.n)
                     [] l.call.op = "val" -> l.call.v
                     [] l.call.op = "obj" -> ObsSrcVal(g[l.call.n].v),
             d |-> ObsDstVal(l.res)]]
Events == [i \in 1..Len(log) |->
            [op |-> log[i].call.op,
             n |-> IF log[i].call.op = "val" THEN 0 ELSE log[i].call.n,
             d |-> IF log[i].res.t = "r" THEN log[i].res.n ELSE 0]]

-----------------------------------------------------------------------------
Init ==
  /\ g = [n \in Nodes |-> Unrevealed] @@ Aux
  /\ hi = 0
  /\ stack = <<>>
  /\ ret = NoRet
  /\ trans = <<>>
  /\ ext = {}
  /\ dst = <<>>
  /\ next = 1
  /\ puts = <<>>
  /\ log = <<>>
  /\ fail = ""
  /\ steps = 0
  /\ phase = "run"
  /\ queue = <<>> /\ buf = "none"

ArrFrame(es) == [f |-> "arr", todo |-> es, done |-> <<>>]
DictFrame(ks, es) == [f |-> "dict", k |-> ks, todo |-> es, done |-> <<>>]
(* frames pushed by Copy(v) for a composite v; Copy(stream) starts with    *)
(* copyStreamDict = CopyDict over ALL entries                               *)
FramesFor(v) ==
  CASE v.t = "a" -> <<ArrFrame(v.e)>>
    [] v.t = "d" -> <<DictFrame(v.k, v.e)>>
    [] v.t = "st" -> <<[f |-> "st", v |-> v, ph |-> "dict", res |-> Di(<<>>, <<>>)], DictFrame(v.k, v.e)>>
IsLeaf(v) == v.t \in {"s", "z"}
IsContainerFrame(fr) == fr.f \in {"arr", "dict", "top"}

(* ---- the caller ---- *)
CanCall == Running /\ stack = <<>> /\ Len(log) < MaxCalls
NoCopyYet == \A i \in 1..Len(log) : log[i].call.op = "redirect"
RedirSrc == {p[1] : p \in ext}

CallCopyReference(c) ==
  /\ CanCall /\ c.op = "ref"
  /\ Adv(<<c.n>>, hi) # N + 1 /\ hi' = Adv(<<c.n>>, hi)
  /\ stack' = <<[f |-> "top", call |-> c, todo |-> <<Rf(c.n)>>, done |-> <<>>]>>
  /\ Tick /\ UNCHANGED <<g, ret, trans, ext, dst, next, puts, log, fail, phase, queue, buf>>

CallCopy(c) ==      \* Copy(v), v a direct object built by the caller
  /\ CanCall /\ c.op = "val"
  /\ Adv(Mentions(c.v), hi) # N + 1 /\ hi' = Adv(Mentions(c.v), hi)
  /\ stack' = <<[f |-> "top", call |-> c, todo |-> <<c.v>>, done |-> <<>>]>>
  /\ Tick /\ UNCHANGED <<g, ret, trans, ext, dst, next, puts, log, fail, phase, queue, buf>>

CallCopyObj(c) ==   \* Copy(x) where x is the value of object n as the caller read it
  /\ CanCall /\ c.op = "obj" /\ c.n \notin RedirSrc /\ ~IsTwin(c.n)
  /\ Adv(<<c.n>>, hi) # N + 1
  /\ \E kd \in (IF g[c.n].k = "?" THEN {x \in NodeKinds : x.k = "val"} ELSE {g[c.n]}) :
       /\ kd.k = "val" /\ kd.v.t # "z"
       /\ LET h == Adv(KindMentions(kd), Adv(<<c.n>>, hi)) IN
          /\ (g[c.n].k = "?" => h # N + 1)
          /\ hi' = IF g[c.n].k = "?" THEN h ELSE Adv(<<c.n>>, hi)
       /\ g' = [g EXCEPT ![c.n] = kd]
       /\ stack' = <<[f |-> "top", call |-> c, todo |-> <<kd.v>>, done |-> <<>>]>>
  /\ Tick /\ UNCHANGED <<ret, trans, ext, dst, next, puts, log, fail, phase, queue, buf>>

CallRedirect(c) ==  \* Redirect(n, x) with x an object the caller has put into the target
  /\ CanCall /\ c.op = "redirect" /\ NoCopyYet
  /\ TK(c.n) \notin DOMAIN trans /\ g[c.n].k = "?" /\ ~IsTwin(c.n)
  /\ Adv(<<c.n>>, hi) # N + 1
  /\ \E kd \in {x \in NodeKinds : x.k = "val"} :
       /\ kd.v.t # "z"
       /\ Adv(KindMentions(kd), Adv(<<c.n>>, hi)) # N + 1
       /\ hi' = Adv(KindMentions(kd), Adv(<<c.n>>, hi))
       /\ g' = [g EXCEPT ![c.n] = kd]
  /\ dst' = (next :> Sc("n:Redirected")) @@ dst
  /\ trans' = (TK(c.n) :> next) @@ trans
  /\ ext' = ext \cup {<<c.n, next>>}
  /\ next' = next + 1
  /\ log' = Append(log, [call |-> c, res |-> Rf(next)])
  /\ Tick /\ UNCHANGED <<stack, ret, puts, fail, phase, queue, buf>>

CallReturn ==
  /\ Running /\ Len(stack) = 1 /\ Top.f = "top" /\ Top.todo = <<>> /\ ~ret.has
  /\ log' = Append(log, [call |-> Top.call, res |-> Top.done[1]])
  /\ stack' = <<>>
  /\ Tick /\ UNCHANGED <<g, hi, ret, trans, ext, dst, next, puts, fail, phase, queue, buf>>

(* ---- CopyArray / CopyDict / the dispatch in Copy ---- *)
ElemReady == Running /\ stack # <<>> /\ IsContainerFrame(Top) /\ ~ret.has /\ Top.todo # <<>>
Elem == Head(Top.todo)
Consume(x) == stack' = Below \o <<[Top EXCEPT !.todo = Tail(@), !.done = Append(@, x)]>>

CopyElemLeaf ==     \* scalars are returned as they are; a nil array element stays nil
  /\ ElemReady
  /\ Elem.t = "s" \/ (Elem.t = "z" /\ ~(Top.f = "dict" /\ NilEntryPanics))
  /\ Consume(Elem)
  /\ Tick /\ UNCHANGED <<g, hi, ret, trans, ext, dst, next, puts, log, fail, phase, queue, buf>>

CopyDictNilPanics ==   \* val.AsPDF on a nil interface
  /\ ElemReady /\ Top.f = "dict" /\ Elem.t = "z" /\ NilEntryPanics
  /\ fail' = "panic"
  /\ Tick /\ UNCHANGED <<g, hi, stack, ret, trans, ext, dst, next, puts, log, phase, queue, buf>>

CopyElemNested ==
  /\ ElemReady /\ Elem.t \in {"a", "d", "st"}
  /\ stack' = stack \o FramesFor(Elem)
  /\ Tick /\ UNCHANGED <<g, hi, ret, trans, ext, dst, next, puts, log, fail, phase, queue, buf>>

CopyRefHit ==
  /\ ElemReady /\ Elem.t = "r" /\ TK(Elem.n) \in DOMAIN trans
  /\ Consume(Rf(trans[TK(Elem.n)]))
  /\ Tick /\ UNCHANGED <<g, hi, ret, trans, ext, dst, next, puts, log, fail, phase, queue, buf>>

CopyRefEnter ==
  /\ ElemReady /\ Elem.t = "r" /\ TK(Elem.n) \notin DOMAIN trans
  /\ IF KeyByAsked
     THEN /\ next' = next + 1
          /\ trans' = IF RecordAfter THEN trans ELSE (TK(Elem.n) :> next) @@ trans
          /\ stack' = Append(stack, [f |-> "ref", src |-> Elem.n, new |-> next, chain |-> <<Elem.n>>, cur |-> Elem.n, ph |-> "walk", obj |-> 0])
     ELSE /\ stack' = Append(stack, [f |-> "ref", src |-> Elem.n, new |-> 0, chain |-> <<Elem.n>>, cur |-> Elem.n, ph |-> "walk", obj |-> 0])
          /\ UNCHANGED <<next, trans>>
  /\ Tick /\ UNCHANGED <<g, hi, ret, ext, dst, puts, log, fail, phase, queue, buf>>

CopyElemRet ==
  /\ Running /\ stack # <<>> /\ IsContainerFrame(Top) /\ ret.has
  /\ Consume(ret.v) /\ ret' = NoRet
  /\ Tick /\ UNCHANGED <<g, hi, trans, ext, dst, next, puts, log, fail, phase, queue, buf>>

CopyArrayDone ==
  /\ Running /\ stack # <<>> /\ Top.f = "arr" /\ Top.todo = <<>> /\ ~ret.has
  /\ stack' = Below
  /\ ret' = Ret(IF Top.done = <<>> /\ EmptyArrayNil THEN Nul ELSE Ar(Top.done))
  /\ Tick /\ UNCHANGED <<g, hi, trans, ext, dst, next, puts, log, fail, phase, queue, buf>>

CopyDictDone ==
  /\ Running /\ stack # <<>> /\ Top.f = "dict" /\ Top.todo = <<>> /\ ~ret.has
  /\ stack' = Below
  /\ ret' = Ret(Di(Top.k, Top.done))
  /\ Tick /\ UNCHANGED <<g, hi, trans, ext, dst, next, puts, log, fail, phase, queue, buf>>

(* ---- CopyReference below the trans lookup ---- *)
InRef == Running /\ stack # <<>> /\ Top.f = "ref"
ChainSet == {Top.chain[i] : i \in 1..Len(Top.chain)}
ChainKeys == {TK(c) : c \in ChainSet}
GaveUp == BoundBeforeRead /\ Len(Top.chain) >= MaxChain

Reveal ==
  /\ InRef /\ Top.ph = "walk" /\ g[Top.cur].k = "?"
  /\ \E kd \in (IF IsTwin(Top.cur) THEN {[k |-> "dangling"]} ELSE NodeKinds) :
       /\ Adv(KindMentions(kd), hi) # N + 1
       /\ ~(kd.k = "ref" /\ kd.to \in RedirSrc)
       /\ hi' = Adv(KindMentions(kd), hi)
       /\ g' = [g EXCEPT ![Top.cur] = kd]
  /\ Tick /\ UNCHANGED <<stack, ret, trans, ext, dst, next, puts, log, fail, phase, queue, buf>>

ResolveGiveUp ==   \* (mutation) the loop ends before the reference at hand is read
  /\ InRef /\ Top.ph = "walk" /\ GaveUp /\ g[Top.cur].k # "?"     \* (the model looks at the object first)
  /\ LET d == IF Top.new = 0 THEN next ELSE Top.new IN
     /\ next' = IF Top.new = 0 THEN next + 1 ELSE next
     /\ trans' = IF Top.new = 0 THEN [c \in ChainKeys |-> d] @@ trans ELSE trans
     /\ stack' = Below \o <<[Top EXCEPT !.ph = "put", !.new = d, !.obj = 0]>>
     /\ ret' = Ret(Nul)
  /\ Tick /\ UNCHANGED <<g, hi, ext, dst, puts, log, fail, phase, queue, buf>>

ResolveHop ==
  /\ InRef /\ Top.ph = "walk" /\ g[Top.cur].k = "ref" /\ ~GaveUp
  /\ LET m == g[Top.cur].to IN
     IF ~KeyByAsked /\ TK(m) \in DOMAIN trans
     THEN \* property-demanded design: every reference on the chain is looked up and recorded
          /\ trans' = [c \in ChainKeys |-> trans[TK(m)]] @@ trans
          /\ stack' = Below /\ ret' = Ret(Rf(trans[TK(m)]))
          /\ UNCHANGED <<dst, next, puts>>
     ELSE IF m \in ChainSet \/ Len(Top.chain) >= MaxChain
     THEN \* a loop (ErrCycle) or more than MaxChain references (ErrDepth) are malformed: the value is null
          /\ LET d == IF Top.new = 0 THEN next ELSE Top.new IN
             /\ next' = IF Top.new = 0 THEN next + 1 ELSE next
             /\ trans' = IF Top.new = 0 THEN [c \in ChainKeys |-> d] @@ trans ELSE trans
             /\ stack' = Below \o <<[Top EXCEPT !.ph = "put", !.new = d, !.obj = 0]>>
             /\ ret' = Ret(Nul)
          /\ UNCHANGED <<dst, puts>>
     ELSE /\ stack' = Below \o <<[Top EXCEPT !.cur = m, !.chain = Append(@, m)]>>
          /\ UNCHANGED <<trans, ret, dst, next, puts>>
  /\ Tick /\ UNCHANGED <<g, hi, ext, log, fail, phase, queue, buf>>

ResolveEnd ==    \* the chain ends: Copy(value), or null for a free / undefined object
  /\ InRef /\ Top.ph = "walk" /\ g[Top.cur].k \in {"val", "free", "dangling"} /\ ~GaveUp
  /\ LET v == IF g[Top.cur].k = "val" THEN g[Top.cur].v ELSE Nul
         d == IF Top.new = 0 THEN next ELSE Top.new
         fr == [Top EXCEPT !.ph = "put", !.new = d, !.obj = IF g[Top.cur].k = "val" THEN Top.cur ELSE 0]
     IN /\ next' = IF Top.new = 0 THEN next + 1 ELSE next
        /\ trans' = IF Top.new = 0 THEN [c \in ChainKeys |-> d] @@ trans ELSE trans
        /\ IF IsLeaf(v) THEN stack' = Below \o <<fr>> /\ ret' = Ret(v)
           ELSE stack' = Below \o <<fr>> \o FramesFor(v) /\ ret' = NoRet
  /\ Tick /\ UNCHANGED <<g, hi, ext, dst, puts, log, fail, phase, queue, buf>>

(* the bytes of a stream value are read when the Writer writes it *)
Now(v) == IF v.t = "st" THEN (IF v.raw.body = "@buf" THEN [v EXCEPT !.raw.body = buf] ELSE v) ELSE v
PutDst ==
  /\ InRef /\ Top.ph = "put" /\ ret.has
  /\ IF TargetOpen THEN queue' = Append(queue, [d |-> Top.new, v |-> ret.v]) /\ UNCHANGED dst
     ELSE dst' = (Top.new :> Now(ret.v)) @@ dst /\ UNCHANGED queue
  /\ puts' = Append(puts, [src |-> Top.obj, d |-> Top.new])
  /\ trans' = IF RecordAfter THEN (TK(Top.src) :> Top.new) @@ trans ELSE trans
  /\ stack' = Below /\ ret' = Ret(Rf(Top.new))
  /\ Tick /\ UNCHANGED <<g, hi, ext, next, log, fail, phase, buf>>

(* ---- Copy(stream) ---- *)
InStream == Running /\ stack # <<>> /\ Top.f = "st"
StreamDictRet ==
  /\ InStream /\ Top.ph = "dict" /\ ret.has
  /\ stack' = Below \o <<[Top EXCEPT !.ph = "Filter", !.res = ret.v]>>
  /\ ret' = NoRet
  /\ Tick /\ UNCHANGED <<g, hi, trans, ext, dst, next, puts, log, fail, phase, queue, buf>>

NextPh(ph) == IF ph = "Filter" THEN "DecodeParms" ELSE "data"
StreamInline ==   \* copyStreamDict: res[key] = Copy(inlineFilterRefs(src[key]))
  /\ InStream /\ Top.ph \in SpecKeys /\ ~ret.has
  /\ LET key == Top.ph IN
     IF ~HasKey(Top.v, key) THEN
        stack' = Below \o <<[Top EXCEPT !.ph = NextPh(key)]>>
     ELSE IF key = "DecodeParms" /\ DropParms THEN
        stack' = Below \o <<[Top EXCEPT !.ph = NextPh(key), !.res = Di(WithoutKeys(@, {key}).k, WithoutKeys(@, {key}).e)]>>
     ELSE IF InlinedAsIs THEN
        LET src == Entry(Top.v, key) IN
        stack' = Below \o <<[Top EXCEPT !.ph = NextPh(key),
                              !.res = IF src.t \in {"r", "a"} THEN SetKey(@, key, Inline(g, src)) ELSE @]>>
     ELSE LET x == Inline(g, Entry(Top.v, key)) IN
          IF IsLeaf(x) THEN stack' = Below \o <<[Top EXCEPT !.ph = NextPh(key), !.res = SetKey(@, key, x)]>>
          ELSE stack' = Below \o <<[Top EXCEPT !.ph = key \o "-ret"]>> \o FramesFor(x)
  /\ Tick /\ UNCHANGED <<g, hi, ret, trans, ext, dst, next, puts, log, fail, phase, queue, buf>>

StreamInlineRet ==
  /\ InStream /\ Top.ph \in {"Filter-ret", "DecodeParms-ret"} /\ ret.has
  /\ LET key == IF Top.ph = "Filter-ret" THEN "Filter" ELSE "DecodeParms" IN
     stack' = Below \o <<[Top EXCEPT !.ph = NextPh(key), !.res = SetKey(@, key, ret.v)]>>
  /\ ret' = NoRet
  /\ Tick /\ UNCHANGED <<g, hi, trans, ext, dst, next, puts, log, fail, phase, queue, buf>>

StreamData ==
  /\ InStream /\ Top.ph = "data" /\ ~ret.has
  /\ LET r == IF VerbatimAlways THEN "verbatim" ELSE Recipe(Top.v) IN
     IF r = "unsupported"
     THEN fail' = "unsupported" /\ UNCHANGED <<stack, ret>>
     ELSE /\ stack' = Below
          /\ ret' = Ret([t |-> "st", k |-> Top.res.k, e |-> Top.res.e, cf |-> Top.v.cf,
                         raw |-> [body |-> IF SharedBuffer /\ r = "decrypt" THEN "@buf" ELSE Top.v.body,
                                  spec |-> DeepSpec(g, Top.v),
                                  \* plaintext reaches the Writer iff the bytes were plaintext and are reused,
                                  \* or were encrypted by the default filter and are decrypted
                                  plain |-> (IF SrcEnc = "none" \/ Top.v.cf = "identity" THEN r = "verbatim"
                                             ELSE r = "decrypt" /\ Top.v.cf = "default")]])
          /\ UNCHANGED fail
  /\ buf' = IF SharedBuffer /\ ~VerbatimAlways /\ Recipe(Top.v) = "decrypt" THEN Top.v.body ELSE buf
  /\ Tick /\ UNCHANGED <<g, hi, trans, ext, dst, next, puts, log, phase, queue>>

(* the caller closes its stream (the queued objects are written), then puts *)
(* the stream values Copy returned to it                                    *)
Finish ==
  /\ phase = "run" /\ (fail # "" \/ stack = <<>>)
  /\ phase' = "done"
  /\ dst' = [d \in {queue[i].d : i \in 1..Len(queue)} |->
               Now(queue[CHOOSE i \in 1..Len(queue) : queue[i].d = d].v)] @@ dst
  /\ queue' = <<>>
  /\ log' = [i \in 1..Len(log) |-> [log[i] EXCEPT !.res = Now(@)]]
  /\ UNCHANGED <<g, hi, stack, ret, trans, ext, next, puts, fail, steps, buf>>
Done == phase = "done" /\ UNCHANGED vars

Machine ==
  \/ CallReturn \/ CopyElemLeaf \/ CopyDictNilPanics \/ CopyElemNested \/ CopyRefHit \/ CopyRefEnter
  \/ CopyElemRet \/ CopyArrayDone \/ CopyDictDone \/ Reveal \/ ResolveGiveUp \/ ResolveHop \/ ResolveEnd \/ PutDst
  \/ StreamDictRet \/ StreamInline \/ StreamInlineRet \/ StreamData
Calls == \E c \in CallSet : CallCopyReference(c) \/ CallCopy(c) \/ CallCopyObj(c) \/ CallRedirect(c)
Next == Machine \/ Calls \/ Finish \/ Done
Spec == Init /\ [][Next]_vars

-----------------------------------------------------------------------------
(* the property                                                             *)
AtEnd == phase = "done" /\ fail = ""
(* each source object is handed to Writer.Put at most once *)
Once == \A i \in 1..Len(puts), j \in 1..Len(puts) :
          i # j => /\ puts[i].d # puts[j].d
                   /\ puts[i].src # 0 => puts[i].src # puts[j].src
(* copying the same reference again returns the same target reference *)
Repeat == RepeatSame(Events)
(* the copier terminates, also on cyclic graphs *)
Terminates == steps <= StepBound /\ Len(stack) <= StepBound
NoPanic == fail # "panic"
(* an error is returned only for the documented gap *)
ErrorsOnlyUnsupported == fail = "unsupported" => SrcEnc # "none"
Judged == AtEnd /\ ~Ambiguous(ObsG, {Roots[i].s : i \in 1..Len(Roots)})
Shape == Judged => ShapeOK(ObsG, ObsD, Roots, ext)
Sharing == Judged => SharingOK(ObsG, ObsD, Roots, ext)
IsoInv == Judged => Iso(ObsG, ObsD, Roots, ext)
=============================================================================
