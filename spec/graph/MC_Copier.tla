----------------------------- MODULE MC_Copier -----------------------------
(* Bounded exhaustive model of Copier: the alphabets of source objects and  *)
(* of top-level calls, built from a few switches.  The graphs are not       *)
(* enumerated up front: Copier!Reveal chooses the value of a source object  *)
(* when the copier first looks at it, so TLC's workers share the            *)
(* enumeration and only reachable graphs (one per isomorphism class of the  *)
(* numbering) are explored.                                                 *)
EXTENDS Copier

CONSTANTS
  ScalarAtoms,    \* e.g. {"i:7"}
  MaxSlots,       \* 0..2 slots per array / dictionary
  WithDict,       \* dictionaries besides arrays
  WithNest,       \* one-slot containers may hold a nested one-slot container
  Nest2,          \* ... two-slot containers too
  WithStream,     \* stream objects
  StreamLayouts,  \* subset of {"none", "direct", "indirect", "array", "chain"}
  WithDangling,   \* undefined objects besides free ones
  WithNullObj,    \* objects whose value is null
  WithScalarObj,  \* objects whose value is a scalar
  CallOps,        \* subset of {"ref", "copyref", "arr1", "arr2", "obj", "redirect"}
  WithTwin,       \* object N is a reference with the number of object 1 and another generation
  CFIndirect,     \* streams with an explicit /Crypt filter also with indirect first array elements
  PlainIdentity,  \* unencrypted sources also have streams with /Crypt /Identity
  Bodies,         \* identities of stream data, e.g. {"b1", "b2"}
  ParmRefLayouts  \* subset of {"dict", "array", "inddict", "indarray"}: /DecodeParms holding a reference

RefSlots == {Rf(m) : m \in Nodes}
EmptyD == IF WithDict THEN {Di(<<>>, <<>>)} ELSE {}
Leaves == {Sc(a) : a \in ScalarAtoms} \cup {Nul, Ar(<<>>)} \cup EmptyD \cup RefSlots
Inner == {Nul, Ar(<<>>)} \cup RefSlots
Nested == IF WithNest
          THEN {Ar(<<x>>) : x \in Inner} \cup (IF WithDict THEN {Di(<<"A">>, <<x>>) : x \in Inner} ELSE {})
          ELSE {}
Slots1 == Leaves \cup Nested
Slots2 == IF Nest2 THEN Slots1 ELSE Leaves

Arrays == (IF MaxSlots >= 1 THEN {Ar(<<x>>) : x \in Slots1} ELSE {})
          \cup (IF MaxSlots >= 2 THEN {Ar(<<x, y>>) : x \in Slots2, y \in Slots2} ELSE {})
          \cup {Ar(<<>>)}
Dicts == IF ~WithDict THEN {}
         ELSE (IF MaxSlots >= 1 THEN {Di(<<"A">>, <<x>>) : x \in Slots1} ELSE {})
              \cup (IF MaxSlots >= 2 THEN {Di(<<"A", "B">>, <<x, y>>) : x \in Slots2, y \in Slots2} ELSE {})
              \cup {Di(<<>>, <<>>)}

(* streams: /Filter /FlateDecode with /DecodeParms << /Columns 4 /Predictor 12 >>, *)
(* spelled directly, through indirect objects, as arrays with indirect      *)
(* elements, or through a chain; the indirect objects are N+1 .. N+3        *)
FName == Sc("n:FlateDecode")
Parms == Di(<<"Columns", "Predictor">>, <<Sc("i:4"), Sc("i:12")>>)
(* parameter dictionaries that refer to a further object m (as /JBIG2Globals does) *)
PRef(m) == Di(<<"Columns", "JBIG2Globals", "Predictor">>, <<Sc("i:4"), Rf(m), Sc("i:12")>>)
F2 == Ar(<<Sc("n:ASCIIHexDecode"), FName>>)
MCAux == IF WithStream
         THEN (N + 1 :> [k |-> "val", v |-> FName]) @@ (N + 2 :> [k |-> "val", v |-> Parms])
              @@ (N + 3 :> [k |-> "ref", to |-> N + 1])
              @@ (N + 4 :> [k |-> "val", v |-> PRef(1)])                  \* indirect dictionary
              @@ (N + 5 :> [k |-> "val", v |-> Ar(<<Nul, PRef(1)>>)])     \* indirect array of null and a dictionary
         ELSE <<>>
PLayout(l, m) ==
  CASE l = "dict" -> [k |-> <<"DecodeParms", "Filter">>, e |-> <<PRef(m), FName>>]
    [] l = "array" -> [k |-> <<"DecodeParms", "Filter">>, e |-> <<Ar(<<Nul, PRef(m)>>), F2>>]
    [] l = "inddict" -> [k |-> <<"DecodeParms", "Filter">>, e |-> <<Rf(N + 4), FName>>]
    [] l = "indarray" -> [k |-> <<"DecodeParms", "Filter">>, e |-> <<Rf(N + 5), F2>>]
Layout(l) == CASE l = "none" -> [k |-> <<>>, e |-> <<>>]
               [] l = "direct" -> [k |-> <<"DecodeParms", "Filter">>, e |-> <<Parms, FName>>]
               [] l = "indirect" -> [k |-> <<"DecodeParms", "Filter">>, e |-> <<Rf(N + 2), Rf(N + 1)>>]
               [] l = "array" -> [k |-> <<"DecodeParms", "Filter">>, e |-> <<Ar(<<Rf(N + 2)>>), Ar(<<Rf(N + 1)>>)>>]
               [] l = "chain" -> [k |-> <<"DecodeParms", "Filter">>, e |-> <<Parms, Rf(N + 3)>>]
StreamSlots == {Sc(a) : a \in ScalarAtoms} \cup {Ar(<<>>)} \cup RefSlots
CFs == IF SrcEnc = "none"
       THEN (IF PlainIdentity THEN {[cf |-> "default", cfi |-> FALSE], [cf |-> "identity", cfi |-> FALSE]}
                                    \cup (IF CFIndirect THEN {[cf |-> "identity", cfi |-> TRUE]} ELSE {})
             ELSE {[cf |-> "default", cfi |-> FALSE]})
       ELSE {[cf |-> "default", cfi |-> FALSE], [cf |-> "identity", cfi |-> FALSE], [cf |-> "named", cfi |-> FALSE]}
            \cup (IF CFIndirect THEN {[cf |-> "identity", cfi |-> TRUE], [cf |-> "named", cfi |-> TRUE]} ELSE {})
MCTwin == [n \in Nodes |-> IF WithTwin /\ n = N THEN 1 ELSE n]
Streams == IF ~WithStream THEN {}
           ELSE {[t |-> "st", k |-> Layout(l).k, e |-> Layout(l).e, body |-> b, cf |-> c.cf, cfi |-> c.cfi] :
                    l \in StreamLayouts, c \in CFs, b \in Bodies}
                \cup {[t |-> "st", k |-> Layout(l).k \o <<"K">>, e |-> Layout(l).e \o <<x>>, body |-> b, cf |-> c.cf, cfi |-> c.cfi] :
                    l \in StreamLayouts, c \in CFs, x \in StreamSlots, b \in Bodies}
                \cup {[t |-> "st", k |-> PLayout(l, m).k, e |-> PLayout(l, m).e, body |-> b, cf |-> "default", cfi |-> FALSE] :
                    l \in ParmRefLayouts, m \in Nodes, b \in Bodies}

MCNodeKinds ==
  {[k |-> "free"]} \cup (IF WithDangling THEN {[k |-> "dangling"]} ELSE {})
  \cup {[k |-> "ref", to |-> m] : m \in Nodes}
  \cup {[k |-> "val", v |-> v] : v \in Arrays \cup Dicts \cup Streams
                                       \cup (IF WithNullObj THEN {Nul} ELSE {})
                                       \cup (IF WithScalarObj THEN {Sc(a) : a \in ScalarAtoms} ELSE {})}

MCCallSet ==
  (IF "ref" \in CallOps THEN {[op |-> "ref", n |-> n] : n \in Nodes} ELSE {})
  \cup (IF "copyref" \in CallOps THEN {[op |-> "val", v |-> Rf(n)] : n \in Nodes} ELSE {})
  \cup (IF "arr1" \in CallOps THEN {[op |-> "val", v |-> Ar(<<Rf(a)>>)] : a \in Nodes} ELSE {})
  \cup (IF "arr2" \in CallOps THEN {[op |-> "val", v |-> Ar(<<Rf(a), Rf(b)>>)] : a \in Nodes, b \in Nodes} ELSE {})
  \cup (IF "obj" \in CallOps THEN {[op |-> "obj", n |-> n] : n \in Nodes} ELSE {})
  \cup (IF "redirect" \in CallOps THEN {[op |-> "redirect", n |-> n] : n \in Nodes} ELSE {})
=============================================================================
