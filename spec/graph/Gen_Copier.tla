----------------------------- MODULE Gen_Copier -----------------------------
(* Case generator: the bounded model of MC_Copier with the copier the       *)
(* property demands; every finished run appends one JSON line               *)
(*   [nodes, twin, calls, srcenc, dstenc, fail, nimg]                       *)
(* to IOEnv.OUT: the source file that was revealed, the top-level calls,    *)
(* whether the run ends in the documented "unsupported /Crypt filter" error *)
(* and the number of source objects that must have an image (a consequence  *)
(* of CopierRef!Iso, not of how the copier works).  The harness writes the  *)
(* source file, performs the calls on the real pdf.Copier and compares.     *)
EXTENDS MC_Copier, Json, IOUtils, CSV

CallsMade == [i \in 1..Len(log) |-> log[i].call]
             \o (IF stack # <<>> THEN <<stack[1].call>> ELSE <<>>)
CaseRec ==
  [nodes |-> [n \in DOMAIN g |-> g[n]],
   twin |-> [n \in Nodes |-> Twin[n]],
   calls |-> CallsMade,
   srcenc |-> SrcEnc, dstenc |-> DstEnc,
   fail |-> fail,
   \* on the target as it is after Finish (the caller's stream closed, its queue written)
   nimg |-> IF fail = "" THEN Cardinality(Correspondence(ObsG, ObsD', Roots', ext).m) ELSE 0]
Emit == CSVWrite("%1$s", <<ToJson(CaseRec)>>, IOEnv.OUT)
GenFinish == /\ Finish
             /\ (NoCopyYet /\ fail = "") \/ Emit
GenNext == Machine \/ Calls \/ GenFinish \/ Done
GenSpec == Init /\ [][GenNext]_vars
=============================================================================
